"""C15/leftover/nobody+body — standalone reproducer (plain circuits, real loopback TCP, no framework).

A handler sets a status that by definition has no body (204 No Content, 304 Not Modified, 1xx) and returns something all the
same (`self.response.status = 304; return 'body-of-304'` - e.g. a handler that decides late that the client's copy is still
good and falls through to its ordinary `return page`).  HTTP._on_response cuts the body off for HEAD only: the response goes
out as `HTTP/1.1 304 Not Modified ... Content-Length: 11 CRLF CRLF body-of-304`.  A client that follows RFC 7230 3.3.3 (any
response with a 1xx, 204 or 304 status ends after the header section, whatever Content-Length says) takes `body-of-304` for
the beginning of the next response: the kept-alive connection is out of step from there on.

Run: /venv/bin/python /verif/findings/C15-body-with-204-304.py   (exit 1 = defect reproduced, 0 = not reproduced)
"""
import os
import socket
import sys
import time

sys.path.insert(0, os.environ.get('VERIF_REPO', '/repo'))
import http.client  # noqa: E402

from circuits.web import Controller, Server  # noqa: E402


class Root(Controller):
    def notmodified(self):
        self.response.status = 304
        return 'body-of-304'

    def nocontent(self):
        self.response.status = 204
        return [b'body-', 'of-204']

    def processing(self):
        self.response.status = 102
        return (c for c in ['body-', 'of-102'])

    def index(self):
        return 'Hello World!'


def start(server):
    server.start()
    deadline = time.time() + 10
    while not server.port and time.time() < deadline:
        time.sleep(0.05)
    time.sleep(0.2)


def recv_quiet(sock, wait=0.7):
    """everything that arrives until the server closes or stays silent for `wait` seconds"""
    sock.settimeout(wait)
    data = b''
    try:
        while True:
            d = sock.recv(65536)
            if not d:
                break
            data += d
    except socket.timeout:
        pass
    return data


server = Server(('127.0.0.1', 0))
Root().register(server)
start(server)
bad = False
for path in ('notmodified', 'nocontent', 'processing'):
    # 1. the raw bytes: anything after the header section of a 1xx/204/304 response is a body it must not have
    s = socket.create_connection(('127.0.0.1', server.port))
    s.sendall(b'GET /%s HTTP/1.1\r\nHost: x\r\n\r\n' % path.encode())
    data = recv_quiet(s)
    s.close()
    head, _, rest = data.partition(b'\r\n\r\n')
    print('GET /%s -> %r; after the header section: %r' % (path, head.split(b'\r\n')[0].decode(), rest))
    if rest:
        bad = True
    # 2. an independent client on a kept-alive connection: the next request must be answered with the index page
    conn = http.client.HTTPConnection('127.0.0.1', server.port, timeout=3)
    try:
        conn.request('GET', '/' + path)
        r1 = conn.getresponse()
        b1 = r1.read()
        conn.request('GET', '/')
        r2 = conn.getresponse()
        b2 = r2.read()
        print('    http.client: %d with %d body bytes, then GET / -> %d %r' % (r1.status, len(b1), r2.status, b2))
        if (b1, r2.status, b2) != (b'', 200, b'Hello World!'):
            bad = True
    except (http.client.HTTPException, OSError) as e:
        print('    http.client fails on the response that follows: %s: %s' % (type(e).__name__, e))
        bad = True
    finally:
        conn.close()
server.stop()
print('DEFECT REPRODUCED' if bad else 'not reproduced')
sys.exit(1 if bad else 0)
