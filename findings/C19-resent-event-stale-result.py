"""C19/result/resent-event-stale-result - standalone reproducer (plain circuits, no framework, no sockets).

`Protocol.send` waits for the answer with `while not hasattr(event, 'remote_finish')`.  The attribute is set on the EVENT when its result
packet arrives and is never cleared, so an event object that has completed one round trip is "finished" for ever: sending the same object
again (a retry, a periodic event that is kept around, one event sent with results to two peers) transmits a second call - which the
peer executes - but the sender's generator yields the OLD value at once, before the peer has answered, and forgets the call id; the real
second result is dropped on arrival.  (The second call packet even ships "meta": {"remote_finish": true, "errors": false}.)

Run: /venv/bin/python /verif/findings/C19-resent-event-stale-result.py   (exit 1 = defect reproduced, 0 = not reproduced)
"""
import json
import os
import sys

sys.path.insert(0, os.environ.get('VERIF_REPO', '/repo'))
from circuits import Component, Event  # noqa: E402
from circuits.node.protocol import Protocol  # noqa: E402

wire = []


class App(Component):
    def write(self, *args):
        wire.append(args[-1])


def plain(x):
    return getattr(x, 'value', x)


def round_trip(proto, app, event, answer):
    """send `event`, let the call packet leave, report what the waiting generator yields BEFORE and AFTER the peer's answer arrives"""
    n = len(wire)
    g = proto.send(event)
    before = next(g)                     # the packet is fired; a handler waiting for the result sees None (keeps waiting)
    for _ in range(4):
        app.flush()
    call = json.loads(wire[n].split(b'~~~')[0]) if len(wire) > n else None
    if before is None and call is not None:
        proto.add_buffer(json.dumps({'id': call['id'], 'errors': False, 'value': answer, 'meta': {}}).encode() + b'~~~')
    after = before if before is not None else next(g)
    return call, plain(before), plain(after)


bad = False
# (1) same object, same connection (client side of a connection: Protocol())
app = App()
p = Protocol().register(app)
ev = Event.create('hello', 'x')
call1, b1, a1 = round_trip(p, app, ev, 'first')
call2, b2, a2 = round_trip(p, app, ev, 'second')
print('1st send: call packet id=%s meta=%s, before the answer: %r, after it: %r' % (call1 and call1['id'], call1 and call1['meta'], b1, a1))
print('2nd send: call packet id=%s meta=%s, before the answer: %r, after it: %r' % (call2 and call2['id'], call2 and call2['meta'], b2, a2))
bad |= not (b1 is None and a1 == 'first' and call2 is not None and b2 is None and a2 == 'second')

# (2) same object sent with results to two connections of one server process, one after the other
app = App()
p1, p2 = Protocol(sock='s1', server=app).register(app), Protocol(sock='s2', server=app).register(app)
ev = Event.create('hello', 'y')
_, _, a1 = round_trip(p1, app, ev, 'answer of peer 1')
_, b2, a2 = round_trip(p2, app, ev, 'answer of peer 2')
print('two peers: peer 1 -> %r; peer 2 before its answer: %r, after it: %r' % (a1, b2, a2))
bad |= not (a1 == 'answer of peer 1' and b2 is None and a2 == 'answer of peer 2')

print('DEFECT REPRODUCED' if bad else 'not reproduced')
sys.exit(1 if bad else 0)
