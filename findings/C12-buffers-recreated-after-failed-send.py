"""C12 reproducer (plain circuits): `_buffers[sock]` is re-created for a socket that was just closed by a failing send.

Server._on_write: `self._write(sock, data)` fails (peer gone: EPIPE) -> `_close(sock)` deletes `_buffers[sock]` and fires disconnect; the very next
statement `if not self._buffers[sock]:` looks the socket up in the defaultdict again and so re-creates an (empty) entry that is never removed.
History: the peer does not read, the server writes more than the socket buffer takes, the peer closes ("close while the server is writing").

Run: /venv/bin/python findings/C12-buffers-recreated-after-failed-send.py      (exit 1 = defect present)
"""
import os
import socket
import sys

sys.path.insert(0, os.environ.get('VERIF_REPO', '/repo'))
from circuits import Component, Manager  # noqa: E402
from circuits.core.pollers import EPoll, Poll, Select  # noqa: E402
from circuits.net.events import write  # noqa: E402
from circuits.net.sockets import UNIXServer  # noqa: E402

bad = 0
for P in (Select, Poll, EPoll):
    log = []

    class Obs(Component):
        channel = 'server'

        def connect(self, sock, *a):
            log.append('connect')

        def disconnect(self, sock):
            log.append('disconnect')

        def error(self, sock, e):
            log.append('error %r' % (e,))

    m = Manager()
    P().register(m)
    path = '\0c12-repro2-%d-%s' % (os.getpid(), P.__name__)
    srv = UNIXServer(path).register(m)
    Obs().register(m)
    m._running = True

    def ticks(n=8):
        for _ in range(n):
            m.tick(0)

    ticks()
    c = socket.socket(socket.AF_UNIX)
    c.connect(path)
    ticks()
    s = srv._clients[0]
    m.fire(write(s, b'x' * 1000000), 'server')      # more than the socket buffer: a tail stays queued in _buffers[s]
    ticks()
    c.close()                                       # the peer never read anything
    ticks()
    held = s in srv._buffers
    print('%-6s %s; _buffers holds the disconnected socket: %s %r' % (P.__name__, log, held, dict(srv._buffers)))
    bad += held
print('DEFECT PRESENT' if bad else 'ok')
sys.exit(1 if bad else 0)
