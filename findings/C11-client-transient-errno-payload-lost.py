"""C11/client/transient-errno/payload-lost - standalone reproducer (plain circuits, loopback TCP, no verification framework).

TCPClient (same code for UNIXClient: Client._write) pops a payload from its buffer, send() raises a transient errno
(EAGAIN/EWOULDBLOCK, EINTR, ENOBUFS): the payload is NOT put back (only an `error` event is fired), so it is lost, the following
payloads go out directly after the earlier ones and a pending close() proceeds.  Server._write requeues (`appendleft(data)`).

Run: /venv/bin/python C11-client-transient-errno-payload-lost.py   (exit 1 = defect present, 0 = fixed)
"""
import errno
import os
import socket
import sys

sys.path.insert(0, os.environ.get('VERIF_REPO', '/repo'))
import circuits.net.sockets as S                       # noqa: E402
from circuits import Component, Manager                # noqa: E402
from circuits.core.pollers import Select               # noqa: E402
from circuits.net.events import close, connect, write  # noqa: E402

script = []            # outcome of the next send() calls of the client socket: 0 = normal, errno = raise it
accepted = bytearray()


class ScriptedSocket(socket.socket):
    def send(self, data, *a):
        e = script.pop(0) if script else 0
        if e:
            raise OSError(e, os.strerror(e))
        n = super().send(data, *a)
        accepted.extend(data[:n])
        return n


S.socket = ScriptedSocket
events = []


class Obs(Component):
    channel = 'client'

    def connected(self, *a):
        events.append('connected')

    def error(self, e, *a):
        events.append('error(%s)' % errno.errorcode.get(getattr(e, 'errno', None), e))

    def disconnected(self):
        events.append('disconnected')


bad = 0
for name in ('EAGAIN', 'EINTR', 'ENOBUFS'):
    del events[:], accepted[:]
    listener = socket.socket()
    listener.bind(('127.0.0.1', 0))
    listener.listen(1)
    m = Manager()
    Select().register(m)
    S.TCPClient().register(m)
    Obs().register(m)
    m._running = True                                  # drive the loop by hand: tick() polls and dispatches
    for _ in range(5):
        m.tick(0.01)
    m.fire(connect(*listener.getsockname()), 'client')
    for _ in range(10):
        m.tick(0.01)
    conn, _ = listener.accept()
    script[:] = [0, getattr(errno, name)]              # 1st send normal, 2nd send refused once
    m.fire(write(b'hello '), 'client')
    m.fire(write(b'cruel '), 'client')
    m.fire(write(b'world'), 'client')
    m.fire(close(), 'client')                          # close requested while all three are buffered
    for _ in range(20):
        m.tick(0.01)
    conn.settimeout(1)
    got = b''
    try:
        while True:
            d = conn.recv(100)
            if not d:
                break
            got += d
    except OSError:
        pass
    ok = got == b'hello cruel world'
    bad += not ok
    print('%-8s accepted by the OS: %r  peer received: %r  events: %s  -> %s' % (name, bytes(accepted), got, events, 'ok' if ok else 'PAYLOAD LOST'))
    conn.close()
    listener.close()
sys.exit(1 if bad else 0)
