"""C05/early-complete/fired-from-generator-step — standalone reproducer (plain circuits, no framework).

A generator handler of a complete-requesting event fires a child from one of its steps; the child's handler fires a grandchild.
Expected by the statement: `foo_complete` only after child and grandchild have been dispatched to all their handlers.
Observed on the pinned tree: `foo_complete` is fired as soon as the generator finishes, before the child (fired from the last
step) is dispatched and long before the grandchild.  Events fired from processTask are never linked in Manager._fire:
`_currently_handling` is None while tasks are stepped (and with a manager that is ticked by hand `_fire` even takes the
"other thread" branch).  Both ways of driving the manager are shown: tick() by hand and a real run().

Run: /venv/bin/python /verif/findings/C05-fired-from-generator-step.py   (exit 1 = defect reproduced, 0 = not reproduced)
"""
import os
import sys

sys.path.insert(0, os.environ.get('VERIF_REPO', '/repo'))
from circuits import Component, Event  # noqa: E402


class foo(Event):
    complete = True


class child(Event):
    pass


class grandchild(Event):
    pass


class App(Component):
    def init(self, stop_on_grandchild=False):
        self.log = []
        self.stop_on_grandchild = stop_on_grandchild

    def foo(self):
        self.log.append('foo step 0')
        yield None
        self.log.append('foo step 1 fires child')
        self.fire(child())

    def child(self):
        self.log.append('child fires grandchild')
        self.fire(grandchild())

    def grandchild(self):
        self.log.append('grandchild')
        if self.stop_on_grandchild:
            self.stop()

    def foo_complete(self, e, value):
        self.log.append('foo_complete')


def judge(log):
    return 'foo_complete' in log and log.index('foo_complete') < log.index('grandchild')


app = App()
app.fire(foo())
for _ in range(20):
    app.tick()
print('ticked by hand:', app.log)
bad1 = judge(app.log)

app = App(stop_on_grandchild=True)
app.fire(foo())
app.run()
print('under run()   :', app.log)
bad2 = judge(app.log)
print('DEFECT REPRODUCED' if (bad1 or bad2) else 'not reproduced')
sys.exit(1 if (bad1 or bad2) else 0)
