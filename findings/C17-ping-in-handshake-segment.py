"""Standalone reproducer (plain circuits, no framework, no sockets) for the finding
C17/ping/client/ping-in-the-segment-of-the-handshake-response.

WebSocketClient creates its codec with WebSocketCodec(data=<bytes that followed the 101 response in the same read>).  The
constructor parses that data at once; a ping in it is answered through self._write(), which fires `write` on
self.parent.channel - but the codec is not registered yet, so self.parent is the codec itself and the pong frame is queued as
a `write` event on the codec's OWN channel.  After registration the codec's `write` handler treats it as application data:
the peer receives a BINARY DATA MESSAGE whose payload is the pong frame, and no pong.

Run:  PYTHONPATH=/repo /venv/bin/python /verif/findings/C17-ping-in-handshake-segment.py     exit 1 = defect present
"""
import sys

import circuits.protocols.websocket as ws
from circuits import Component
from circuits.protocols.websocket import WebSocketCodec

ws.os.urandom = lambda n: b'\x00' * n          # masking key 0 keeps the bytes readable


class Transport(Component):
    channel = 'transport'
    wire = []

    def write(self, data):
        self.wire.append(bytes(data))


t = Transport()
WebSocketCodec(data=b'\x89\x01p', channel='ws').register(t)      # client-side codec (sock=None), handshake segment ends with ping "p"
for _ in range(8):
    t.tick()
print('written to the transport:', t.wire)
want = b'\x8a\x81\x00\x00\x00\x00p'
if t.wire != [want]:
    print('DEFECT: expected one masked pong %r' % want)
    sys.exit(1)
print('ok')
