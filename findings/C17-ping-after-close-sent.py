"""Standalone reproducer (plain circuits, no framework, no sockets) for the finding C17/decode/ping-after-close-frame-sent.

After the application has started the closing handshake (close frame sent, the peer's close frame not yet received) the peer
may still have frames in flight.  For a ping _parse_messages executes `return None`; the read handler then iterates over None
and raises TypeError: messages decoded earlier in the same read are dropped, the raw read event is not stopped and _buffer
keeps its old content, so the decoder is out of step.  Here a fragmented message with a ping between its fragments is in
flight when the close is fired; what is delivered is a message the peer never sent (the tail of the payload parsed as a frame).

Run:  PYTHONPATH=/repo /venv/bin/python /verif/findings/C17-ping-after-close-sent.py     exit 1 = defect present
"""
import sys

from circuits import Component, handler
from circuits.net.events import close, read
from circuits.protocols.websocket import WebSocketCodec


class Transport(Component):
    channel = 'transport'
    wire = []
    closed = 0

    def write(self, sock, data):
        self.wire.append(bytes(data))

    def close(self, sock):
        self.closed += 1


class App(Component):
    channel = 'ws'
    got = []
    errors = []

    def read(self, sock, data):
        self.got.append(data)

    @handler('exception', channel='*')
    def _on_exception(self, etype, evalue, tb, handler=None, fevent=None):
        self.errors.append('%s: %s' % (etype.__name__, evalue))


SOCK = object()
t = Transport()
app = App().register(t)
WebSocketCodec(SOCK, channel='ws').register(t)
for _ in range(4):
    t.tick()
t.fire(close(SOCK), 'ws')                       # the application closes: close frame goes out
for _ in range(4):
    t.tick()
# in flight from the peer when the close went out: one binary message b'xx\x82\x03abc' sent as fragment b'' (FIN=0), ping,
# continuation (FIN=1); the first read ends inside the payload of the continuation frame
payload = b'xx\x82\x03abc'
frames = b'\x02\x00' + b'\x89\x00' + b'\x80' + bytes([len(payload)]) + payload
t.fire(read(SOCK, frames[:8]), 'transport')       # ... up to and including b'xx'
t.fire(read(SOCK, frames[8:]), 'transport')       # the rest of the payload
for _ in range(8):
    t.tick()
print('wire:', t.wire, ' delivered:', app.got, ' errors:', app.errors)
if app.errors or any(bytes(g) != payload for g in app.got):
    print('DEFECT: a ping after the close frame was sent breaks the decoder: %r was delivered, the peer sent %r' % (app.got, payload))
    sys.exit(1)
print('ok')
