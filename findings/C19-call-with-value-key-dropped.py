"""C19/exactly-once/call-with-value-key-dropped - standalone reproducer (plain circuits, no framework, no sockets).

Protocol.__process_packet decides between "call" and "result" packets with `'"value":' in packet` (FIXME in protocol.py).  A call whose
kwargs (or a dict inside args, or its meta) have a key named "value" is therefore parsed as a result packet, load_value fails with
KeyError, and the packet is dropped silently: the remote handler never runs and the sender waits for ever.

Run: /venv/bin/python /verif/findings/C19-call-with-value-key-dropped.py   (exit 1 = defect reproduced, 0 = not reproduced)
"""
import os
import sys

sys.path.insert(0, os.environ.get('VERIF_REPO', '/repo'))
from circuits import Component, Event  # noqa: E402
from circuits.node.protocol import Protocol  # noqa: E402
from circuits.node.utils import dump_event  # noqa: E402

ran = []


class App(Component):
    def set(self, *args, **kwargs):
        ran.append((args, kwargs))

    def write(self, data):
        pass


def deliver(event):
    ran.clear()
    app = App()
    proto = Protocol().register(app)
    proto.add_buffer(dump_event(event, 0).encode() + b'~~~')
    for _ in range(5):
        app.flush()
    return list(ran)


a = deliver(Event.create('set', amount=3))
b = deliver(Event.create('set', value=3))
c = deliver(Event.create('set', {'value': 3}))
print('set(amount=3)      ->', a)
print('set(value=3)       ->', b)
print('set({"value": 3})  ->', c)
bad = len(a) == 1 and (len(b) != 1 or len(c) != 1)
print('DEFECT REPRODUCED' if bad else 'not reproduced')
sys.exit(1 if bad else 0)
