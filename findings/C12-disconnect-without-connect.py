"""C12 reproducer (plain circuits, real TCP sockets on 127.0.0.1, no fault injection): a connection that the peer resets before the
server accepts it gives observers a `disconnect` (and an `error`) for a socket that was never announced by `connect`.

History: the peer connects and resets (SO_LINGER 0, then close) before the server's next loop iteration.  accept() still returns the
socket.  Server._on_accept_done registers it (poller, _clients) and then builds the connect event from sock.getpeername(), which raises
ENOTCONN - `connect` is never fired.  _on_handshake_error fires error(sock, exc) and _close(sock) fires disconnect(sock).
Statement: "For every connection a server accepts, observers see exactly one connect, then ... exactly one disconnect ... whatever the
peer does (... abort ...)" - the observed stream ['error', 'disconnect'] has a disconnect without its connect.

Run: /venv/bin/python findings/C12-disconnect-without-connect.py      (exit 1 = defect present)
"""
import errno
import os
import socket
import struct
import sys

sys.path.insert(0, os.environ.get('VERIF_REPO', '/repo'))
from circuits import Component, Manager  # noqa: E402
from circuits.core.pollers import EPoll, Poll, Select  # noqa: E402
from circuits.net.sockets import TCPServer  # noqa: E402

bad = 0
for P in (Select, Poll, EPoll):
    log = []

    class Obs(Component):
        channel = 'server'

        def connect(self, sock, *a):
            log.append('connect')

        def read(self, sock, data):
            log.append('read')

        def disconnect(self, sock):
            log.append('disconnect')

        def error(self, sock, e, *a):
            log.append('error %s' % errno.errorcode.get(getattr(e, 'errno', None), e))

    m = Manager()
    P().register(m)
    srv = TCPServer(('127.0.0.1', 0)).register(m)
    Obs().register(m)
    m._running = True

    def ticks(n=10):
        for _ in range(n):
            m.tick(0.01)

    ticks()
    c = socket.socket(socket.AF_INET, socket.SOCK_STREAM)
    c.connect(('127.0.0.1', srv.port))                                       # completes in the kernel's accept queue
    c.setsockopt(socket.SOL_SOCKET, socket.SO_LINGER, struct.pack('ii', 1, 0))
    c.close()                                                                # RST before the server has called accept()
    ticks()
    nconn, ndisc = log.count('connect'), log.count('disconnect')
    residue = len(srv._clients) + len(srv._buffers) + len(srv._closeq)
    wrong = ndisc != nconn or (ndisc and log.index('disconnect') < log.index('connect'))
    print('%-6s observer saw %s; server tables hold %d entries -> %s' % (P.__name__, log, residue, 'disconnect WITHOUT connect' if wrong else 'ok'))
    bad += bool(wrong)
    m.fire(__import__('circuits.net.events', fromlist=['close']).close(), 'server')
    ticks()
print('DEFECT PRESENT' if bad else 'ok')
sys.exit(1 if bad else 0)
