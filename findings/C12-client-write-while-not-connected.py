"""C12 reproducer (plain circuits): a TCPClient that was handed data while not connected never reports `disconnected`.

write() before connect under Poll / EPoll: the unconnected socket is registered as writer, the kernel reports HUP for it, the poller discards it;
the payload stays in Client._buffer with no writer registered.  After connect, the remote end closes: _read sees EOF -> close() -> the buffer is
not empty -> only `_closeflag` is set -> `disconnected` is never fired and the loop re-reads the EOF for ever.  (Under Select the same happens
when the write arrives after a disconnect and the client then reconnects.)  "one disconnected per connected" is violated: 1 connected, 0 disconnected.

Run: /venv/bin/python findings/C12-client-write-while-not-connected.py      (exit 1 = defect present)
"""
import os
import socket
import sys

sys.path.insert(0, os.environ.get('VERIF_REPO', '/repo'))
from circuits import Component, Manager  # noqa: E402
from circuits.core.pollers import EPoll, Poll, Select  # noqa: E402
from circuits.net.events import connect, write  # noqa: E402
from circuits.net.sockets import TCPClient  # noqa: E402

bad = 0
for P in (Select, Poll, EPoll):
    log = []

    class Obs(Component):
        channel = 'client'

        def connected(self, *a):
            log.append('connected')

        def disconnected(self):
            log.append('disconnected')

    lst = socket.socket(socket.AF_INET, socket.SOCK_STREAM)
    lst.bind(('127.0.0.1', 0))
    lst.listen(1)
    m = Manager()
    P().register(m)
    cli = TCPClient().register(m)
    Obs().register(m)
    m._running = True

    def ticks(n=200):
        for _ in range(n):
            m.tick(0.001)

    ticks(5)
    m.fire(write(b'early'), 'client')               # before connect
    ticks(5)
    m.fire(connect(*lst.getsockname()), 'client')
    ticks(20)
    remote, _ = lst.accept()
    ticks(20)
    remote.close()                                  # the remote end goes away
    lst.close()
    ticks()
    ok = log.count('connected') == log.count('disconnected')
    print('%-6s %s -> %s' % (P.__name__, log, 'ok' if ok else 'connected without disconnected (client spins on EOF, _closeflag=%s, buffered=%r)' % (cli._closeflag, list(cli._buffer))))
    bad += not ok
print('DEFECT PRESENT' if bad else 'ok')
sys.exit(1 if bad else 0)
