"""C19/exactly-once/keyword-named-like-create-parameter - standalone reproducer (plain circuits, no framework, no sockets).

A node rebuilds every received event with `Event.create(name, *args, **kwargs)`, whose first parameter is called `_name`.  An event that
carries a keyword argument called `_name` (or `cls`) makes that call raise TypeError ("got multiple values for argument"): the event is
never executed on the peer and the sender's call()/wait() never returns.  Locally such an event is perfectly legal.

Run: /venv/bin/python /verif/findings/C19-keyword-named-like-create-parameter.py   (exit 1 = defect reproduced, 0 = not reproduced)
"""
import os
import sys

sys.path.insert(0, os.environ.get('VERIF_REPO', '/repo'))
from circuits import Component, Event  # noqa: E402
from circuits.node.protocol import Protocol  # noqa: E402
from circuits.node.utils import dump_event  # noqa: E402

ran = []


class App(Component):
    def set(self, *args, **kwargs):
        ran.append((args, kwargs))

    def write(self, data):
        pass


class set_(Event):
    name = 'set'


def deliver(event):
    ran.clear()
    app = App()
    proto = Protocol().register(app)
    proto.add_buffer(dump_event(event, 0).encode() + b'~~~')
    for _ in range(5):
        app.flush()
    return list(ran)


a = deliver(set_(amount=3))
b = deliver(set_(_name=3))
c = deliver(set_(cls=3))
print('set(amount=3) ->', a)
print('set(_name=3)  ->', b)
print('set(cls=3)    ->', c)
bad = len(a) == 1 and (len(b) != 1 or len(c) != 1)
print('DEFECT REPRODUCED' if bad else 'not reproduced')
sys.exit(1 if bad else 0)
