"""C14 reproducer (plain circuits, no harness): HTTP._buffers[sock] survives the disconnect.

HTTP._on_read creates `self._buffers[sock] = HttpParser(...)` for the first bytes of a message and deletes it only when a request
is dispatched or on two of the 400 paths.  HTTP._on_disconnect deletes `_clients[sock]` only.  A connection that ends in
mid-message (or after a 505 / 500 answer) therefore leaves its parser - and the socket object as dict key - behind for ever.

Run: /venv/bin/python findings/C14-http-buffers-survive-disconnect.py     (exit 1 = defect present)
"""
import socket
import sys
sys.path.insert(0, __import__('os').environ.get('VERIF_REPO', '/repo'))

from circuits import Manager
from circuits.web import BaseServer
import circuits.web.servers
circuits.web.servers.stderr = open('/dev/null', 'w')

m = Manager()
srv = BaseServer(('127.0.0.1', 0)).register(m)
m._running = True


def ticks(n=6):
    for _ in range(n):
        m.tick(0.01)


ticks()
left = {}
for name, data in [('half a request line', b'GET /index.ht'), ('headers incomplete', b'GET / HTTP/1.1\r\nHost: h\r\n'),
                   ('body incomplete', b'POST / HTTP/1.1\r\nHost: h\r\nContent-Length: 10\r\n\r\nabc'),
                   ('HTTP/2.0 -> 505', b'GET / HTTP/2.0\r\nHost: h\r\n\r\n'), ('Content-Length: abc -> 500', b'GET / HTTP/1.1\r\nHost: h\r\nContent-Length: abc\r\n\r\n')]:
    before = len(srv.http._buffers)
    c = socket.create_connection(('127.0.0.1', srv.port))
    ticks()
    c.sendall(data)
    ticks()
    c.close()
    ticks(10)
    left[name] = len(srv.http._buffers) - before
    print('%-28s connections known to the server: %d   HTTP._buffers grew by %d   HTTP._clients: %d' % (
        name, len(srv.server._clients), left[name], len(srv.http._clients)))
bad = any(left.values())
print('DEFECT PRESENT: %d parser(s) retained for connections that are gone' % len(srv.http._buffers) if bad else 'ok: nothing retained')
sys.exit(1 if bad else 0)
