"""Standalone reproducer (plain circuits, no framework) for finding C04/value/first-list-result-flattened.

A handler result that is a list is a result like any other: "a single result is stored as such, several as a list in
the order they were produced".  `Value.setValue` decides "this value already holds several results" with
`isinstance(self._value, list)`; when the FIRST result of an event happens to be a list, the later results are appended
INTO that list (the handler's own object) instead of a new list of results being started:

    handlers return [1, 2] and 3   ->  value == [1, 2, 3]       (demanded: [[1, 2], 3])
    handlers return []     and 3   ->  value == [3]             (demanded: [[], 3])
    generator yields [1], then 2   ->  value == [1, 2]          (demanded: [[1], 2])

The same results in the other order ([3, [1, 2]]) are stored correctly, so the shape of the value depends on which
handler happened to run first; and the list object the first handler returned is modified behind its back.

Run:  VERIF_REPO=/repo /venv/bin/python /verif/findings/C04-list-result-flattened.py     exit 1 = defect present
"""
import os
import sys

sys.path.insert(0, os.environ.get('VERIF_REPO', '/repo'))

from circuits import BaseComponent, Event, handler  # noqa: E402


class two(Event):
    pass


class empty(Event):
    pass


class gen(Event):
    pass


class rev(Event):
    pass


OWN = [1, 2]          # the list object the first handler of `two` hands out


class App(BaseComponent):
    @handler('two', priority=2)
    def two_a(self):
        return OWN

    @handler('two', priority=1)
    def two_b(self):
        return 3

    @handler('empty', priority=2)
    def empty_a(self):
        return []

    @handler('empty', priority=1)
    def empty_b(self):
        return 3

    @handler('gen')
    def gen_a(self):
        yield [1]
        yield 2

    @handler('rev', priority=2)
    def rev_a(self):
        return 3

    @handler('rev', priority=1)
    def rev_b(self):
        return [1, 2]


app = App()
values = {name: app.fire(cls()) for name, cls in (('two', two), ('empty', empty), ('gen', gen), ('rev', rev))}
for _ in range(8):
    app.tick()

want = {'two': [[1, 2], 3], 'empty': [[], 3], 'gen': [[1], 2], 'rev': [3, [1, 2]]}
bad = 0
for name in ('two', 'empty', 'gen', 'rev'):
    got = values[name].value
    ok = got == want[name]
    bad += not ok
    print('%-5s value = %-14r demanded %-14r %s' % (name, got, want[name], 'ok' if ok else 'DEFECT'))
if OWN != [1, 2]:
    bad += 1
    print("DEFECT: the first handler's own list object was modified: %r" % (OWN,))
if bad:
    print('DEFECT: a list that is the first result of an event is taken for the list of results')
    sys.exit(1)
print('ok: list results are stored like any other result')
