"""C14 reproducer (plain circuits, no harness): more than one error response for one malformed message.

When HTTP._on_read rejects input it fires httperror -> response -> write + close, and drops the parser.  The close is carried out
a few loop iterations later; bytes that arrive meanwhile (the rest of the same malformed message, in its own TCP segment) start a
fresh parser, are rejected again, and a second (third, ...) 400 / 500 / 505 answer is written behind a response that already said
`Connection: close`.  Delivered in one segment the rest of the message is dropped with the parser and exactly one answer is written.

Run: /venv/bin/python findings/C14-responses-after-close-announced.py     (exit 1 = defect present)
"""
import re
import socket
import sys
sys.path.insert(0, __import__('os').environ.get('VERIF_REPO', '/repo'))

from circuits import Manager
from circuits.web import BaseServer
import circuits.web.servers
circuits.web.servers.stderr = open('/dev/null', 'w')

m = Manager()
srv = BaseServer(('127.0.0.1', 0)).register(m)
m._running = True
for _ in range(6):
    m.tick(0.01)


def answers(pieces):
    c = socket.create_connection(('127.0.0.1', srv.port))
    c.settimeout(0.01)
    for _ in range(4):
        m.tick(0.01)
    got = b''
    for d in pieces + [b''] * 8:
        if d:
            try:
                c.sendall(d)
            except OSError:
                pass
        m.tick(0.01)          # one loop iteration between two segments
        try:
            got += c.recv(65536)
        except OSError:
            pass
    c.close()
    for _ in range(6):
        m.tick(0.01)
    return [x.decode() for x in re.findall(rb'HTTP/\d\.\d \d{3}', got)]


bad = False
for name, pieces in [('request line with two parts', [b'GET /\r\n', b'Host: h\r\n', b'\r\n']),
                     ('Content-Length: abc', [b'POST / HTTP/1.1\r\nHost: h\r\nContent-Length: abc\r\n\r\n', b'hello\r\n']),
                     ('HTTP/2.0', [b'GET / HTTP/2.0\r\nHost: h\r\n\r\n', b'PRI * HTTP/2.0\r\n\r\n'])]:
    whole = answers([b''.join(pieces)])
    cut = answers(pieces)
    print('%-30s one segment: %r   %d segments: %r' % (name, whole, len(pieces), cut))
    bad = bad or len(cut) > 1
print('DEFECT PRESENT' if bad else 'ok: one answer per malformed message')
sys.exit(1 if bad else 0)
