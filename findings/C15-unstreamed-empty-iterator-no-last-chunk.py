"""C15/unanswered/unstreamed-iterator+empty/incomplete-response — standalone reproducer (plain circuits, real loopback TCP, no framework).

The handler assigns an iterator (a generator, or a file-like object that Body wraps into file_generator) to `response.body`
and leaves / switches `response.stream` off, so HTTP._on_response joins the chunks itself.  Response.prepare() cannot know the
length of an iterator and announces `Transfer-Encoding: chunked` for an HTTP/1.1 client.  _on_response then writes the chunk
AND the terminating last-chunk only inside `if body:` - when the iterator turns out to be empty (no chunk, or only '' chunks,
or an empty file-like object) nothing at all follows the header section: the chunked body is never terminated.  A keep-alive
client waits for ever; with `Connection: close` the connection ends inside the chunked body (http.client: IncompleteRead).

Run: /venv/bin/python /verif/findings/C15-unstreamed-empty-iterator-no-last-chunk.py   (exit 1 = defect reproduced, 0 = not reproduced)
"""
import io
import os
import socket
import sys
import time

sys.path.insert(0, os.environ.get('VERIF_REPO', '/repo'))
from circuits.web import Controller, Server  # noqa: E402


class Root(Controller):
    def index(self):
        def chunks():
            yield ''
        self.response.body = chunks()
        return self.response

    def file(self):
        self.response.body = io.BytesIO(b'')       # an empty upload/report/... served from a file object
        self.response.stream = False
        return self.response


server = Server(('127.0.0.1', 0))
Root().register(server)
server.start()
deadline = time.time() + 10
while not server.port and time.time() < deadline:
    time.sleep(0.05)
time.sleep(0.2)
bad = []
for path in ('/', '/file'):
    s = socket.create_connection(('127.0.0.1', server.port))
    s.sendall(b'GET %s HTTP/1.1\r\nHost: x\r\n\r\n' % path.encode())
    s.settimeout(1.0)
    data = b''
    try:
        while True:
            d = s.recv(65536)
            if not d:
                break
            data += d
    except socket.timeout:
        pass
    s.close()
    head, _, rest = data.partition(b'\r\n\r\n')
    chunked = b'transfer-encoding: chunked' in head.lower()
    print('GET %-5s -> %s, chunked: %s, bytes after the header section within 1 s: %r' % (path, head.split(b'\r\n')[0].decode(), chunked, rest))
    if chunked and not rest.endswith(b'0\r\n\r\n'):
        bad.append(path)
server.stop()
print('DEFECT REPRODUCED for %s: chunked body without last-chunk' % bad if bad else 'not reproduced')
sys.exit(1 if bad else 0)
