"""C15/body/stream+empty-first/chunked — standalone reproducer (plain circuits, real loopback TCP, no framework).

The application streams an iterator (`response.body = generator; response.stream = True; return response`, the idiom of
circuits.web.wsgi.Gateway) whose FIRST chunk is the empty string.  HTTP._on_stream skips empty chunks when it pulls the next
one ("Skip over any null byte sequences"), but HTTP._on_response pulls the first chunk itself without that loop and fires
stream(res, ''), which _on_stream writes as a chunk of size 0: `0 CRLF CRLF` - the end-of-body marker of the chunked coding.
The client sees an empty body; the real chunks and a second terminator follow as garbage in front of the next response.

Run: /venv/bin/python /verif/findings/C15-stream-first-chunk-empty.py   (exit 1 = defect reproduced, 0 = not reproduced)
"""
import os
import socket
import sys
import time

sys.path.insert(0, os.environ.get('VERIF_REPO', '/repo'))
import http.client  # noqa: E402
import io  # noqa: E402

from circuits.web import Controller, Server  # noqa: E402


class Root(Controller):
    def index(self):
        def chunks():
            yield ''
            yield 'Hello '
            yield ''
            yield 'World!'
        self.response.body = chunks()
        self.response.stream = True
        return self.response


def start(server):
    server.start()
    deadline = time.time() + 10
    while not server.port and time.time() < deadline:
        time.sleep(0.05)
    time.sleep(0.2)


def exchange(sock, request, wait=1.0):
    """send, then read until the server closes or nothing arrives for `wait` seconds"""
    sock.sendall(request)
    sock.settimeout(wait)
    data, eof = b'', False
    try:
        while True:
            d = sock.recv(65536)
            if not d:
                eof = True
                break
            data += d
    except socket.timeout:
        pass
    return data, eof


server = Server(('127.0.0.1', 0))
Root().register(server)
start(server)
s = socket.create_connection(('127.0.0.1', server.port))
data, eof = exchange(s, b'GET / HTTP/1.1\r\nHost: x\r\n\r\n')
s.close()
server.stop()
head, _, rest = data.partition(b'\r\n\r\n')
print(head.decode())
print('after the header section: %r' % rest)


class FakeSock:
    def makefile(self, *a, **k):
        return io.BytesIO(data)


r = http.client.HTTPResponse(FakeSock(), method='GET')
r.begin()
body = r.read()
print('http.client recovers the body %r (the application produced %r)' % (body, b'Hello World!'))
bad = body != b'Hello World!'
print('DEFECT REPRODUCED' if bad else 'not reproduced')
sys.exit(1 if bad else 0)
