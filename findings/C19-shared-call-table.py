"""C19/mixup/shared-call-table - standalone reproducer (plain circuits, no framework, no sockets).

`Protocol.__events` (in-flight calls by id) is a class attribute: one dict for all Protocol instances of the process, while `__nid` (the
next id) is per instance and starts at 0.  A Node with two peers - or a node server calling two clients - that has one call in flight on
each connection stores both under id 0: the second overwrites the first.  The first result completes the wrong event, the other
generator dies with KeyError; and any peer can complete a call of another connection by sending a value packet with its id.

Run: /venv/bin/python /verif/findings/C19-shared-call-table.py   (exit 1 = defect reproduced, 0 = not reproduced)
"""
import os
import sys

sys.path.insert(0, os.environ.get('VERIF_REPO', '/repo'))
from circuits import Component, Event  # noqa: E402
from circuits.node.protocol import Protocol  # noqa: E402


class App(Component):
    def write(self, data):
        pass


app = App()
peer1 = Protocol(channel='peer1').register(app)      # what node.Client creates for Node.add('peer1', ...)
peer2 = Protocol(channel='peer2').register(app)      # ... and for Node.add('peer2', ...)
e1, e2 = Event.create('first'), Event.create('second')
g1 = peer1.send(e1)
next(g1)                    # call id 0 on connection 1
g2 = peer2.send(e2)
next(g2)                    # call id 0 on connection 2
# only peer2 answers: {"id": 0, "value": "answer of peer2"}
peer2.add_buffer(b'{"id": 0, "errors": false, "value": "answer of peer2", "meta": {}}~~~')
r1 = r2 = None
try:
    r1 = next(g1)
    r1 = r1.value if r1 is not None else None
except Exception as exc:  # noqa: BLE001
    r1 = 'raised %r' % (exc,)
try:
    r2 = next(g2)
    r2 = r2.value if r2 is not None else None
except Exception as exc:  # noqa: BLE001
    r2 = 'raised %r' % (exc,)
print('call to peer1 (never answered) finished with:', r1)
print('call to peer2 (answered)       finished with:', r2)
bad = not (r1 is None and r2 == 'answer of peer2')
print('DEFECT REPRODUCED' if bad else 'not reproduced')
sys.exit(1 if bad else 0)
