"""Standalone reproducer (plain circuits, no framework) for finding
C04/success/fired-although-raised/plain-raise+generator.

One event requesting success (and failure) feedback has two handlers: a plain handler that raises and a generator
handler that finishes normally.  The dispatcher remembers the error only in a local (`err`) which is handed to
_eventDone() at the end of the pass; as a generator is still pending, _eventDone returns early.  When the generator
ends, processTask calls _eventDone(event) without the error, so `<name>_success` is fired although a handler of the
event raised (and after `<name>_failure` / `exception` were fired for the same event).

Run:  PYTHONPATH=/repo /venv/bin/python /verif/findings/C04-success-after-raise.py     exit 1 = defect present
"""
import sys

from circuits import BaseComponent, Event, handler


class foo(Event):
    success = True
    failure = True


class App(BaseComponent):
    log = []

    @handler('foo', priority=2)
    def raiser(self):
        raise ValueError('x')

    @handler('foo', priority=1)
    def gen(self):
        yield 1

    @handler('foo_success', 'foo_failure', 'exception')
    def obs(self, event, *args, **kwargs):
        self.log.append(event.name)


app = App()
value = app.fire(foo())
for _ in range(6):
    app.tick()
print('feedback events:', app.log)
print('value.errors =', value.errors, ' value =', [v if not isinstance(v, tuple) else v[1] for v in value.value])
if 'foo_success' in app.log:
    print('DEFECT: foo_success was fired although a handler of foo raised')
    sys.exit(1)
print('ok: no foo_success')
