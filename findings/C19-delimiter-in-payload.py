"""C19/segmentation/delimiter-in-payload - standalone reproducer (plain circuits, no framework, no sockets).

The packet delimiter ~~~ is not escaped (FIXME in circuits/node/protocol.py): an event whose args / kwargs (or a result whose value)
contain the text ~~~ is cut in two by the receiver, both halves fail to parse and are dropped.  The event never runs, or the
sender's waiting handler never gets its result.  "a~~~b" is a JSON-representable argument, which the statement covers.

Run: /venv/bin/python /verif/findings/C19-delimiter-in-payload.py   (exit 1 = defect reproduced, 0 = not reproduced)
"""
import os
import sys

sys.path.insert(0, os.environ.get('VERIF_REPO', '/repo'))
from circuits import Component, Event  # noqa: E402
from circuits.node.protocol import Protocol  # noqa: E402

ran = []
wire = []


class Receiver(Component):
    def hello(self, x):
        ran.append(x)
        return 'a~~~b' if x == 'plain' else 'R'

    def write(self, data):
        wire.append(data)


class Sender(Component):
    def write(self, data):
        wire.append(data)


def call(arg):
    """send hello(arg) through a sending Protocol, carry the bytes to a receiving Protocol and the answer back"""
    ran.clear()
    sender, receiver = Sender(), Receiver()
    ps, pr = Protocol().register(sender), Protocol().register(receiver)
    ev = Event.create('hello', arg)
    gen = ps.send(ev)
    next(gen)
    for _ in range(5):
        sender.flush()
    out, wire[:] = b''.join(wire), []
    pr.add_buffer(out)
    for _ in range(8):
        receiver.flush()
    back, wire[:] = b''.join(wire), []
    ps.add_buffer(back)
    return list(ran), getattr(ev, 'remote_finish', False), (ev.value.value if getattr(ev, 'value', None) else None)


ok = call('fine')
in_arg = call('a~~~b')
in_result = call('plain')
print('hello("fine")   : ran %r, sender finished %r, value %r' % ok)
print('hello("a~~~b")  : ran %r, sender finished %r, value %r' % in_arg)
print('result "a~~~b"  : ran %r, sender finished %r, value %r' % in_result)
bad = ok == (['fine'], True, 'R') and (in_arg[0] != ['a~~~b'] or in_result[1] is not True)
print('DEFECT REPRODUCED' if bad else 'not reproduced')
sys.exit(1 if bad else 0)
