"""C10 reproducer (plain circuits, no framework): Poll reports readiness of a NEW descriptor as an event for an OLD, closed one.

A descriptor registered with Poll is closed without discard(); before the next poll() its number is handed out again (the kernel always
gives the lowest free number).  Poll's kernel registration is by number and `_map[fileno]` still points to the old object, so the new
socket's readiness is fired as `_read(<closed socket>)` to the channel of the component that owned the old one - "closed descriptors
produce no further events even when their number is reused" is violated.  Select (cleans up bad descriptors) and EPoll (the kernel drops a
closed descriptor) stay silent.

Run: /venv/bin/python findings/C10-poll-closed-fd-number-reused.py      (exit 1 = defect present)
"""
import os
import socket
import sys

sys.path.insert(0, os.environ.get('VERIF_REPO', '/repo'))
from circuits import Component, Manager  # noqa: E402
from circuits.core.pollers import EPoll, Poll, Select  # noqa: E402

bad = 0
for P in (Select, Poll, EPoll):
    m = Manager()
    p = P().register(m)
    owner = Component(channel='owner').register(m)
    m._running = True
    fired = []
    real_fire = p.fire

    def spy(event, *channels, **kw):
        fired.append((event.name, event.args[0], channels))
        return real_fire(event, *channels, **kw)
    p.fire = spy
    for _ in range(4):
        m.tick(0)
    a, b = socket.socketpair()
    a.setblocking(False)
    p.addReader(owner, a)
    m.tick(0)
    number = a.fileno()
    a.close()                                   # closed WITHOUT discard ...
    a2, b2 = socket.socketpair()                # ... and the number is handed out again at once
    assert a2.fileno() == number, (a2.fileno(), number)
    b2.send(b'x')                               # the NEW descriptor (never registered) becomes readable
    del fired[:]
    for _ in range(3):
        m.tick(0)
    wrong = [(n, 'old closed socket' if o is a else o, c) for n, o, c in fired if n in ('_read', '_write')]
    print('%-6s events fired after close + reuse of number %d: %s' % (P.__name__, number, wrong or 'none'))
    bad += bool(wrong)
    for s in (b, a2, b2):
        s.close()
print('DEFECT PRESENT' if bad else 'ok')
sys.exit(1 if bad else 0)
