"""C05 reproducer (plain circuits): events fired by a handler AFTER it called self.flush() are not tracked for `<name>_complete`.

Manager._dispatcher ends with `self._currently_handling = None`; it does not restore the event an outer dispatcher (the one whose handler
called flush()) is handling, although _flush() is written to be re-entrant.  Everything the outer handler fires after the nested flush has no
cause, so `top_complete` is fired before those events and their descendants have been dispatched.

Run: /venv/bin/python findings/C05-nested-flush-loses-tracking.py     (exit 1 = defect present)
"""
import os
import sys
sys.path.insert(0, os.environ.get('VERIF_REPO', '/repo'))

from circuits import Component, Event  # noqa: E402

log = []


class top(Event):
    complete = True


class a(Event):
    pass


class b(Event):
    pass


class c(Event):
    pass


class App(Component):
    def top(self):
        log.append('top')
        self.fire(a())
        self.flush()
        self.fire(b())

    def a(self):
        log.append('a')

    def b(self):
        log.append('b')
        self.fire(c())

    def c(self):
        log.append('c')

    def top_complete(self, *args):
        log.append('top_complete')


app = App()
app.fire(top())
for _ in range(8):
    app.tick(0) if False else app.flush()
print('order:', log)
bad = 'top_complete' in log and log.index('top_complete') < max(log.index(x) for x in ('b', 'c') if x in log)
print('DEFECT PRESENT: top_complete fired before b / c were dispatched' if bad else 'ok: top_complete comes last')
sys.exit(1 if bad else 0)
