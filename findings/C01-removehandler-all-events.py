"""C01 finding C01/live-set/removed-handler-invoked/all-events-handler - standalone reproducer (plain circuits).

Manager.removeHandler(method) iterates over `method.names`.  For a handler declared for all events (no names:
a catch-all kept in _handlers['*'], or a global - channel '*' - kept in _globals) that tuple is empty, so nothing is
removed and the "removed" handler keeps receiving every event.

usage: python findings/C01-removehandler-all-events.py [repo]     exit 1 = defect present, 0 = absent
"""
import sys

sys.path.insert(0, sys.argv[1] if len(sys.argv) > 1 else '/repo')
from circuits import BaseComponent, Event, handler  # noqa: E402

log = []


class foo(Event):
    pass


class A(BaseComponent):
    @handler('foo')
    def named(self, event):
        log.append('named')

    @handler()                          # all events, on the component's channel
    def catch_all(self, event, *args, **kwargs):
        if event.name == 'foo':
            log.append('catch_all')

    @handler(channel='*')               # all events, all channels ("global")
    def glob(self, event, *args, **kwargs):
        if event.name == 'foo':
            log.append('glob')


a = A()
a.fire(foo())
a.flush()
print('before removal:', sorted(log))
log.clear()

a.removeHandler(a.named)
a.removeHandler(a.catch_all)
a.removeHandler(a.glob)

# dynamic variant: addHandler + removeHandler of an all-events handler


@handler()
def dyn(self, event, *args, **kwargs):
    if event.name == 'foo':
        log.append('dyn')


m = a.addHandler(dyn)
a.removeHandler(m)

a.fire(foo())
a.flush()
print('after removeHandler of all four:', sorted(log), '(expected: [])')
if log:
    print('DEFECT: removed handlers still invoked:', sorted(log))
    sys.exit(1)
sys.exit(0)
