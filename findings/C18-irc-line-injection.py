"""Standalone reproducer (plain circuits, no framework) for the findings
C18/irc/one-line/CR-in-argument, C18/irc/one-line/CR-or-LF-in-command, C18/irc/one-line/CR-or-LF-in-prefix.

The statement: every IRC command message serialises to exactly one CRLF-terminated line - no argument, prefix or command
value can inject a further line.  Message._check_args() rejects LF in an argument but not a bare CR (IRC servers accept CR
alone as a message terminator), and neither `command` nor `prefix` is validated at all.  WHOIS(nickmasks, server) passes its
`server` argument as the COMMAND of the message (Message(server, nickmasks)), so the command hole is reachable through a
command constructor.  The messages below go through the real IRC component's `request` handler; `write` events are recorded.

Run:  PYTHONPATH=/repo /venv/bin/python /verif/findings/C18-irc-line-injection.py     exit 1 = defect present
"""
import sys

from circuits import Component, handler
from circuits.protocols.irc import IRC, PRIVMSG, WHOIS, Message
from circuits.protocols.irc.events import request


class App(Component):
    wire = []

    def init(self):
        IRC().register(self)

    @handler('write', priority=-1)
    def _on_write(self, data):
        self.wire.append(data)


def lines_a_server_reads(data):
    assert data.endswith(b'\r\n')
    return data[:-2].replace(b'\r', b'\n').split(b'\n')


app = App()
while len(app):
    app.flush()
cases = [
    ('argument', "PRIVMSG('#chan', 'hi\\rQUIT :bye')", lambda: PRIVMSG('#chan', 'hi\rQUIT :bye')),
    ('command', "WHOIS('nick', 'x\\r\\nQUIT')", lambda: WHOIS('nick', 'x\r\nQUIT')),
    ('prefix', "request(Message('PRIVMSG', '#chan', 'hi', prefix='n\\nQUIT'))", lambda: request(Message('PRIVMSG', '#chan', 'hi', prefix='n\nQUIT'))),
]
bad = 0
for what, shown, make in cases:
    del app.wire[:]
    try:
        app.fire(make())
    except Exception as e:
        print('%-9s %s refused at construction: %r' % (what, shown, e))
        continue
    while len(app):
        app.flush()
    for data in app.wire:
        seen = lines_a_server_reads(data)
        print('%-9s %s -> wire %r = %d line(s) %r' % (what, shown, data, len(seen), seen))
        if len(seen) != 1:
            bad += 1
    if not app.wire:
        print('%-9s %s refused: nothing written' % (what, shown))
if bad:
    print('DEFECT: %d message(s) reached the wire as more than one line' % bad)
    sys.exit(1)
print('ok: every message is one line or was refused')
