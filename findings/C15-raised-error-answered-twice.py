"""C15/leftover/error-raised — standalone reproducer (plain circuits, real loopback TCP, no framework).

A request handler raises (an HTTPException such as NotFound/Forbidden, a Redirect, or any other exception).  Two components of
HTTP react to the same failure: _on_request_success (the value of the request is the error triple) fires httperror, and
_on_exception (the `exception` event of the failed handler) fires httperror again.  Both are rendered by _on_httperror ->
response -> _on_response, so TWO complete error responses are written to the connection.  The client reads the first one
(Content-Length framed); the second one is left over on the wire.  (Lenient clients do not notice because the connection is
closed afterwards.)  A side effect: the page of both copies is the one built last, i.e. without the exception's description.

Run: /venv/bin/python /verif/findings/C15-raised-error-answered-twice.py   (exit 1 = defect reproduced, 0 = not reproduced)
"""
import os
import socket
import sys
import time

sys.path.insert(0, os.environ.get('VERIF_REPO', '/repo'))
from circuits.web import Controller, Server  # noqa: E402
from circuits.web.exceptions import Forbidden  # noqa: E402


class Root(Controller):
    def index(self):
        raise Forbidden(description='you shall not pass')

    def boom(self):
        raise RuntimeError('boom')


def start(server):
    server.start()
    deadline = time.time() + 10
    while not server.port and time.time() < deadline:
        time.sleep(0.05)
    time.sleep(0.2)


def exchange(sock, request, wait=1.0):
    """send, then read until the server closes or nothing arrives for `wait` seconds"""
    sock.sendall(request)
    sock.settimeout(wait)
    data, eof = b'', False
    try:
        while True:
            d = sock.recv(65536)
            if not d:
                eof = True
                break
            data += d
    except socket.timeout:
        pass
    return data, eof


server = Server(('127.0.0.1', 0))
Root().register(server)
start(server)
bad = []
for path in ('/', '/boom'):
    s = socket.create_connection(('127.0.0.1', server.port))
    data, eof = exchange(s, b'GET %s HTTP/1.1\r\nHost: x\r\n\r\n' % path.encode())
    s.close()
    n = data.count(b'HTTP/1.1 ')
    head, _, rest = data.partition(b'\r\n\r\n')
    clen = int([h for h in head.split(b'\r\n') if h.lower().startswith(b'content-length')][0].split(b':')[1])
    print('GET %-5s -> %s, Content-Length %d, %d bytes follow the header section, status lines on the wire: %d' % (
        path, head.split(b'\r\n')[0].decode(), clen, len(rest), n))
    if len(rest) != clen:
        print('   left over after the announced body: %r ...' % rest[clen:clen + 60])
        bad.append(path)
server.stop()
print('DEFECT REPRODUCED for %s' % bad if bad else 'not reproduced')
sys.exit(1 if bad else 0)
