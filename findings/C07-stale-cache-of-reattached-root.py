"""C07 finding: a component whose unregistration has completed still receives events from its former parent.

Standalone (plain circuits, no framework):  PYTHONPATH=/repo python C07-stale-cache-of-reattached-root.py
exit 1 = defect present, exit 0 = fixed.

b is a root with child x and has dispatched a `probe` (so b._cache holds x's handler).  b is then registered under a;
while b is a child, x is unregistered (completes: x.parent is x, x not in b.components).  unregisterChild() marks only the
CURRENT root's cache (a) dirty; b's own cache stays.  When b is unregistered and is a root again it dispatches `probe` from
its old cache and x's handler is invoked although x left b's tree long ago.
"""
import sys

from circuits import BaseComponent, Event, handler


class probe(Event):
    pass


log = []


class Node(BaseComponent):
    def __init__(self, name):
        self.n = name
        super().__init__()

    @handler('probe', channel='*')
    def _on_probe(self, tag):
        log.append((self.n, tag))


a, b, x = Node('a'), Node('b'), Node('x')
x.register(b)
b.fire(probe('one'))
b.tick()                      # b is a root: cache for ('probe', ('*',)) now holds b's and x's handlers
b.register(a)
x.unregister()
for _ in range(3):
    a.tick()                  # prepare_unregister -> prepare_unregister_complete -> unregistered
assert x.parent is x and x not in b.components and x.root is x, 'x should be fully detached'
b.unregister()
for _ in range(3):
    a.tick()
assert b.parent is b and b.root is b, 'b should be a root again'
del log[:]
b.fire(probe('two'))
b.tick()
print('handlers invoked for probe two, dispatched by root b:', log)
if ('x', 'two') in log:
    print('DEFECT: x was unregistered from b (completed) but still receives events dispatched by b')
    sys.exit(1)
print('ok')
