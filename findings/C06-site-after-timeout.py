"""C06 finding C06/resumed-once/site-directly-after-timeout  (standalone, plain circuits, no framework).

A handler catches the TimeoutError of a timed call/wait and goes straight into another call()/wait() (a retry, or a fallback
request).  processTask's ExceptionWrapper branch wraps whatever the handler yields after throw() into a one-shot value generator
and registers (event, value_generator, parent).  For a call/wait generator that means: the value generator becomes the new call's
"parent", the real handler is re-registered as an ordinary task two iterations later and is resumed by next() - i.e. with None -
while the called event is still running; the real result is later sent into the exhausted value generator and lost.
(If the second call/wait has a timeout, its TimeoutError is thrown into the value generator and recorded as foo's error.)

Expected by the statement: the second call is resumed exactly once, after slow() has finished, with slow's Value.
Exit code 1 = defect reproduced.
"""
import os
import sys

sys.path.insert(0, os.environ.get('VERIF_REPO', '/repo'))
from circuits import Component, Event  # noqa: E402
from circuits.core.manager import TimeoutError  # noqa: E402


class foo(Event):
    success = True


class hello(Event):
    pass


class slow(Event):
    pass


log = []


class App(Component):
    def foo(self):
        try:
            yield self.call(hello(), timeout=0)
        except TimeoutError:
            log.append('foo: TimeoutError from the first call')
        x = yield self.call(slow())
        log.append('foo: second call resumed with %r (slow finished: %s)' % (x if x is None else x.value, 'slow: done' in log))
        yield 'finished'

    def hello(self):
        yield None

    def slow(self):
        for _ in range(5):
            yield None
        log.append('slow: done')
        yield 'slow result'


app = App()
app._running = True          # what run() does; lets tick() fire generate_events
v = app.fire(foo())
for _ in range(60):
    app.tick(0)
print('\n'.join(log))
resumes = [line for line in log if line.startswith('foo: second call resumed')]
bad = len(resumes) != 1 or "'slow result'" not in resumes[0]
print('DEFECT REPRODUCED' if bad else 'not reproduced')
sys.exit(1 if bad else 0)
