"""C14 reproducer (plain circuits, no harness): a request with a negative Content-Length is dispatched and answered 200.

HTTP._on_read takes `int(req.headers.get('Content-Length', '0'))`: a non-numeric value raises (the connection gets an error answer),
but `-5` is an int; the parser's remaining-length counter starts below zero, so the message counts as complete at once, a `request`
event is fired and the handler's 200 goes out.  The statement of C14: "4xx/5xx for malformed or unsupported input ... never dispatches
a request event for a message it has rejected"; its quantifier names "non-numeric / negative / conflicting Content-Length".

Run: /venv/bin/python findings/C14-negative-content-length-dispatched.py     (exit 1 = defect present)
"""
import socket
import sys
sys.path.insert(0, __import__('os').environ.get('VERIF_REPO', '/repo'))

from circuits import Component, Manager
from circuits.web import BaseServer
import circuits.web.servers
circuits.web.servers.stderr = open('/dev/null', 'w')

seen = []


class Probe(Component):
    channel = 'web'

    def request(self, req, res):
        seen.append((req.method, req.path, req.headers.get('Content-Length')))
        return 'ok'


m = Manager()
srv = BaseServer(('127.0.0.1', 0)).register(m)
Probe().register(m)
m._running = True
for _ in range(6):
    m.tick(0.01)
bad = 0
for value in (b'-5', b'-1', b'-99999999999999999999'):
    del seen[:]
    c = socket.create_connection(('127.0.0.1', srv.port))
    c.settimeout(0.01)
    for _ in range(4):
        m.tick(0.01)
    c.sendall(b'POST / HTTP/1.1\r\nHost: x\r\nContent-Length: ' + value + b'\r\n\r\n')
    got = b''
    for _ in range(25):
        m.tick(0.01)
        try:
            got += c.recv(65536)
        except OSError:
            pass
    c.close()
    for _ in range(4):
        m.tick(0.01)
    status = got.split(b'\r\n', 1)[0].decode('latin1')
    print('Content-Length: %-22s -> %d request event(s) %r, answer: %s' % (value.decode(), len(seen), seen, status or 'none'))
    bad += bool(seen) or not (status[9:10] in ('4', '5') or not status)
print('DEFECT PRESENT: a message with a negative Content-Length is dispatched to the application / not answered 4xx-5xx' if bad
      else 'ok: a negative Content-Length is rejected and never dispatched')
sys.exit(1 if bad else 0)
