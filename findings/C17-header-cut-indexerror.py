"""Standalone reproducer (plain circuits, no framework, no sockets) for the findings
C17/decode/cut=inside-2-byte-header and C17/decode/cut=before-or-inside-extended-length.

WebSocketCodec._parse_messages indexes data[1] and the extended-length bytes before checking that they have arrived.  When a
read boundary falls after the first header byte, or between the 2-byte header and the end of the 16/64-bit extended length,
the `read` handler raises IndexError: the bytes of that read are lost (they were never put into _buffer), the raw `read` event
is not stopped, and the stream is out of step for good.  Behind a real server the HTTP component then answers the un-stopped
raw event with a "500 Internal Server Error" written into the WebSocket stream; in WebSocketClient the un-stopped event is
re-fired by WebSocketClient._on_read on every loop iteration, forever.

The same unmasked text message (RFC 6455 example framing) is delivered whole and cut at every offset of its header.

Run:  PYTHONPATH=/repo /venv/bin/python /verif/findings/C17-header-cut-indexerror.py     exit 1 = defect present
"""
import struct
import sys

from circuits import Component, handler
from circuits.net.events import read
from circuits.protocols.websocket import WebSocketCodec


class Transport(Component):
    channel = 'transport'


class App(Component):
    channel = 'ws'
    got = []
    errors = []

    def read(self, data):
        self.got.append(data)

    @handler('exception', channel='*')
    def _on_exception(self, etype, evalue, tb, handler=None, fevent=None):
        self.errors.append('%s in %s' % (etype.__name__, handler.__name__))


def deliver(segments):
    t = Transport()
    app = App().register(t)
    app.got, app.errors = [], []
    WebSocketCodec(channel='ws').register(t)
    for _ in range(4):
        t.tick()
    for seg in segments:
        t.fire(read(seg), 'transport')
        for _ in range(4):
            t.tick()
    return app.got, app.errors


bad = 0
for n in (5, 300, 70000):
    payload = ('x' * n)
    head = b'\x81' + (bytes([n]) if n <= 125 else b'\x7e' + struct.pack('!H', n) if n < 65536 else b'\x7f' + struct.pack('!Q', n))
    frame = head + payload.encode()
    assert deliver([frame]) == ([payload], []), 'whole delivery must work'
    for cut in range(1, len(head) + 1):
        got, errors = deliver([frame[:cut], frame[cut:]])
        ok = got == [payload] and not errors
        print('payload %5d bytes, header %2d bytes, read boundary after byte %2d: %s %s' % (
            n, len(head), cut, 'ok' if ok else 'message NOT delivered (%d messages)' % len(got), errors))
        bad += not ok
if bad:
    print('DEFECT: %d header cuts lose the message' % bad)
    sys.exit(1)
print('ok')
