"""C01 finding C01/live-set/stale/detached-root - standalone reproducer (plain circuits, no framework).

A component that has dispatched events as a root keeps its handler cache (`_cache`, with `_cache_needs_refresh`
False) when it is registered as somebody's child.  While it is a child every structural change marks the *root's*
cache dirty, never its own.  When it is unregistered and runs as its own root again it dispatches from the old cache:
handlers added / removed and components registered / unregistered in the meantime are not reflected.

usage: python findings/C01-stale-cache-detached-root.py [repo]     exit 1 = defect present, 0 = absent
"""
import sys

sys.path.insert(0, sys.argv[1] if len(sys.argv) > 1 else '/repo')
from circuits import BaseComponent, Event, handler  # noqa: E402

log = []


class foo(Event):
    pass


class X(BaseComponent):
    @handler('foo')
    def on_foo(self, event):
        log.append('x.on_foo')


class G(BaseComponent):
    def __init__(self, label):
        super().__init__()
        self.label = label

    @handler('foo')
    def on_foo(self, event):
        log.append(self.label + '.on_foo')


class R(BaseComponent):
    pass


def settle(root):
    for _ in range(10):
        root.flush()


x, r, g, old = X(), R(), G('g'), G('old')
bad = 0

old.register(x)
settle(x)
x.fire(foo(), '*')
settle(x)                       # x is a root: cache filled for ('foo', ('*',)) with x.on_foo and old.on_foo
print('1. x as root with child "old":', sorted(log))
log.clear()

x.register(r)                   # x becomes a child of r
settle(r)
g.register(x)                   # a new grandchild below x
old.unregister()                # and the old one leaves
settle(r)
r.fire(foo(), '*')
settle(r)
print('2. dispatched by r           :', sorted(log), '(expected and correct: g and x)')
log.clear()

x.unregister()                  # x is detached and is its own root again
settle(r)
assert x.parent is x and x.root is x and g.parent is x and old.parent is old
x.fire(foo(), '*')
settle(x)
print('3. x detached, own root again:', sorted(log), '(expected: g.on_foo and x.on_foo, each once; "old" is no longer in the tree)')
if sorted(log) != ['g.on_foo', 'x.on_foo']:
    bad = 1
    print('DEFECT: stale handler set used by the detached root (x._cache_needs_refresh=%r, cached keys=%r)' % (
        x._cache_needs_refresh, sorted(k[0] for k in x._cache)))
sys.exit(bad)
