"""C13 reproducer (plain circuits, no harness): 'Transfer-Encoding: Chunked' (transfer-coding names are case-insensitive).

The parser lower-cases the value (`te == 'chunked'`) and decodes the chunks, but HTTP._on_read decides whether to wait for the
end of the body with `req.headers.get('Transfer-Encoding') == 'chunked'` (case-sensitive).  With 'Chunked' it does not wait:
the request event fires as soon as the header block is complete, with whatever part of the body happened to be in that read.

Run: /venv/bin/python findings/C13-te-case.py     (exit 1 = defect present)
"""
import socket
import sys
sys.path.insert(0, __import__('os').environ.get('VERIF_REPO', '/repo'))

from circuits import Component, Manager
from circuits.web import BaseServer
import circuits.web.servers
circuits.web.servers.stderr = open('/dev/null', 'w')

REQ = b'POST /p HTTP/1.1\r\nHost: h\r\nTransfer-Encoding: Chunked\r\n\r\n5\r\nhello\r\n6\r\n world\r\n0\r\n\r\n'


def serve(pieces):
    seen = []

    class Probe(Component):
        channel = 'web'

        def request(self, req, res):
            seen.append((req.method, req.path, req.body.read()))
            return 'ok'

    m = Manager()
    srv = BaseServer(('127.0.0.1', 0)).register(m)
    Probe().register(m)
    m._running = True
    for _ in range(5):
        m.tick(0.01)
    c = socket.create_connection(('127.0.0.1', srv.port))
    c.settimeout(0.01)
    for d in list(pieces) + [b''] * 3:
        if d:
            c.sendall(d)
        for _ in range(4):
            m.tick(0.01)
    c.close()
    srv.server._sock.close()
    return seen


k = REQ.index(b'\r\n\r\n') + 4
out = {'whole': serve([REQ]), 'cut behind the header block': serve([REQ[:k], REQ[k:]]), 'cut inside the first chunk': serve([REQ[:k + 5], REQ[k + 5:]])}
for name, v in out.items():
    print('%-30s %r' % (name, v))
bad = len({repr(v) for v in out.values()}) != 1
print('DEFECT PRESENT' if bad else 'ok: same result for every segmentation')
sys.exit(1 if bad else 0)
