"""C06 finding C06/liveness/never-resumed/callee-generator-raised  (standalone, plain circuits, no framework).

A handler does `x = yield self.call(bar())`; bar's handler is a generator that raises (here after its first yield; raising
before the first yield behaves the same because a generator's body only starts in processTask).  processTask's
`except BaseException` branch records the error but neither decrements bar.waitingHandlers nor calls _eventDone(bar), so
`bar_done` is never fired: the caller is never resumed, foo never completes and the temporary `bar_done` handler stays installed.

Expected by the statement: foo's handler is resumed exactly once with bar's Value (errors=True).
Exit code 1 = defect reproduced.
"""
import os
import sys

sys.path.insert(0, os.environ.get('VERIF_REPO', '/repo'))
from circuits import Component, Event  # noqa: E402


class foo(Event):
    success = True


class bar(Event):
    pass


log = []


class App(Component):
    def foo(self):
        log.append('foo: calling bar')
        x = yield self.call(bar())
        log.append('foo: resumed with %r errors=%r' % (x.value, x.errors))

    def bar(self):
        log.append('bar: step 1')
        yield None
        log.append('bar: step 2, raising')
        raise ValueError('boom')

    def exception(self, *args, **kwargs):
        log.append('exception event: %s' % args[0].__name__)

    def foo_success(self, *args):
        log.append('foo_success')


app = App()
before = {k: len(v) for k, v in app._handlers.items()}
app.fire(foo())
for _ in range(200):
    app.tick()
after = {k: len(v) for k, v in app._handlers.items()}
print('\n'.join(log))
resumed = sum(1 for line in log if line.startswith('foo: resumed'))
left = {k: v for k, v in after.items() if before.get(k) != v}
print('caller resumed %d time(s) in 200 iterations; foo_success seen: %s; handlers left behind: %r; tasks: %d'
      % (resumed, 'foo_success' in log, left, len(app._tasks)))
bad = resumed != 1 or bool(left)
print('DEFECT REPRODUCED' if bad else 'not reproduced')
sys.exit(1 if bad else 0)
