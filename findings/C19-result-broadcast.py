"""C19/mixup/result-broadcast-to-all-connections - standalone reproducer (plain circuits, no framework, no sockets).

node.Server registers one Protocol per connection, all on the same channel.  Protocol.result_handler listens on channel `node_result`
for every `<name>_success` and answers without checking that the event came in through *its* connection (event.node_sock is set but never
compared).  So every result is written to every connection of the process.  A client that happens to have a call with the same id in
flight (ids start at 0 on every connection) takes the foreign packet for its own result - or gets [result, result] when the real one
follows.  Same on the client side of a Node with two peers.

Run: /venv/bin/python /verif/findings/C19-result-broadcast.py   (exit 1 = defect reproduced, 0 = not reproduced)
"""
import os
import sys

sys.path.insert(0, os.environ.get('VERIF_REPO', '/repo'))
from circuits import Component, Event  # noqa: E402
from circuits.node.protocol import Protocol  # noqa: E402
from circuits.node.utils import dump_event  # noqa: E402

written = []


class ServerApp(Component):
    channel = 'node'

    def hello(self):
        return 'for connection 1 only'

    def write(self, sock, data):       # what TCPServer would put on the wire of `sock`
        written.append((sock, data))


app = ServerApp()
# what node.Server.__connect_peer does for two accepted connections
p1 = Protocol(sock='conn1', server=True, channel='node').register(app)
p2 = Protocol(sock='conn2', server=True, channel='node').register(app)
e = Event.create('hello')
e.channels = ('node',)
p1.add_buffer(dump_event(e, 0).encode() + b'~~~')       # a call arrives on connection 1
for _ in range(10):
    app.flush()
for sock, data in written:
    print('written to %s: %r' % (sock, data))
bad = [s for s, _ in written] != ['conn1']
print('DEFECT REPRODUCED' if bad else 'not reproduced')
sys.exit(1 if bad else 0)
