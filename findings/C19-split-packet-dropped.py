"""C19/segmentation/split-packet-dropped - standalone reproducer (plain circuits, no framework, no sockets).

A node packet (JSON + delimiter ~~~) that reaches Protocol.add_buffer in more than one piece - the read boundary of the socket falls
inside it, or it is larger than the 4096 byte read buffer - is silently dropped: add_buffer splits on the delimiter, treats the
incomplete tail as a packet, and __process_packet_call / __process_packet_value swallow the ValueError of json.loads, so the
`except ValueError: self.__buffer = packet` in add_buffer (which was meant to keep the tail) is never reached.
Expected by the statement: the event runs exactly once "however the connection segments the packets".

Run: /venv/bin/python /verif/findings/C19-split-packet-dropped.py   (exit 1 = defect reproduced, 0 = not reproduced)
"""
import os
import sys

sys.path.insert(0, os.environ.get('VERIF_REPO', '/repo'))
from circuits import Component, Event  # noqa: E402
from circuits.node.protocol import Protocol  # noqa: E402
from circuits.node.utils import dump_event  # noqa: E402

ran = []


class App(Component):
    def hello(self, x):
        ran.append(len(x))
        return 'R'

    def write(self, data):     # the result packet the Protocol wants to send back
        pass


def feed(pieces):
    ran.clear()
    app = App()
    proto = Protocol().register(app)
    for piece in pieces:
        proto.add_buffer(piece)
        for _ in range(5):
            app.flush()
    return list(ran)


packet = dump_event(Event.create('hello', 'abc'), 0).encode() + b'~~~'
whole = feed([packet])
cut_mid = feed([packet[:40], packet[40:]])
cut_in_delimiter = feed([packet[:-1], packet[-1:]])
big = dump_event(Event.create('hello', 'x' * 6000), 1).encode() + b'~~~'
as_tcp_reads = feed([big[i:i + 4096] for i in range(0, len(big), 4096)])      # what TCPServer/TCPClient deliver (bufsize 4096)
print('whole packet in one read      : handler ran', whole)
print('cut at byte 40                : handler ran', cut_mid)
print('cut inside the delimiter      : handler ran', cut_in_delimiter)
print('6 KB packet in 4096-byte reads: handler ran', as_tcp_reads)
bad = whole == [3] and (cut_mid != [3] or cut_in_delimiter != [3] or as_tcp_reads != [6000])
print('DEFECT REPRODUCED' if bad else 'not reproduced')
sys.exit(1 if bad else 0)
