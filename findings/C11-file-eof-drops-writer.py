"""C11/file/eof/writer-unregistered - standalone reproducer (plain circuits, a regular file, no verification framework).

circuits.io.File opened in a `+` (or `a`) mode is readable AND writable.  When its read side reaches end-of-file, File._read calls
`self._poller.discard(self._fd)`; discard removes the WRITER registration as well as the reader.  Payloads still in File._buffer are
then never handed to the OS (unless a later write event happens to re-register the writer), and a close requested while they were
buffered never takes effect: no `closed` event, the descriptor stays open.

Scenario: an existing file, File(path, 'r+'), default Select poller; in the `opened` handler fire write(AAAA), write(BBBB),
write(CCCC), close().  Expected: the three payloads are written in order (where exactly depends on the file position, not judged
here), then the file is closed.

Run: /venv/bin/python C11-file-eof-drops-writer.py   (exit 1 = defect present, 0 = fixed)
"""
import os
import sys
import tempfile

sys.path.insert(0, os.environ.get('VERIF_REPO', '/repo'))
import circuits.io.file as F                       # noqa: E402
from circuits import Component, Manager            # noqa: E402
from circuits.core.pollers import Poll, Select     # noqa: E402
from circuits.io import File                       # noqa: E402
from circuits.io.events import close, write        # noqa: E402

accepted = []
_os_write = os.write


def fd_write(fd, data):                            # only records what File hands to the OS
    n = _os_write(fd, data)
    accepted.append(bytes(data[:n]))
    return n


F.fd_write = fd_write                              # the module-level name File._write calls
events = []


class Obs(Component):
    channel = 'file'

    def opened(self, *a):
        events.append('opened')
        self.fire(write(b'AAAA'))
        self.fire(write(b'BBBB'))
        self.fire(write(b'CCCC'))
        self.fire(close())

    def read(self, data):
        events.append('read(%d)' % len(data))

    def eof(self):
        events.append('eof')

    def error(self, *a):
        events.append('error%r' % (a,))

    def closed(self):
        events.append('closed')


bad = 0
for size in (100, 5000):
    for mode in ('r+', 'a+'):
        for poller in (Select, Poll):
            del events[:], accepted[:]
            fd, path = tempfile.mkstemp(prefix='c11-eof-', dir='/var/tmp')
            os.write(fd, b'.' * size)
            os.close(fd)
            try:
                m = Manager()
                poller().register(m)
                f = File(path, mode).register(m)
                Obs().register(m)
                m._running = True
                for _ in range(40):
                    m.tick(0.01)
                ok = b''.join(accepted) == b'AAAABBBBCCCC' and events[-1:] == ['closed'] and f.closed
                bad += not ok
                print('%4d bytes %-2s %-6s handed to the OS: %r  events: %s  file closed: %s -> %s' % (
                    size, mode, poller.__name__, b''.join(accepted), events, f.closed, 'ok' if ok else 'BUFFERED WRITES / CLOSE LOST'))
                if not f.closed:
                    f._fd.close()
            finally:
                os.unlink(path)
sys.exit(1 if bad else 0)
