"""C10 reproducer (plain circuits, no framework): a descriptor that was added twice is still reported after discard / remove.

BasePoller.addReader / addWriter append to the interest LIST without looking, discard / removeReader / removeWriter take ONE occurrence out
(list.remove).  After `addReader(X, s); addReader(X, s); discard(s)` the object is therefore still in `_read`: isReading(s) stays True,
Poll and EPoll recompute a non-empty mask and register the number in the kernel again, and every poller goes on firing `_read(s)` each
round while the peer's data is unread.  discard() did delete the `_targets` entry, so those events are addressed to the poller's parent
(the Manager object) instead of X's channel.  "Discarded or closed descriptors produce no further events" and "emits a read (write)
readiness event for a descriptor iff it is currently registered" are both violated, for every poller, and the same holds for the writer
role and for removeReader / removeWriter after a duplicate add (there the channel is still X's, the event is simply unwanted).

Every caller inside circuits guards addWriter with `if not poller.isWriting(fd)`: the lists are meant to be sets.

Run: /venv/bin/python findings/C10-duplicate-add-survives-discard.py      (exit 1 = defect present)
"""
import os
import socket
import sys

sys.path.insert(0, os.environ.get('VERIF_REPO', '/repo'))
from circuits import Component, Manager  # noqa: E402
from circuits.core.pollers import EPoll, Poll, Select  # noqa: E402

HISTORIES = [
    ('addReader x2, discard', 'addReader', 'same', 'discard', '_read'),
    ('addWriter x2, discard', 'addWriter', 'same', 'discard', '_write'),
    ('addReader x2, removeReader', 'addReader', 'same', 'removeReader', '_read'),
    ('addWriter x2, removeWriter', 'addWriter', 'same', 'removeWriter', '_write'),
    ('addReader by X and by Y, discard', 'addReader', 'other', 'discard', '_read'),
]

bad = 0
for title, add, second, remove, evname in HISTORIES:
    for P in (Select, Poll, EPoll):
        m = Manager()
        p = P().register(m)
        x = Component(channel='x').register(m)
        y = Component(channel='y').register(m)
        m._running = True
        fired = []
        real_fire = p.fire

        def spy(event, *channels, **kw):
            fired.append((event.name, event.args[0], channels))
            return real_fire(event, *channels, **kw)
        p.fire = spy
        for _ in range(4):
            m.tick(0)
        a, b = socket.socketpair()
        a.setblocking(False)
        getattr(p, add)(x, a)
        getattr(p, add)(x if second == 'same' else y, a)        # the duplicate add
        m.tick(0)
        getattr(p, remove)(a)                                   # ONE remove / discard: the descriptor is not registered for that role any more
        b.send(b'x')                                            # readable (it is writable anyway)
        still = p.isReading(a) if evname == '_read' else p.isWriting(a)
        m.tick(0)                                               # (an event queued before the remove would be dispatched here - none is)
        del fired[:]
        for _ in range(3):
            m.tick(0)
        wrong = [(n, tuple('<the Manager>' if c is m else c for c in ch)) for n, o, ch in fired if o is a and n in ('_read', '_write')]
        print('%-34s %-6s is%s() after it: %-5s  events in 3 rounds: %s' % (
            title, P.__name__, 'Reading' if evname == '_read' else 'Writing', still, wrong or 'none'))
        bad += bool(wrong) or bool(still)
        p.discard(a)
        p.discard(a)
        a.close()
        b.close()
print('DEFECT PRESENT' if bad else 'ok')
sys.exit(1 if bad else 0)
