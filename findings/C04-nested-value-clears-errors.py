"""Standalone reproducer (plain circuits, no framework) for finding C04/errors-flag/not-set/nested-value-result.

"... and its errors flag is set iff some handler raised."  Event `b` has two handlers: the first raises ValueError, the
second hands on the Value of a nested fire (`return self.fire(inner())`, the idiom circuits.web and circuits.node use).
`Value.setValue` -> `update()` COPIES `errors` (and `result`) from the nested Value onto the outer one, at the moment the
nested Value is stored and again whenever the nested Value changes; the nested event has not failed, so the flag the
dispatcher had set for the raising handler is cleared:

    fire(b()).errors == False      although a handler of b raised (the error triple is in the value, `exception` was fired)

Run:  VERIF_REPO=/repo /venv/bin/python /verif/findings/C04-nested-value-clears-errors.py     exit 1 = defect present
"""
import os
import sys

sys.path.insert(0, os.environ.get('VERIF_REPO', '/repo'))

from circuits import BaseComponent, Event, handler  # noqa: E402


class b(Event):
    pass


class inner(Event):
    pass


class App(BaseComponent):
    seen = []

    @handler('b', priority=2)
    def b_raises(self):
        raise ValueError('x')

    @handler('b', priority=1)
    def b_nested(self):
        return self.fire(inner())

    @handler('inner')
    def on_inner(self):
        return 'ok'

    @handler('exception')
    def on_exception(self, *args, **kwargs):
        self.seen.append(kwargs['fevent'].name)


app = App()
value = app.fire(b())
flags = []
for _ in range(6):
    app.tick()
    flags.append(value.errors)
print('exception events for:', app.seen)
print('errors flag after each tick:', flags)
print('value:', [v[1] if isinstance(v, tuple) else v for v in value.getValue(False)])
if not value.errors:
    print('DEFECT: a handler of b raised but fire(b()).errors is False')
    sys.exit(1)
print('ok: errors flag is set')
