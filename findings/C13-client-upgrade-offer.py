#!/usr/bin/env python
"""Reproducers for SEEDED/OBSERVATIONS.md (unchanged tree).  cd /tmp/seed5/C13 && /venv/bin/python SEEDED/obs_repro.py"""

import sys


sys.path.insert(0, '.')

from circuits import Component, Manager, handler  # noqa: E402
from circuits.net.events import read  # noqa: E402
from circuits.protocols.http import HTTP as ClientHTTP  # noqa: E402


class ClientApp(Component):
    channel = 'client'

    def init(self):
        self.seen = []
        self.errors = []

    @handler('response')
    def _on_response(self, res):
        self.seen.append((res.status, sorted(res.headers.items()), res.body.read()))

    @handler('exception', channel='*')
    def _on_exception(self, etype, evalue, tb, handler=None, fevent=None):
        self.errors.append(repr(evalue))


def run(m):
    m.tick(0)
    while len(m):
        m.tick(0)


def receive(*pieces):
    m = Manager()
    ClientHTTP(channel='client').register(m)
    app = ClientApp().register(m)
    run(m)
    for piece in pieces:
        m.fire(read(piece), 'client')
        run(m)
    return app.seen, app.errors


NEXT = b'HTTP/1.1 200 OK\r\nContent-Length: 2\r\n\r\nhi'

print('1. "Connection: Upgrade" on an ordinary response with a body')
head = b'HTTP/1.1 200 OK\r\nConnection: Upgrade\r\nUpgrade: h2c\r\nContent-Length: 5\r\n\r\n'
print('   one piece      :', receive(head + b'hello', NEXT))
print('   cut before body:', receive(head, b'hello', NEXT))

print('2. 204 with a header field / 304: no response event at all, next response swallowed')
print('   204 + header   :', receive(b'HTTP/1.1 204 No Content\r\nServer: x\r\n\r\n', NEXT))
print('   304            :', receive(b'HTTP/1.1 304 Not Modified\r\nETag: "x"\r\n\r\n', NEXT))
print('   204, no header :', receive(b'HTTP/1.1 204 No Content\r\n\r\n', NEXT))

print('3. header-less response with read-until-close body')
print('   one piece      :', receive(b'HTTP/1.0 200 OK\r\n\r\nbody'))
print('   cut before body:', receive(b'HTTP/1.0 200 OK\r\n\r\n', b'body', b' more'))
