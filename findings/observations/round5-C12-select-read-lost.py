#!/usr/bin/env python
"""
Observation on the UNCHANGED tree (C12): under Select, bytes the peer sent
before aborting are lost when the server has output queued for that socket.

run: cd /tmp/seed5/C12 && /venv/bin/python SEEDED/obs1_select_read_lost.py
prints the observer's log per poller; exit 1 if a poller lost the bytes.
"""
import os
import socket
import struct
import sys

ROOT = os.path.dirname(os.path.dirname(os.path.abspath(__file__)))
sys.path.insert(0, ROOT)

from circuits import Component, Manager, handler  # noqa: E402
from circuits.core.pollers import EPoll, Poll, Select  # noqa: E402
from circuits.net.events import write  # noqa: E402
from circuits.net.sockets import TCPServer  # noqa: E402


class Observer(Component):
    channel = 'server'

    def init(self):
        self.log = []

    @handler('connect')
    def _c(self, sock, *a):
        self.log.append('connect')

    @handler('read')
    def _r(self, sock, data):
        self.log.append(('read', data))

    @handler('error')
    def _e(self, sock, *a):
        self.log.append(('error', getattr(a[0], 'errno', None) if a else None))

    @handler('disconnect')
    def _d(self, sock):
        self.log.append('disconnect')


def ticks(m, n=8):
    for _ in range(n):
        m.tick(0)


def run(poller_cls, payload):
    m = Manager()
    m._running = True
    poller_cls().register(m)
    server = TCPServer(('127.0.0.1', 0)).register(m)
    obs = Observer().register(m)
    ticks(m)
    peer = socket.create_connection(('127.0.0.1', server.port))  # never reads
    ticks(m)
    sock = server._clients[0]
    m.fire(write(sock, b'x' * payload), 'server')
    if payload > 100000:
        ticks(m, 10)  # kernel buffers fill, the rest stays queued over rounds
    else:
        m.flush()  # write handled (queued, writer registered), no poll yet
    assert server._buffers[sock], 'output is not queued'
    peer.send(b'abc')
    peer.setsockopt(socket.SOL_SOCKET, socket.SO_LINGER, struct.pack('ii', 1, 0))
    peer.close()  # RST
    ticks(m)
    server._sock.close()
    return obs.log


bad = False
for payload in (10, 8 << 20):
    for cls in (Select, Poll, EPoll):
        log = run(cls, payload)
        lost = ('read', b'abc') not in log
        bad = bad or lost
        print(f'{cls.__name__:6} queued={payload:8}: {log}{"   <-- b\'abc\' never reported" if lost else ""}')
sys.exit(1 if bad else 0)
