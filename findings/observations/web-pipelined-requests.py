"""Observation outside the listed properties (C13 and C15 quantify over requests that each follow the previous response: no pipelining).

circuits.web does not serialise pipelined requests.  Bytes that arrive on a connection while the response to the previous request is still
being produced are parsed with a fresh parser but attached to the request/response pair still filed for the socket, so (depending on timing)
  * the FIRST request is dispatched and answered a second time, after a response that announced close or inside a close-delimited / chunked
    body that is still being streamed (the client can no longer delimit the first response);
  * a second request that arrives in the same read as the first is silently swallowed (it becomes the body of the first request) or turns
    the first one into a 400.
Found when an "impatient client" (sends the next request before the response is complete) was tried as an extension of the C15 workload; the
extension was dropped because pipelining is outside C15's quantifier ("each further request ... after the previous response").

Run: /venv/bin/python findings/observations/web-pipelined-requests.py     (prints what happens; exit code is always 0)
"""
import socket
import sys
sys.path.insert(0, __import__('os').environ.get('VERIF_REPO', '/repo'))

from circuits import Component, Manager
from circuits.web import BaseServer
import circuits.web.servers
circuits.web.servers.stderr = open('/dev/null', 'w')

seen = []


class Probe(Component):
    channel = 'web'

    def request(self, req, res):
        seen.append(req.path)
        return 'answer to %s' % req.path


m = Manager()
srv = BaseServer(('127.0.0.1', 0)).register(m)
Probe().register(m)
m._running = True
for _ in range(6):
    m.tick(0.01)
c = socket.create_connection(('127.0.0.1', srv.port))
c.settimeout(0.01)
for _ in range(4):
    m.tick(0.01)
c.sendall(b'GET /one HTTP/1.1\r\nHost: h\r\n\r\nGET /two HTTP/1.1\r\nHost: h\r\n\r\n')
got = b''
for _ in range(20):
    m.tick(0.01)
    try:
        got += c.recv(65536)
    except OSError:
        pass
print('request events :', seen)
print('responses      :', got.count(b'HTTP/1.1 '), [l for l in got.split(b'\r\n') if l.startswith(b'answer')])
