#!/usr/bin/env python
"""Reproducers for SEEDED/OBSERVATIONS.md (unchanged tree).  Prints one line per observation."""

import os
import sys


sys.path.insert(0, os.path.abspath(os.path.join(os.path.dirname(os.path.abspath(__file__)), '..')))

from circuits import Component, Event  # noqa: E402
from circuits.node import Node  # noqa: E402
from circuits.node.protocol import Protocol  # noqa: E402
from circuits.node.utils import dump_event  # noqa: E402


class Side(Component):
    def init(self):
        self.out = []
        self.calls = []

    def write(self, *args):
        self.out.append(args[-1])

    def echo(self, *args, **kwargs):
        self.calls.append(list(args))
        return list(args)


class Star(Component):
    channel = '*'

    def init(self):
        self.calls = 0

    def ping(self):
        self.calls += 1
        return 'pong'


def pump(*sides):
    for _ in range(8):
        for side in sides:
            side.tick()


def take(side):
    data, side.out = b''.join(side.out), []
    return data


def pair():
    a = Side()
    pa = Protocol().register(a)
    b = Side()
    pb = Protocol(sock='sock', server=True).register(b)
    pump(a, b)
    return a, pa, b, pb


def obs1():
    """an Event subclass with a helper method cannot be sent"""

    class hello(Event):
        def describe(self):
            return 'hello %r' % (self.args,)

    try:
        dump_event(hello(1), 0)
    except TypeError as exc:
        return 'REPRODUCED: %s' % exc
    return 'not reproduced'


def obs2():
    """the same event object in two calls that are in flight together"""
    a, pa, b, pb = pair()
    e = Event.create('echo', 1)
    e.channels = ('*',)
    w1 = pa.send(e)
    next(w1)
    e.args[0] = 2  # second call, other argument
    w2 = pa.send(e)
    next(w2)
    pump(a)
    first, second, _ = take(a).split(b'~~~')
    # only the first call is answered so far
    pb.add_buffer(first + b'~~~')
    pump(b)
    pa.add_buffer(take(b))
    pump(a)
    v1, v2 = next(w1), next(w2)
    if v2 is not None:
        return 'REPRODUCED: the second call "finished" with %r before its packet was even delivered to the peer' % (v2.value,)
    return 'not reproduced'


def obs3():
    """an event that was once pushed with no_result never waits for a result again"""
    a, pa, b, pb = pair()
    e = Event.create('echo', 1)
    e.channels = ('*',)
    e.node_without_result = True  # what Server.send(e, sock, no_result=True) does, for good
    for _ in pa.send(e):
        pass
    # later: Server.send(e, sock) - the caller wants the result this time
    steps = list(pa.send(e))
    if steps == []:
        return 'REPRODUCED: send() of the re-used event returned at once, without waiting for / yielding a result'
    return 'not reproduced'


def obs4():
    """a handler reachable over two of the event's channels runs twice for one remote event"""
    b = Star()
    pb = Protocol(sock='sock', server=True).register(b)
    pump(b)
    e = Event.create('ping')
    e.channels = ('x', 'y')
    pb.add_buffer(dump_event(e, 0).encode() + b'~~~')
    pump(b)
    if b.calls != 1:
        return 'REPRODUCED: handler ran %d times for one packet' % b.calls
    return 'not reproduced'


def obs5():
    """connection names / protocols are shared by all Node / Server objects of a process"""
    n1, n2 = Node(), Node()
    n1.add('peer', '127.0.0.1', 1, reconnect_delay=0)
    if n2.get_connection_names() == ['peer'] and n2.get_peer('peer') is n1.get_peer('peer'):
        return 'REPRODUCED: a peer added to one Node is the peer of that name of every other Node'
    return 'not reproduced'


def obs6():
    """a half received packet survives in the buffer of a Client's Protocol across a reconnect"""
    a, pa, b, pb = pair()
    e = Event.create('echo', 1)
    e.channels = ('*',)
    packet = dump_event(e, 0).encode() + b'~~~'
    pb.add_buffer(packet[:20])  # connection lost here; Client keeps its one Protocol
    pb.add_buffer(packet)  # first packet on the new connection
    pump(b)
    if b.calls == []:
        return 'REPRODUCED: the first event after the reconnect was not dispatched'
    return 'not reproduced'


if __name__ == '__main__':
    for f in (obs1, obs2, obs3, obs4, obs5, obs6):
        print('%s (%s): %s' % (f.__name__, f.__doc__, f()))
