"""C19/result/handler-returned-value-of-fire - standalone reproducer (plain circuits, no framework, no sockets).

A handler that delegates - `return self.fire(other())` - returns the (future) Value of the other event; locally the caller's value
resolves through the nesting.  node.utils.dump_value serialised `v._value`, i.e. the nested Value object itself: json.dumps raises
TypeError inside the result handler, no result packet is ever sent and the remote caller waits for ever.

Run: /venv/bin/python /verif/findings/C19-handler-returned-value-of-fire.py   (exit 1 = defect reproduced, 0 = not reproduced)
"""
import os
import sys

sys.path.insert(0, os.environ.get('VERIF_REPO', '/repo'))
from circuits import Component, Event  # noqa: E402
from circuits.node.protocol import Protocol  # noqa: E402
from circuits.node.utils import dump_event  # noqa: E402

sent = []


class inner(Event):
    pass


class outer(Event):
    pass


class plain(Event):
    pass


class App(Component):
    def outer(self, *a, **k):
        return self.fire(inner())

    def inner(self):
        return 42

    def plain(self):
        return 41

    def write(self, data):
        sent.append(data)


def deliver(event):
    del sent[:]
    app = App()
    proto = Protocol().register(app)
    proto.add_buffer(dump_event(event, 0).encode() + b'~~~')
    for _ in range(8):
        app.flush()
    return list(sent)


a = deliver(plain())
b = deliver(outer())
print('handler returns 41               ->', a)
print('handler returns self.fire(inner) ->', b)
bad = len(a) == 1 and not (len(b) == 1 and b'"value": 42' in b[0])
print('DEFECT REPRODUCED' if bad else 'not reproduced')
sys.exit(1 if bad else 0)
