"""C12 reproducer (plain circuits): a socket whose close was deferred by unsent data stays in Server._closeq when the connection then ends
through the receive path.

History: the peer does not read; the server writes more than the socket buffer takes and requests close(sock) (deferred: sock goes to
_closeq); the peer half-closes (the server sees EOF, close is still deferred) and then the next recv() fails with ECONNRESET while the socket
is not writable.  Server._read -> error -> _close(sock): _close() cleans _clients/_buffers/poller but not _closeq.
The recv failure is injected here by a socket subclass handed to the server by accept() (one ECONNRESET on demand) - with AF_UNIX and TCP
loopback the kernel frees the send queue on a reset, which makes the socket writable and lets the _write path clean _closeq by accident.

Run: /venv/bin/python findings/C12-closeq-residue.py      (exit 1 = defect present)
"""
import errno
import os
import socket
import sys

sys.path.insert(0, os.environ.get('VERIF_REPO', '/repo'))
import circuits.net.sockets as S  # noqa: E402
from circuits import Component, Manager  # noqa: E402
from circuits.core.pollers import EPoll, Poll, Select  # noqa: E402
from circuits.net.events import close, write  # noqa: E402

FAIL = []


class Sock(socket.socket):
    """socket whose accepted children raise ECONNRESET from recv() once FAIL is set (what a reset looks like to the application)"""

    def accept(self):
        fd, addr = self._accept()
        return Sock(self.family, self.type, self.proto, fileno=fd), addr

    def recv(self, *a):
        if FAIL:
            raise OSError(errno.ECONNRESET, 'injected: connection reset by peer')
        return super().recv(*a)


S.socket = Sock
bad = 0
for P in (Select, Poll, EPoll):
    del FAIL[:]
    log = []

    class Obs(Component):
        channel = 'server'

        def connect(self, sock, *a):
            log.append('connect')

        def disconnect(self, sock):
            log.append('disconnect')

        def error(self, sock, e):
            log.append('error %s' % errno.errorcode.get(e.args[0], e))

    m = Manager()
    P().register(m)
    path = '\0c12-repro3-%d-%s' % (os.getpid(), P.__name__)
    srv = S.UNIXServer(path).register(m)
    Obs().register(m)
    m._running = True

    def ticks(n=8):
        for _ in range(n):
            m.tick(0)

    ticks()
    c = socket.socket(socket.AF_UNIX)
    c.connect(path)
    ticks()
    s = srv._clients[0]
    m.fire(write(s, b'x' * 1000000), 'server')      # the peer does not read: a tail stays queued
    ticks()
    m.fire(close(s), 'server')                      # deferred: s goes to _closeq
    ticks()
    assert s in srv._closeq, 'close was not deferred'
    c.shutdown(socket.SHUT_WR)                      # FIN: the server's socket becomes readable (and stays unwritable)
    FAIL.append(1)                                  # ... and the next recv() reports a reset
    ticks()
    held = s in srv._closeq
    print('%-6s %s; _closeq holds the disconnected socket: %s' % (P.__name__, log, held))
    bad += held
    c.close()
print('DEFECT PRESENT' if bad else 'ok')
sys.exit(1 if bad else 0)
