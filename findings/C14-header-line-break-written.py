"""C14 reproducer (plain circuits, no harness): one request makes the server write a response that is not syntactically valid HTTP.

The HTTP parser decodes every header line with `unicode_escape` AFTER it has split the header block into lines, so the six literal
characters `\\x0d\\x0a` (or `\\r\\n`, `\\n`, `\\x00`, `\\u000d\\u000a`) in a header value become a real CR LF / LF / NUL inside the value.
The response echoes the request's cookies as Set-Cookie (circuits/web/wrappers.py, Response.prepare - on EVERY response built from
the request: the handler's 200, the 400 for a missing Host, the 505, the 301) and circuits/web/headers.py writes names and values
verbatim.  So the peer decides where the header lines of the answer end:
  * `Cookie: a="\\x0d\\x0ajunk line"`          -> `Set-Cookie: a="` CRLF `junk line"` CRLF: a header line without a colon
  * `Cookie: a="\\x0d\\x0a\\x0d\\x0aEVIL"`       -> the header block ends at the injected empty line; what the server meant to be headers
                                               becomes body, Content-Length no longer describes the body (response splitting)
  * `Cookie: a="\\x00"`, `Cookie: a="\\nb"`     -> NUL / bare LF inside a field value
  * `GET //` with `Host: a<NUL>b` (a raw NUL)   -> `301 ... Location: http://a<NUL>b/`
The statement of C14: "answers with exactly one syntactically valid HTTP response"; its quantifier names "invalid escapes, NULs".

Run: /venv/bin/python findings/C14-header-line-break-written.py     (exit 1 = defect present)
"""
import re
import socket
import sys
sys.path.insert(0, __import__('os').environ.get('VERIF_REPO', '/repo'))

from circuits import Component, Manager
from circuits.web import BaseServer
import circuits.web.servers
circuits.web.servers.stderr = open('/dev/null', 'w')

TOKEN = rb"[!#$%&'*+\-.^_`|~0-9A-Za-z]+"
FIELD = re.compile(rb'(' + TOKEN + rb'):[ \t]*([\t \x21-\x7e\x80-\xff]*)\Z')
STATUS = re.compile(rb'HTTP/\d\.\d \d{3} [\t \x21-\x7e\x80-\xff]*\Z')


class Probe(Component):
    channel = 'web'

    def request(self, req, res):
        return 'ok'


def ask(raw):
    """(bytes the server wrote, did it close) for one connection on a fresh server"""
    m = Manager()
    srv = BaseServer(('127.0.0.1', 0)).register(m)
    Probe().register(m)
    m._running = True
    for _ in range(6):
        m.tick(0.01)
    c = socket.create_connection(('127.0.0.1', srv.port))
    c.settimeout(0.01)
    for _ in range(4):
        m.tick(0.01)
    c.sendall(raw)
    got, closed = b'', False
    for _ in range(25):
        m.tick(0.01)
        try:
            d = c.recv(65536)
            closed = closed or d == b''
            got += d
        except OSError:
            pass
    c.close()
    srv.server.close()
    for _ in range(6):
        m.tick(0.01)
    return got, closed


def wrong(resp):
    """why `resp` is not exactly one syntactically valid response (None if it is; nothing written at all is fine here too)"""
    if not resp:
        return None
    head, sep, body = resp.partition(b'\r\n\r\n')
    if not sep:
        return 'no end of the header section'
    lines = head.split(b'\r\n')
    if not STATUS.match(lines[0]):
        return 'status line %r' % lines[0]
    clen = None
    for ln in lines[1:]:
        mt = FIELD.match(ln)
        if not mt:
            return 'header line %r' % ln
        if mt.group(1).lower() == b'content-length':
            clen = int(mt.group(2))
    if clen is not None and clen != len(body):
        return 'Content-Length says %d, %d byte(s) follow the first empty line' % (clen, len(body))
    return None


CASES = [
    ('400 (no Host), cookie value with escaped CR LF', b'GET / HTTP/1.1\r\nCookie: a="\\x0d\\x0ajunk line"\r\n\r\n'),
    ('505, cookie value with escaped CR LF CR LF', b'GET / HTTP/2.0\r\nHost: x\r\nCookie: a="\\x0d\\x0a\\x0d\\x0aEVIL"\r\n\r\n'),
    ('200, cookie value with \\r\\n\\r\\n', b'GET / HTTP/1.1\r\nHost: x\r\nCookie: a="\\r\\n\\r\\nEVIL"\r\n\r\n'),
    ('200, cookie value with \\u000d\\u000a', b'GET / HTTP/1.1\r\nHost: x\r\nCookie: a="\\u000d\\u000ajunk"\r\n\r\n'),
    ('200, cookie value with escaped NUL', b'GET / HTTP/1.1\r\nHost: x\r\nCookie: a="\\x00"\r\n\r\n'),
    ('200, cookie value with escaped bare LF', b'GET / HTTP/1.1\r\nHost: x\r\nCookie: a="\\nb"\r\n\r\n'),
    ('301, raw NUL in Host', b'GET // HTTP/1.1\r\nHost: a\x00b\r\n\r\n'),
]
bad = 0
for what, raw in CASES:
    resp, closed = ask(raw)
    why = wrong(resp)
    bad += why is not None
    print('%-48s %-70r -> %s%s' % (what, raw, resp.split(b'\r\n', 1)[0].decode('latin1') if resp else 'nothing written', ', closed' if closed else ''))
    if why:
        print('    NOT A VALID RESPONSE: %s' % why)
        print('    header section as written: %r' % resp[:resp.find(b'<!DOCTYPE') if b'<!DOCTYPE' in resp else 400])
print('DEFECT PRESENT: %d of %d answers are not syntactically valid HTTP (the peer chose where their header lines end)' % (bad, len(CASES)) if bad
      else 'ok: every answer is one syntactically valid response')
sys.exit(1 if bad else 0)
