"""C14 reproducer (plain circuits, no harness): a request rejected with 505 is dispatched to the handlers after all.

HTTP._on_read stores `self._clients[sock] = (req, res)` and only then checks the major version; on a mismatch it fires the 505 error
but leaves `_clients[sock]` and the parser in place.  When the body of that request arrives in a later read, the branch
`if sock in self._clients: req, res = self._clients[sock]` skips the version check, the message completes and the `request` event
of the already rejected HTTP/2.0 request is fired.

Run: /venv/bin/python findings/C14-rejected-505-request-dispatched.py     (exit 1 = defect present)
"""
import re
import socket
import sys
sys.path.insert(0, __import__('os').environ.get('VERIF_REPO', '/repo'))

from circuits import Component, Manager
from circuits.web import BaseServer
import circuits.web.servers
circuits.web.servers.stderr = open('/dev/null', 'w')

seen = []


class Probe(Component):
    channel = 'web'

    def request(self, req, res):
        seen.append((req.method, req.path, req.protocol, '%d body bytes' % len(req.body.read())))
        return 'ok'


m = Manager()
srv = BaseServer(('127.0.0.1', 0)).register(m)
Probe().register(m)
m._running = True
for _ in range(6):
    m.tick(0.01)
c = socket.create_connection(('127.0.0.1', srv.port))
c.settimeout(0.01)
for _ in range(4):
    m.tick(0.01)
BODY = b'x' * 6000
c.sendall(b'POST /upload HTTP/2.0\r\nHost: h\r\nContent-Length: 6000\r\n\r\n' + BODY[:3000])
m.tick(0.01)          # head and the first part of the body are read (bufsize 4096) and rejected: 505 fired, not yet written ...
c.sendall(BODY[3000:])   # ... and the rest of the body arrives while _clients[sock] is still there
got = b''
for _ in range(12):
    m.tick(0.01)
    try:
        got += c.recv(65536)
    except OSError:
        pass
print('answers written  :', [x.decode() for x in re.findall(rb'HTTP/\d\.\d \d{3}', got)])
print('request events   :', seen)
print('DEFECT PRESENT: the rejected request was dispatched' if seen else 'ok: a rejected request is not dispatched')
sys.exit(1 if seen else 0)
