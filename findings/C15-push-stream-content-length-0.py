"""C15/body/push/length — standalone reproducer (plain circuits, real loopback TCP, no framework).

The push idiom of examples/web/terminal/terminal.py: the handler sets `response.stream = True`, returns the response with an
empty body, and the data is delivered later with `stream(response, data)` events (`stream(response, None)` ends it).
Response.prepare() sees the empty list body, computes Content-Length: 0 and therefore selects neither chunked coding nor
close-delimiting; the pushed data follows a response that announced no body at all, and on HTTP/1.1 the connection stays open,
so the data is garbage in front of the next response.

Run: /venv/bin/python /verif/findings/C15-push-stream-content-length-0.py   (exit 1 = defect reproduced, 0 = not reproduced)
"""
import os
import socket
import sys
import time

sys.path.insert(0, os.environ.get('VERIF_REPO', '/repo'))
from circuits import Component  # noqa: E402
from circuits.web import Controller, Server  # noqa: E402
from circuits.web.events import stream  # noqa: E402


class Root(Controller):
    def index(self):
        self.response.stream = True
        self.response.push_me = True
        return self.response


class Pusher(Component):
    channel = 'web'

    def response_success(self, e, value):
        res = e.args[0]
        if getattr(res, 'push_me', False):       # the header section is out: now push the data
            self.fire(stream(res, 'Hello '))
            self.fire(stream(res, 'World!'))
            self.fire(stream(res, None))


def start(server):
    server.start()
    deadline = time.time() + 10
    while not server.port and time.time() < deadline:
        time.sleep(0.05)
    time.sleep(0.2)


def exchange(sock, request, wait=1.0):
    """send, then read until the server closes or nothing arrives for `wait` seconds"""
    sock.sendall(request)
    sock.settimeout(wait)
    data, eof = b'', False
    try:
        while True:
            d = sock.recv(65536)
            if not d:
                eof = True
                break
            data += d
    except socket.timeout:
        pass
    return data, eof


server = Server(('127.0.0.1', 0))
Root().register(server)
Pusher().register(server)
start(server)
s = socket.create_connection(('127.0.0.1', server.port))
data, eof = exchange(s, b'GET / HTTP/1.1\r\nHost: x\r\n\r\n')
s.close()
server.stop()
head, _, rest = data.partition(b'\r\n\r\n')
print(head.decode())
print('after the header section: %r   (connection closed by the server: %s)' % (rest, eof))
bad = b'Content-Length: 0' in head and rest != b''
print('DEFECT REPRODUCED: the response announces Content-Length: 0 and is followed by %d bytes' % len(rest) if bad else 'not reproduced')
sys.exit(1 if bad else 0)
