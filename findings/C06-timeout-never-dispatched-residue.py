"""C06 finding C06/residue/event-handler/never-dispatched-event  (standalone, plain circuits, no framework).

`yield self.wait('never', timeout=2)` on an event name that is never dispatched.  The TimeoutError is delivered correctly, but
waitEvent's _on_tick only removes the `never_done` and `generate_events` handlers; the `never` handler (_on_event), which normally
removes itself when the event is dispatched, stays in the component's handler table for ever (one per timed-out wait).

The loop is driven with tick(0) while the manager is marked running, so that generate_events (the timeout tick) fires each iteration.
Expected by the statement: when the system is quiescent again no temporary handlers remain.   Exit code 1 = defect reproduced.
"""
import os
import sys

sys.path.insert(0, os.environ.get('VERIF_REPO', '/repo'))
from circuits import Component, Event  # noqa: E402
from circuits.core.manager import TimeoutError  # noqa: E402


class foo(Event):
    success = True


log = []


class App(Component):
    def foo(self):
        try:
            yield self.wait('never', timeout=2)
        except TimeoutError:
            log.append('foo: TimeoutError')
        yield 'done'

    def foo_success(self, *args):
        log.append('foo_success')


app = App()
app._running = True          # what run() does; lets tick() fire generate_events
before = {k: len(v) for k, v in app._handlers.items()}
for _ in range(3):
    app.fire(foo())
    for _ in range(20):
        app.tick(0)
after = {k: len(v) for k, v in app._handlers.items()}
left = {k: v for k, v in after.items() if before.get(k) != v}
print('\n'.join(log))
print('handlers left behind after 3 timed-out waits: %r; tasks: %d' % (left, len(app._tasks)))
print('DEFECT REPRODUCED' if left else 'not reproduced')
sys.exit(1 if left else 0)
