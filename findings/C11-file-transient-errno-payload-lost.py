"""C11/file/transient-errno/payload-lost - standalone reproducer (plain circuits, a pipe, no verification framework).

circuits.io.File pops a payload from its buffer, os.write raises EWOULDBLOCK/EAGAIN or EINTR: File._write just returns, the payload
is lost silently (no event at all).  On ENOBUFS it fires `error` and closes the file with the remaining payloads still buffered.

Run: /venv/bin/python C11-file-transient-errno-payload-lost.py   (exit 1 = defect present, 0 = fixed)
"""
import errno
import os
import sys

sys.path.insert(0, os.environ.get('VERIF_REPO', '/repo'))
import circuits.io.file as F                       # noqa: E402
from circuits import Component, Manager            # noqa: E402
from circuits.core.pollers import Select           # noqa: E402
from circuits.io import File                       # noqa: E402
from circuits.io.events import close, write        # noqa: E402

script = []
accepted = bytearray()


def fd_write(fd, data):
    e = script.pop(0) if script else 0
    if e:
        raise OSError(e, os.strerror(e))
    n = os.write(fd, data)
    accepted.extend(data[:n])
    return n


F.fd_write = fd_write                              # the module-level name File._write calls
events = []


class Obs(Component):
    channel = 'file'

    def error(self, e, *a):
        events.append('error(%s)' % errno.errorcode.get(getattr(e, 'errno', None), e))

    def closed(self):
        events.append('closed')


bad = 0
for name in ('EAGAIN', 'EINTR', 'ENOBUFS'):
    del events[:], accepted[:]
    r, w = os.pipe()
    m = Manager()
    Select().register(m)
    File(os.fdopen(w, 'wb', buffering=0)).register(m)
    Obs().register(m)
    m._running = True
    for _ in range(6):
        m.tick(0.01)
    script[:] = [0, getattr(errno, name)]
    m.fire(write(b'hello '), 'file')
    m.fire(write(b'cruel '), 'file')
    m.fire(write(b'world'), 'file')
    m.fire(close(), 'file')
    for _ in range(20):
        m.tick(0.01)
    os.set_blocking(r, False)
    try:
        got = os.read(r, 100)
    except BlockingIOError:
        got = b''
    ok = got == b'hello cruel world'
    bad += not ok
    print('%-8s accepted by the OS: %r  reader got: %r  events: %s  -> %s' % (name, bytes(accepted), got, events, 'ok' if ok else 'PAYLOAD LOST'))
    os.close(r)
sys.exit(1 if bad else 0)
