"""Standalone reproducer (plain circuits, no framework) for the findings
C18/irc/round-trip/empty-last-argument, .../empty-non-last-argument, .../colon-leading-non-last-argument,
.../command-with-space-or-empty, .../prefix-with-space-or-empty.

The statement: parsing a serialised message gives back its prefix, command and arguments.  Message accepts argument /
command / prefix values that its own wire syntax cannot carry: an empty argument is written as nothing (the last one lacks
the ':' marker, a non-last one becomes a double space that parsemsg skips, so the following arguments shift left); a non-last
argument that starts with ':' turns everything after it into the trailing argument; a space in `command` or `prefix` (neither
is ever validated) shifts all fields.  (The library's convention that a caller may pre-colon the LAST argument is accepted.)

Run:  PYTHONPATH=/repo /venv/bin/python /verif/findings/C18-irc-round-trip.py     exit 1 = defect present
"""
import sys

from circuits.protocols.irc import AWAY, NICK, USER, WHOIS, Message, parsemsg

cases = [
    ("AWAY('')", lambda: AWAY('').args[0]),
    ("USER('', 'host', 'server', 'Real Name')", lambda: USER('', 'host', 'server', 'Real Name').args[0]),
    ("NICK(':a', '1')", lambda: NICK(':a', '1').args[0]),
    ("WHOIS('nick', 'irc server')", lambda: WHOIS('nick', 'irc server').args[0]),
    ("Message('PRIVMSG', '#c', 'hi', prefix='ni ck')", lambda: Message('PRIVMSG', '#c', 'hi', prefix='ni ck')),
]
bad = 0
for shown, make in cases:
    try:
        msg = make()
        data = bytes(msg)
    except Exception as e:
        print('%s refused: %r' % (shown, e))
        continue
    prefix, command, args = parsemsg(data[:-2])
    want_prefix = (None, None, None) if msg.prefix is None else (msg.prefix, None, None)
    last_ok = not msg.args or args[-1:] == msg.args[-1:] or (msg.args[-1].startswith(':') and args[-1:] == [msg.args[-1][1:]])
    ok = prefix == want_prefix and command == str(msg.command) and args[:-1] == msg.args[:-1] and len(args) == len(msg.args) and last_ok
    print('%s -> wire %r -> parsemsg: prefix=%r command=%r args=%r   message: prefix=%r command=%r args=%r   %s' % (
        shown, data, prefix, command, args, msg.prefix, msg.command, msg.args, 'ok' if ok else 'MISMATCH'))
    bad += not ok
if bad:
    print('DEFECT: %d message(s) do not parse back to their own fields' % bad)
    sys.exit(1)
print('ok')
