"""C13 reproducer (plain circuits, no harness): a read boundary between the CR and the LF of the first line.

HttpParser.execute() searches for the CRLF that ends the request / status line only in the piece it was just given
(`data.find(b'\\r\\n')`), not in what it has buffered.  If the CR arrives in one read and the LF in the next, the CRLF is never
found where it is; the parser takes the first CRLF of the *second* piece instead, so the "first line" is
'GET / HTTP/1.1\\r\\nHost: h' -> 400.  Delivered byte by byte no piece ever contains CRLF and the request never completes.
Same parser on the client side (kind=1): the response event never fires.

Run: /venv/bin/python findings/C13-firstline-crlf-cut.py   (prints the three outcomes; exit 1 = defect present)
"""
import socket
import sys
sys.path.insert(0, __import__('os').environ.get('VERIF_REPO', '/repo'))

from circuits import Component, Manager
from circuits.web import BaseServer
from circuits.web.parsers import HttpParser
import circuits.web.servers
circuits.web.servers.stderr = open('/dev/null', 'w')

REQ = b'GET /x?y=1 HTTP/1.1\r\nHost: h\r\n\r\n'
RES = b'HTTP/1.1 200 OK\r\nContent-Length: 5\r\n\r\nhello'


def parse(kind, pieces):
    p = HttpParser(kind, True)
    for d in pieces:
        p.execute(d, len(d))
    return dict(errno=p.errno, headers_complete=p.is_headers_complete(), message_complete=p.is_message_complete())


def serve(pieces):
    """full server stack over a real loopback connection, ticked by hand; returns (request events, status line of the answer)"""
    seen = []

    class Probe(Component):
        channel = 'web'

        def request(self, req, res):
            seen.append((req.method, req.path, req.qs))
            return 'ok'

    m = Manager()
    srv = BaseServer(('127.0.0.1', 0)).register(m)
    Probe().register(m)
    m._running = True
    for _ in range(5):
        m.tick(0.01)
    c = socket.create_connection(('127.0.0.1', srv.port))
    c.settimeout(0.01)
    got = b''
    for d in list(pieces) + [b''] * 5:
        if d:
            c.sendall(d)
        for _ in range(4):
            m.tick(0.01)
        try:
            got += c.recv(65536)
        except OSError:
            pass
    c.close()
    srv.server._sock.close()
    return seen, got.split(b'\r\n')[0]


cut = REQ.index(b'\r') + 1
out = {
    'parser, request whole': parse(0, [REQ]),
    'parser, request cut CR|LF': parse(0, [REQ[:cut], REQ[cut:]]),
    'parser, request byte-at-a-time': parse(0, [REQ[i:i + 1] for i in range(len(REQ))]),
    'parser, response whole': parse(1, [RES]),
    'parser, response cut CR|LF': parse(1, [RES[:RES.index(b'\r') + 1], RES[RES.index(b'\r') + 1:]]),
    'server, whole': serve([REQ]),
    'server, cut CR|LF': serve([REQ[:cut], REQ[cut:]]),
    'server, byte-at-a-time': serve([REQ[i:i + 1] for i in range(len(REQ))]),
}
for k, v in out.items():
    print('%-32s %r' % (k, v))
bad = out['server, whole'] != out['server, cut CR|LF'] or out['server, whole'] != out['server, byte-at-a-time'] \
    or out['parser, response whole'] != out['parser, response cut CR|LF']
print('DEFECT PRESENT' if bad else 'ok: same result for every segmentation')
sys.exit(1 if bad else 0)
