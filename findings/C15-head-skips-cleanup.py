"""C15/further-request/after-HEAD and C15/close/announced-but-open/HEAD — standalone reproducer (plain circuits, real loopback TCP, no framework).

HTTP._on_response returns right after writing the header section when the request method is HEAD.  The code below that
return is what ends a response: fire close(sock) when the response announced it, delete self._clients[sock], res.done = True.
Consequences on the pinned tree:
  1. HEAD with `Connection: close`: the response says `Connection: close`, the server never closes the connection;
  2. HEAD on a kept-alive connection: _clients[sock] keeps the (request, response) pair of the HEAD, so _on_read re-uses it
     for every later request on that connection: `GET /other` re-runs the old HEAD request and is answered with the header
     section of `/` (Content-Length of `/`, no body) - the client waits for a body that never comes.

Run: /venv/bin/python /verif/findings/C15-head-skips-cleanup.py   (exit 1 = defect reproduced, 0 = not reproduced)
"""
import os
import socket
import sys
import time

sys.path.insert(0, os.environ.get('VERIF_REPO', '/repo'))
from circuits.web import Controller, Server  # noqa: E402


class Root(Controller):
    def index(self):
        return 'Hello World!'

    def other(self):
        return 'a completely different and much longer body'


server = Server(('127.0.0.1', 0))
Root().register(server)
server.start()
deadline = time.time() + 10
while not server.port and time.time() < deadline:
    time.sleep(0.05)
time.sleep(0.2)


def exchange(sock, request, wait=1.0):
    sock.sendall(request)
    sock.settimeout(wait)
    data, eof = b'', False
    try:
        while True:
            d = sock.recv(65536)
            if not d:
                eof = True
                break
            data += d
    except socket.timeout:
        pass
    return data, eof


bad = []
# 1. announced close, not closed
s = socket.create_connection(('127.0.0.1', server.port))
data, eof = exchange(s, b'HEAD / HTTP/1.1\r\nHost: x\r\nConnection: close\r\n\r\n')
print('HEAD / with Connection: close ->', data.split(b'\r\n')[0], '| says Connection: close:', b'Connection: close' in data, '| closed by server within 1 s:', eof)
if b'Connection: close' in data and not eof:
    bad.append('announced-but-open')
s.close()

# 2. stale response for the next request
s = socket.create_connection(('127.0.0.1', server.port))
data, eof = exchange(s, b'HEAD / HTTP/1.1\r\nHost: x\r\n\r\n')
print('HEAD /      ->', data.split(b'\r\n')[0], [h for h in data.split(b'\r\n') if h.startswith(b'Content-Length')])
data, eof = exchange(s, b'GET /other HTTP/1.1\r\nHost: x\r\n\r\n')
head, _, body = data.partition(b'\r\n\r\n')
print('GET /other  ->', head.split(b'\r\n')[0], [h for h in head.split(b'\r\n') if h.startswith(b'Content-Length')], 'body:', body)
if body != b'a completely different and much longer body':
    bad.append('stale-response')
s.close()
server.stop()
print('DEFECT REPRODUCED: %s' % bad if bad else 'not reproduced')
sys.exit(1 if bad else 0)
