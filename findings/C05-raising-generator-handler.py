"""C05/never-completes/raising-generator-handler — standalone reproducer (plain circuits, no framework).

A complete-requesting event has a generator handler that raises (here after its first yield; raising before any yield
behaves the same, the body of a generator handler always runs in processTask).
Expected by the statement: `foo_complete` is still eventually fired ("also when some of those events ... had handlers that
raised").  Observed on the pinned tree: never fired.  Manager.processTask's `except BaseException` branch unregisters the task
and fires `exception`, but neither decrements `event.waitingHandlers` nor calls `_eventDone(event)`.
For contrast a raising *plain* handler does not prevent `bar_complete`.

Run: /venv/bin/python /verif/findings/C05-raising-generator-handler.py   (exit 1 = defect reproduced, 0 = not reproduced)
"""
import os
import sys

sys.path.insert(0, os.environ.get('VERIF_REPO', '/repo'))
from circuits import Component, Event  # noqa: E402

log = []


class foo(Event):
    complete = True


class bar(Event):
    complete = True


class App(Component):
    def foo(self):
        log.append('foo step 0')
        yield None
        log.append('foo step 1 raises')
        raise ValueError('boom')

    def bar(self):
        log.append('bar raises')
        raise ValueError('boom')

    def exception(self, *args, **kwargs):
        log.append('exception event')

    def foo_complete(self, e, value):
        log.append('foo_complete')

    def bar_complete(self, e, value):
        log.append('bar_complete')


app = App()
app.fire(foo())
app.fire(bar())
for _ in range(50):
    app.tick()
print('log after 50 ticks:', log)
bad = log.count('foo_complete') != 1
print('bar_complete fired: %d, foo_complete fired: %d' % (log.count('bar_complete'), log.count('foo_complete')))
print('DEFECT REPRODUCED' if bad else 'not reproduced')
sys.exit(1 if bad else 0)
