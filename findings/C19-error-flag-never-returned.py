"""C19/result/error-flag-never-returned - standalone reproducer (plain circuits, no framework, no sockets).

The receiving Protocol sends a result packet only from its handler for `<name>_success` (channel node_result).  When the remote handler
raises, the Manager fires no `_success`, so no packet is ever written: the sender's generator (`yield self.call(remote(...))`) spins for
ever and never sees an error flag.  The statement demands that "its result or error flag comes back to the sender's waiting handler".

Run: /venv/bin/python /verif/findings/C19-error-flag-never-returned.py   (exit 1 = defect reproduced, 0 = not reproduced)
"""
import os
import sys

sys.path.insert(0, os.environ.get('VERIF_REPO', '/repo'))
from circuits import Component, Event, handler  # noqa: E402
from circuits.node.protocol import Protocol  # noqa: E402
from circuits.node.utils import dump_event  # noqa: E402

written = []


class App(Component):
    def good(self):
        return 'fine'

    def bad(self):
        raise RuntimeError('boom')

    def write(self, data):
        written.append(data)

    @handler('exception')
    def _quiet(self, *args, **kwargs):
        pass


def answer_to(name):
    written.clear()
    app = App()
    proto = Protocol().register(app)
    proto.add_buffer(dump_event(Event.create(name), 7).encode() + b'~~~')
    for _ in range(20):
        app.flush()
    return list(written)


g, b = answer_to('good'), answer_to('bad')
print('handler returns -> packets written back:', g)
print('handler raises  -> packets written back:', b)
bad = len(g) == 1 and len(b) == 0
print('DEFECT REPRODUCED' if bad else 'not reproduced')
sys.exit(1 if bad else 0)
