"""C06 finding C06/caller-completes/handler-abandoned/pause-directly-after-timeout  (standalone, plain circuits, no framework).

A handler catches the TimeoutError of a timed call/wait and then executes a bare `yield` (a pause, as the handler documentation
suggests for "not ready yet").  processTask's ExceptionWrapper branch throws the error into the handler and re-registers it only
`if value is not None` (value = what the handler yielded next), so after a bare yield nothing steps the handler any more:
it never finishes, foo.waitingHandlers stays > 0 and foo_success / foo_complete are never fired.

Expected by the statement: after the (single) resumption with TimeoutError the caller's own event completes as if run synchronously.
Exit code 1 = defect reproduced.
"""
import os
import sys

sys.path.insert(0, os.environ.get('VERIF_REPO', '/repo'))
from circuits import Component, Event  # noqa: E402
from circuits.core.manager import TimeoutError  # noqa: E402


class foo(Event):
    success = True
    complete = True


class hello(Event):
    pass


log = []


class App(Component):
    def foo(self):
        try:
            yield self.call(hello(), timeout=0)
        except TimeoutError:
            log.append('foo: TimeoutError')
        yield None
        log.append('foo: stepped after the pause')
        yield 'finished'

    def hello(self):
        yield None
        yield 'hello'

    def foo_success(self, *args):
        log.append('foo_success')

    def foo_complete(self, *args):
        log.append('foo_complete')


app = App()
app._running = True          # what run() does; lets tick() fire generate_events
v = app.fire(foo())
for _ in range(200):
    app.tick(0)
print('\n'.join(log))
print('foo value=%r, tasks=%d' % (v.value, len(app._tasks)))
bad = 'foo_success' not in log
print('DEFECT REPRODUCED: the handler was never stepped again, foo never completed' if bad else 'not reproduced')
sys.exit(1 if bad else 0)
