"""Standalone reproducer (plain circuits, no framework, no sockets) for the finding
C17/ping/pong-payload-differs/ping-inside-fragmented-message.

RFC 6455 5.4 allows control frames in the middle of a fragmented message; the statement demands a pong with the same payload.
_parse_messages executes `msg = self._pending_payload + msg` for EVERY frame, so the pong for a ping that arrives between two
fragments carries the fragments received so far in front of the ping's payload (and is no legal control frame once that
exceeds 125 bytes).

Run:  PYTHONPATH=/repo /venv/bin/python /verif/findings/C17-ping-in-fragmented-message.py     exit 1 = defect present
"""
import sys

from circuits import Component
from circuits.net.events import read
from circuits.protocols.websocket import WebSocketCodec


class Transport(Component):
    channel = 'transport'
    wire = []

    def write(self, sock, data):
        self.wire.append(bytes(data))


class App(Component):
    channel = 'ws'
    got = []

    def read(self, sock, data):
        self.got.append(data)


SOCK = object()
t = Transport()
app = App().register(t)
WebSocketCodec(SOCK, channel='ws').register(t)
for _ in range(4):
    t.tick()
# text "Hel" (FIN=0) | ping "p" | continuation "lo" (FIN=1), all unmasked for readability
t.fire(read(SOCK, b'\x01\x03Hel' + b'\x89\x01p' + b'\x80\x02lo'), 'transport')
for _ in range(6):
    t.tick()
print('delivered:', app.got, ' written to the transport:', t.wire)
if t.wire != [b'\x8a\x01p']:
    print('DEFECT: the pong for ping "p" is %r (expected b"\\x8a\\x01p")' % (t.wire,))
    sys.exit(1)
print('ok')
