"""C14 reproducer (plain circuits, no harness): a well-formed request whose Cookie decodes to a character outside latin-1 is
dispatched, and then the connection is closed without a single byte of response.

The server's parser decodes every header line with `unicode_escape`, so the perfectly ordinary header bytes `Cookie: a="\\u20ac"`
become a cookie value with a EURO SIGN.  Every response built from the request echoes the request's cookies as Set-Cookie
(`Response.cookie = request.cookie`); `bytes(headers)` encodes as latin-1 and raises UnicodeEncodeError inside HTTP._on_response.
The 500 built by _on_exception carries the same cookie and fails the same way; since e02766c ("a response that cannot be written is
no longer retried for ever") the component then closes the connection - which cured the livelock, but leaves a request that is not a
TLS hello with no answer at all.  Statement of C14: the component "either waits for more data, answers with exactly one syntactically
valid HTTP response ..., or simply closes (TLS handshake on a plain-text port)".

Run: /venv/bin/python findings/C14-unwritable-response-closed-without-answer.py     (exit 1 = defect present)
"""
import socket
import sys
sys.path.insert(0, __import__('os').environ.get('VERIF_REPO', '/repo'))

from circuits import Component, Manager
from circuits.web import BaseServer
import circuits.web.servers
circuits.web.servers.stderr = open('/dev/null', 'w')

seen = []


class Probe(Component):
    channel = 'web'

    def request(self, req, res):
        seen.append((req.method, req.path))
        return 'ok'


m = Manager()
srv = BaseServer(('127.0.0.1', 0)).register(m)
Probe().register(m)
m._running = True
for _ in range(6):
    m.tick(0.01)
bad = 0
for name, msg in (
        ('cookie value \\u20ac, handler answers', b'GET / HTTP/1.1\r\nHost: x\r\nCookie: a="\\u20ac"\r\n\r\n'),
        ('cookie value \\u0100, handler answers', b'GET / HTTP/1.1\r\nHost: x\r\nCookie: k=\\u0100; j=1\r\n\r\n'),
        ('cookie value \\u20ac, 400 for the missing Host', b'GET / HTTP/1.1\r\nCookie: a="\\u20ac"\r\n\r\n'),
        ('control: cookie value \\u00e9 (latin-1)', b'GET / HTTP/1.1\r\nHost: x\r\nCookie: a="\\u00e9"\r\n\r\n')):
    del seen[:]
    c = socket.create_connection(('127.0.0.1', srv.port))
    c.settimeout(0.01)
    for _ in range(4):
        m.tick(0.01)
    c.sendall(msg)
    got, eof = b'', False
    for _ in range(40):
        m.tick(0.01)
        try:
            d = c.recv(65536)
            if not d:
                eof = True
                break
            got += d
        except OSError:
            pass
    c.close()
    for _ in range(4):
        m.tick(0.01)
    status = got.split(b'\r\n', 1)[0].decode('latin1')
    print('%-48s -> %d request event(s), answer: %s, server closed: %s' % (name, len(seen), status or 'NONE', eof))
    bad += (not status and eof)
print('DEFECT PRESENT: the server closed the connection without any response to a request that is not a TLS hello' if bad
      else 'ok: every request was answered')
sys.exit(1 if bad else 0)
