"""C13 reproducer (plain circuits, no harness): a read boundary behind the last-chunk line of a chunked message.

HttpParser._parse_chunk_size() returns "size 0 -> message complete" as soon as the CRLF of the last-chunk line ('0\\r\\n') is
there, without waiting for the trailer section / the final CRLF.  If those arrive in a later read:
  * server: the request event has already fired and the parser was dropped; the left-over bytes ('\\r\\n', or 'X-T: 1\\r\\n\\r\\n')
    are parsed as a new request line -> a second, 400 response and the keep-alive connection is closed;
  * client: the response event has fired and a new parser was created; the left-over puts it into an error state and the NEXT
    response on the connection is never delivered.
Delivered in one piece the bytes behind '0\\r\\n' are silently dropped with the parser, so everything looks fine.

Run: /venv/bin/python findings/C13-last-chunk-complete-too-early.py     (exit 1 = defect present)
"""
import re
import socket
import sys
sys.path.insert(0, __import__('os').environ.get('VERIF_REPO', '/repo'))

from circuits import Component, Manager
from circuits.protocols.http import HTTP as ClientHTTP
from circuits.net.events import read
from circuits.web import BaseServer
import circuits.web.servers
circuits.web.servers.stderr = open('/dev/null', 'w')

REQ = b'POST /p HTTP/1.1\r\nHost: h\r\nTransfer-Encoding: chunked\r\n\r\n5\r\nhello\r\n0\r\nX-T: 1\r\n\r\n'
RES = b'HTTP/1.1 200 OK\r\nTransfer-Encoding: chunked\r\n\r\n5\r\nhello\r\n0\r\n\r\n'


def serve(pieces):
    seen = []

    class Probe(Component):
        channel = 'web'

        def request(self, req, res):
            seen.append((req.method, req.path, req.body.read()))
            return 'ok'

    m = Manager()
    srv = BaseServer(('127.0.0.1', 0)).register(m)
    Probe().register(m)
    m._running = True
    for _ in range(5):
        m.tick(0.01)
    c = socket.create_connection(('127.0.0.1', srv.port))
    c.settimeout(0.01)
    got, closed = b'', False
    for d in list(pieces) + [b''] * 5:
        if d:
            c.sendall(d)
        for _ in range(4):
            m.tick(0.01)
        try:
            x = c.recv(65536)
            got += x
            closed = closed or not x
        except OSError:
            pass
    c.close()
    srv.server._sock.close()
    return seen, re.findall(rb'HTTP/1\.\d \d{3}', got), 'closed by server' if closed else 'kept open'


def client(pieces):
    """the client-side protocol component fed with read events; two responses follow each other on one connection"""
    seen = []

    class Probe(Component):
        channel = 'web'

        def response(self, response):
            seen.append((response.status, response.body.getvalue()))

    m = Manager()
    ClientHTTP().register(m)
    Probe().register(m)
    for d in pieces:
        m.fire(read(d), 'web')
        for _ in range(3):
            m.flush()
    return seen


k = REQ.index(b'0\r\n') + 3
j = RES.index(b'0\r\n') + 3
out = {
    'server, whole': serve([REQ]),
    'server, cut behind last-chunk': serve([REQ[:k], REQ[k:]]),
    'client, 2 responses whole': client([RES, RES]),
    'client, first one cut': client([RES[:j], RES[j:], RES]),
}
for name, v in out.items():
    print('%-32s %r' % (name, v))
bad = out['server, whole'] != out['server, cut behind last-chunk'] or out['client, 2 responses whole'] != out['client, first one cut']
print('DEFECT PRESENT' if bad else 'ok: same result for every segmentation')
sys.exit(1 if bad else 0)
