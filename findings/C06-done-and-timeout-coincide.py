"""C06 finding C06/caller-completes/foreign-exception/KeyError/done-and-timeout-coincide  (standalone, plain circuits, no framework).

`x = yield self.call(hello(), timeout=T)` where hello finishes in the very iteration in which the timeout counter has reached 0
(T=1 with a plain callee, T=n+1 with an n-step generator callee, ...).
waitEvent's _on_done only removes the generate_events handler `if state.timeout > 0`; when `hello_done` is dispatched while the
counter is already 0 it registers the result task and leaves the tick handler in place; _on_tick runs later in the same flush,
registers the TimeoutError task as well and removes the done handler.  In the next iteration the caller is resumed with
TimeoutError, and the result task dies in waitEvent's `self.removeHandler(_on_done_handler, ...)` with KeyError('hello_done').
processTask records that KeyError as the value/error of the CALLER's event: foo.value.errors is True, foo's Value contains the
KeyError exc_info and an `exception` event is fired for foo - although no handler of foo raised anything.

Expected by the statement: one resumption (result or TimeoutError - either is fine here) and foo then completes as if its handler
had run synchronously: Value untouched by loop internals, errors False.        Exit code 1 = defect reproduced.
"""
import os
import sys

sys.path.insert(0, os.environ.get('VERIF_REPO', '/repo'))
from circuits import Component, Event  # noqa: E402
from circuits.core.manager import TimeoutError  # noqa: E402


def scenario(timeout, callee_steps):
    class foo(Event):
        success = True

    class hello(Event):
        pass

    log = []

    class App(Component):
        def foo(self):
            try:
                x = yield self.call(hello(), timeout=timeout)
                log.append('result %r' % (x.value,))
            except TimeoutError:
                log.append('TimeoutError')
            for _ in range(3):
                try:
                    yield None
                except TimeoutError:
                    log.append('TimeoutError at a plain yield')

        def hello(self):
            if callee_steps == 0:
                return 'hello'
            return self._gen()

        def _gen(self):
            for _ in range(callee_steps - 1):
                yield None
            yield 'hello'

        def exception(self, etype, evalue, tb, handler=None, fevent=None):
            log.append('exception event %s%r (failing event: %s)' % (etype.__name__, evalue.args, fevent.name))

    app = App()
    app._running = True          # what run() does; lets tick() fire generate_events
    before = {k: len(v) for k, v in app._handlers.items()}
    v = app.fire(foo())
    for _ in range(30):
        app.tick(0)
    after = {k: len(v) for k, v in app._handlers.items()}
    left = {k: n for k, n in after.items() if before.get(k) != n}
    deliveries = [line for line in log if line.startswith(('result', 'TimeoutError'))]
    print('timeout=%d, callee steps=%d: deliveries to the caller: %r' % (timeout, callee_steps, deliveries[:6]))
    print('    foo.value.errors=%r; handlers left: %r; %r' % (v.errors, left, [x for x in log if x.startswith('exception')][:3]))
    return len(deliveries) != 1 or v.errors or bool(left)


bad = [scenario(1, 0), scenario(2, 1), scenario(5, 4)]
ok = scenario(5, 0)   # control: far from the boundary everything is fine
print('DEFECT REPRODUCED' if any(bad) and not ok else 'not reproduced (bad=%r control=%r)' % (bad, ok))
sys.exit(1 if any(bad) else 0)
