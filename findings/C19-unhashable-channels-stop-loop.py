"""C19/loop-survives/tick-raised/_dispatcher - standalone reproducer (plain circuits, no framework, no sockets).

load_event turns the peer-supplied `channels` list into a tuple without looking at the entries.  With "channels": [["x"]] the event is
fired on the channel ['x'] (a list); Manager._dispatcher then looks up `self._cache[(event.name, channels)]` - TypeError: unhashable type -
in a `try: ... except KeyError`, i.e. outside any handler try block.  The exception leaves flush()/tick() and ends Manager.run().

Run: /venv/bin/python /verif/findings/C19-unhashable-channels-stop-loop.py   (exit 1 = defect reproduced, 0 = not reproduced)
"""
import os
import sys
import traceback

sys.path.insert(0, os.environ.get('VERIF_REPO', '/repo'))
from circuits import Component  # noqa: E402
from circuits.node.protocol import Protocol  # noqa: E402


class App(Component):
    def write(self, data):
        pass


app = App()
proto = Protocol().register(app)
while len(app):
    app.flush()
packet = b'{"id": 0, "name": "hello", "args": [], "kwargs": {}, "success": false, "failure": false, "channels": [["x"]], "notify": false, "meta": {}}~~~'
proto.add_buffer(packet)
crashed = None
try:
    for _ in range(5):
        app.tick()
except Exception as exc:  # noqa: BLE001
    crashed = exc
    traceback.print_exc(limit=-2)
print('exception escaped tick():', repr(crashed))
print('DEFECT REPRODUCED' if crashed is not None else 'not reproduced')
sys.exit(1 if crashed is not None else 0)
