"""Standalone reproducer (plain circuits, no framework) for finding C04/value/results-lost/nested-value-result.

"... the value returned by fire() holds exactly their non-None results ... in the order they were produced."  Event `c` has
three handlers: the first returns 1, the second hands on the Value of a nested fire (`return self.fire(inner())`), the third
returns 3.  Storing the nested Value copies its `result` flag (False: `inner` has not been dispatched yet) onto the outer
Value, and `Value.setValue` takes `result == False` for "nothing stored yet": the third result REPLACES what was held.

    fire(c()).value == 3           demanded: 1, the nested Value (or 'ok', what it resolves to) and 3, in this order

The same happens with two handlers (nested Value, then 3 -> the Value is dropped), and with a raising handler first
(the error triple is dropped).

Run:  VERIF_REPO=/repo /venv/bin/python /verif/findings/C04-nested-value-drops-results.py     exit 1 = defect present
"""
import os
import sys

sys.path.insert(0, os.environ.get('VERIF_REPO', '/repo'))

from circuits import BaseComponent, Event, handler  # noqa: E402
from circuits.core.values import Value  # noqa: E402


class c(Event):
    pass


class inner(Event):
    pass


class App(BaseComponent):
    @handler('c', priority=3)
    def c_one(self):
        return 1

    @handler('c', priority=2)
    def c_nested(self):
        return self.fire(inner())

    @handler('c', priority=1)
    def c_three(self):
        return 3

    @handler('inner')
    def on_inner(self):
        return 'ok'


app = App()
value = app.fire(c())
for _ in range(6):
    app.tick()
held = value.value
print('value:', held)
seq = held if isinstance(held, list) else [held]
seq = [v.value if isinstance(v, Value) else v for v in seq]
if seq != [1, 'ok', 3]:
    print('DEFECT: results of handlers of c are missing from fire(c()).value (demanded: 1, the nested Value / "ok", 3)')
    sys.exit(1)
print('ok: all three results are held, in order')
