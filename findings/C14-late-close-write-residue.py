"""C14 (overlaps C10/C12) reproducer (plain circuits, no harness): socket server / poller tables keep a socket that has disconnected.

The HTTP component answers a malformed request with write(sock, ...) + close(sock) events.  If the peer has gone meanwhile, the
socket server has already run _close(sock) and fired disconnect; the late events then
  * Server.write():  poller.addWriter(sock) -> poller._write / _targets (and, for Poll/EPoll, an exception for fd -1),
                     self._buffers[sock].append(data)  (defaultdict) ;
  * Server.close():  `if not self._buffers[sock]` re-creates the entry, or appends the socket to _closeq;
and nothing ever removes them.  Independently, EPoll never deletes a socket from _map.

Run: /venv/bin/python findings/C14-late-close-write-residue.py     (exit 1 = defect present)
"""
import socket
import sys
sys.path.insert(0, __import__('os').environ.get('VERIF_REPO', '/repo'))

from circuits import Manager
from circuits.core.pollers import EPoll, Poll, Select
from circuits.web import BaseServer
import circuits.web.servers
import circuits.core.helpers
circuits.web.servers.stderr = circuits.core.helpers.stderr = open('/dev/null', 'w')

bad = False
for P in (Select, Poll, EPoll):
    m = Manager()
    poller = P().register(m)
    srv = BaseServer(('127.0.0.1', 0)).register(m)
    m._running = True
    for _ in range(6):
        m.tick(0.01)
    for _ in range(3):
        c = socket.create_connection(('127.0.0.1', srv.port))
        for _ in range(3):
            m.tick(0.01)
        c.sendall(b'GET /\r\n')      # malformed -> 400 + close
        c.close()                    # ... but the peer is gone before they are handled
        for _ in range(12):
            m.tick(0.01)
    s = srv.server
    tables = {'Server._clients': len(s._clients), 'Server._buffers': len(s._buffers), 'Server._closeq': len(s._closeq),
              'poller._read': len(poller._read) - 2, 'poller._write': len(poller._write), 'poller._targets': len(poller._targets) - 2,
              'poller._map': len(getattr(poller, '_map', {})) - 2 if hasattr(poller, '_map') else 0, 'HTTP._buffers': len(srv.http._buffers), 'HTTP._clients': len(srv.http._clients)}
    print('%-6s after 3 connections that are all gone: %r' % (P.__name__, {k: v for k, v in tables.items() if v > 0}))
    bad = bad or any(v > 0 for v in tables.values())
    s._sock.close()
print('DEFECT PRESENT' if bad else 'ok: nothing retained')
sys.exit(1 if bad else 0)
