"""C05/never-completes/cancelled-descendant — standalone reproducer (plain circuits, no framework).

A handler of a complete-requesting event fires two children and cancels one of them before it is dispatched.
Expected by the statement: `foo_complete` is fired once the closure {foo, kept, dropped(cancelled)} has drained.
Observed on the pinned tree: `foo_complete` is never fired (Manager._dispatcher returns at `if event.cancelled: return`
before `_eventDone`, so `foo.effects` is never decremented for the cancelled child).
Second part: the same shape below `prepare_unregister` blocks `unregister()` for ever.

Run: /venv/bin/python /verif/findings/C05-cancelled-descendant.py   (exit 1 = defect reproduced, 0 = not reproduced)
"""
import os
import sys

sys.path.insert(0, os.environ.get('VERIF_REPO', '/repo'))
from circuits import BaseComponent, Component, Event, handler  # noqa: E402

log = []


class foo(Event):
    complete = True


class kept(Event):
    pass


class dropped(Event):
    pass


class App(Component):
    def foo(self):
        log.append('foo')
        self.fire(kept())
        e = dropped()
        self.fire(e)
        e.cancel()

    def kept(self):
        log.append('kept')

    def dropped(self):
        log.append('dropped (must not happen)')

    def foo_complete(self, e, value):
        log.append('foo_complete')


app = App()
app.fire(foo())
for _ in range(50):
    app.tick()
print('log after 50 ticks:', log)
bad1 = log.count('foo_complete') != 1


class Watcher(BaseComponent):
    @handler('prepare_unregister')
    def _on_prepare(self, event, c):
        e = dropped()
        self.fire(e)
        e.cancel()


root = BaseComponent()
Watcher().register(root)
leaf = BaseComponent().register(root)
while len(root):
    root.flush()
leaf.unregister()
for _ in range(50):
    root.tick()
print('leaf still attached 50 ticks after unregister():', leaf.parent is root, ' unregister_pending:', leaf.unregister_pending)
bad2 = leaf.parent is root
print('DEFECT REPRODUCED' if (bad1 or bad2) else 'not reproduced')
sys.exit(1 if (bad1 or bad2) else 0)
