"""C14 reproducer (plain circuits, no harness): one request makes the server spin on its own events for ever.

The HTTP parser decodes header bytes with `unicode_escape`, so `Cookie: a="\\u20ac"` becomes a cookie holding a character outside
latin-1; the response echoes the request's cookies as Set-Cookie, `bytes(headers)` raises in HTTP._on_response, and BOTH the
`exception` handler and the `response_failure` handler answer with a new 500 response - which carries the same cookie and fails the
same way.  Every round doubles the number of queued events: the request is never answered, the connection is never closed, and
the event loop (still "running") no longer gets round to any other connection.  Any other header value the application sets that
cannot be encoded has the same effect.

Run: /venv/bin/python findings/C14-unwritable-response-retried-for-ever.py     (exit 1 = defect present)
"""
import socket
import sys
sys.path.insert(0, __import__('os').environ.get('VERIF_REPO', '/repo'))

from circuits import Component, Manager
from circuits.web import BaseServer
import circuits.web.servers
circuits.web.servers.stderr = open('/dev/null', 'w')


class Probe(Component):
    channel = 'web'

    def request(self, req, res):
        return 'ok'


m = Manager()
srv = BaseServer(('127.0.0.1', 0)).register(m)
Probe().register(m)
m._running = True
for _ in range(6):
    m.tick(0.01)
c = socket.create_connection(('127.0.0.1', srv.port))
c.settimeout(0.01)
for _ in range(4):
    m.tick(0.01)
c.sendall(b'GET / HTTP/1.1\r\nHost: h\r\nCookie: a="\\u20ac"\r\n\r\n')
got, closed, qlen = b'', False, []
for _ in range(30):
    m.tick(0.01)
    qlen.append(len(m._queue))
    try:
        d = c.recv(65536)
        closed = closed or d == b''
        got += d
    except OSError:
        pass
print('events queued after each of 30 loop iterations:', qlen)
print('answer:', got[:60], '; connection closed by the server:', closed)
bad = qlen[-1] > 50
print('DEFECT PRESENT: the server multiplies its own events and never answers' if bad else 'ok: the loop comes to rest (answered or closed)')
sys.exit(1 if bad else 0)
