"""C01 finding C01/every-matching-handler/inherited/shadowed-handler-of-indirect-base - standalone reproducer (plain circuits).

handler() docstring: "If you want to override a handler defined in a base class of your component, you must specify
override=True, else your method becomes an additional handler for the event."  BaseComponent.__new__ implements the
"additional handler" part by binding the handlers found in the __dict__ of the *direct* bases (cls.__bases__) only.
A handler of an indirect base whose method name is defined again further down (without override=True) is therefore
attached for instances of the class that shadows it, but silently lost for every class derived from that one:
`class C(B): pass` does not have the handlers B has.

usage: python findings/C01-inherited-handler-lost-indirect-base.py [repo]     exit 1 = defect present, 0 = absent
"""
import sys

sys.path.insert(0, sys.argv[1] if len(sys.argv) > 1 else '/repo')
from circuits import BaseComponent, Event, handler  # noqa: E402

log = []


class foo(Event):
    pass


class A(BaseComponent):
    @handler('foo')
    def h(self, event):
        log.append('A.h')


class B(A):
    @handler('foo')                 # no override=True: an additional handler, A.h stays
    def h(self, event):
        log.append('B.h')


class C(B):                         # adds nothing: must behave like B
    pass


class D(A):
    pass


class E(D):
    @handler('foo')                 # no override=True; A is an indirect base of E
    def h(self, event):
        log.append('E.h')


bad = 0
for cls, want in ((B, ['A.h', 'B.h']), (C, ['A.h', 'B.h']), (E, ['A.h', 'E.h'])):
    x = cls()
    x.fire(foo())
    x.flush()
    ok = sorted(log) == want
    print('%s(): foo delivered to %r, expected %r%s' % (cls.__name__, sorted(log), want, '' if ok else '   <-- DEFECT'))
    bad |= not ok
    log.clear()
sys.exit(1 if bad else 0)
