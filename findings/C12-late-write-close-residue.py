"""C12 reproducer (plain circuits, no framework): state kept for a socket after its disconnect.

  (a) EPoll keeps the closed socket in `_map` after an ordinary disconnect (EPoll._updateRegistration never deletes when mask == 0);
  (b) a LATE write(sock, data) - sock already disconnected - leaves `_buffers[sock]` (Select) or `_write`/`_targets` entries plus a
      ValueError('file descriptor cannot be a negative integer') exception event (Poll, EPoll);
  (c) a LATE close(sock) creates `_buffers[sock]` through the defaultdict lookup (all pollers).

Run: /venv/bin/python findings/C12-late-write-close-residue.py      (exit 1 = defect present)
"""
import os
import socket
import sys

sys.path.insert(0, os.environ.get('VERIF_REPO', '/repo'))
from circuits import Component, Manager, handler  # noqa: E402
from circuits.core.pollers import EPoll, Poll, Select  # noqa: E402
from circuits.net.events import close, write  # noqa: E402
from circuits.net.sockets import UNIXServer  # noqa: E402

bad = 0


def holders(srv, p, s):
    out = []
    for owner, obj, names in (('server', srv, ('_clients', '_buffers', '_closeq')), (type(p).__name__, p, ('_read', '_write', '_targets', '_map'))):
        for name in names:
            t = getattr(obj, name, None)
            if t is None:
                continue
            vals = list(t.values()) + list(t.keys()) if isinstance(t, dict) else list(t)
            if any(v is s for v in vals):
                out.append('%s.%s' % (owner, name))
    return out


for P in (Select, Poll, EPoll):
    log = []

    class Obs(Component):
        channel = 'server'

        def connect(self, sock, *a):
            log.append('connect')

        def read(self, sock, data):
            log.append('read %r' % data)

        def disconnect(self, sock):
            log.append('disconnect')

        @handler('exception', channel='*')
        def _exc(self, etype, value, *a, **k):
            log.append('exception %s: %s' % (etype.__name__, value))

    m = Manager()
    p = P().register(m)
    path = '\0c12-repro-%d-%s' % (os.getpid(), P.__name__)
    srv = UNIXServer(path).register(m)
    Obs().register(m)
    m._running = True

    def ticks(n=8):
        for _ in range(n):
            m.tick(0)

    ticks()
    c = socket.socket(socket.AF_UNIX)
    c.connect(path)
    ticks()
    c.send(b'hello')
    ticks()
    s = srv._clients[0]
    c.close()
    ticks()
    print('%-6s stream: %s' % (P.__name__, log))
    h = holders(srv, p, s)
    print('       after disconnect the socket is still held by: %s' % (h or 'nothing'))
    bad += bool(h)
    del log[:]
    m.fire(write(s, b'late'), 'server')
    ticks()
    h2 = [x for x in holders(srv, p, s) if x not in h]
    print('       after a late write additionally: %s %s' % (h2 or 'nothing', log))
    bad += bool(h2)
    del log[:]
    m.fire(close(s), 'server')
    ticks()
    h3 = [x for x in holders(srv, p, s) if x not in h and x not in h2]
    print('       after a late close additionally: %s %s' % (h3 or 'nothing', log))
    bad += bool(h3)
print('DEFECT PRESENT' if bad else 'ok')
sys.exit(1 if bad else 0)
