"""C19/hostile/dispatcher-attribute-overwritten/cause-effects - standalone reproducer (plain circuits, no framework, no sockets).

load_event copies every meta key that is not in META_EXCLUDE onto the event.  META_EXCLUDE is built from dir(Event()), which lacks the
attributes the dispatcher creates on demand: `cause`, `effects`, `complete_channels`.  A peer that sends meta {"cause": 1} makes
Manager._effectDone run `event.effects -= 1` on an event without `effects`: AttributeError outside any try block, it leaves flush()/tick()
and ends Manager.run() ("Unhandled ERROR").  One packet stops the node.

Run: /venv/bin/python /verif/findings/C19-meta-cause-stops-loop.py   (exit 1 = defect reproduced, 0 = not reproduced)
"""
import os
import sys
import traceback

sys.path.insert(0, os.environ.get('VERIF_REPO', '/repo'))
from circuits import Component  # noqa: E402
from circuits.node.protocol import Protocol  # noqa: E402

seen = []


class App(Component):
    def hello(self, event):
        seen.append(('cause' in vars(event), getattr(event, 'cause', None)))

    def write(self, data):
        pass


app = App()
proto = Protocol().register(app)
while len(app):
    app.flush()
packet = b'{"id": 0, "name": "hello", "args": [], "kwargs": {}, "success": false, "failure": false, "channels": ["*"], "notify": false, "meta": {"cause": 1}}~~~'
proto.add_buffer(packet)
crashed = None
try:
    for _ in range(5):
        app.tick()
except Exception as exc:  # noqa: BLE001
    crashed = exc
    traceback.print_exc(limit=-2)
print('handler saw a peer-supplied `cause` attribute:', seen)
print('exception escaped tick():', repr(crashed))
bad = crashed is not None or any(s[0] for s in seen)
print('DEFECT REPRODUCED' if bad else 'not reproduced')
sys.exit(1 if bad else 0)
