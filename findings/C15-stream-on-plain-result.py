"""C15/leftover/<str|bytes|list|genret>+stream — standalone reproducer (plain circuits, real loopback TCP, no framework).

A handler switches streaming on and RETURNS its result (`self.response.stream = True; return 'abc'`; also bytes, a list, and a
generator that is returned: the coroutine machinery of the Manager runs a returned generator to its end and hands the list of
what it yielded to HTTP._on_request_success).  The response body is then a plain list.  Response.prepare() announces
`Content-Length: 3`, HTTP._on_response writes the status line and the header section and then takes the streaming branch
(`res.stream and res.body`), which calls `next()` on the list: TypeError.  The failure is answered with a complete
`HTTP/1.1 500 Internal Server Error` response written right behind the header section of the 200.  An independent client reads
`HTT` (the first Content-Length bytes of the status line of the 500) as the body and finds garbage where the next response
should start.

Run: /venv/bin/python /verif/findings/C15-stream-on-plain-result.py   (exit 1 = defect reproduced, 0 = not reproduced)
"""
import os
import socket
import sys
import time

sys.path.insert(0, os.environ.get('VERIF_REPO', '/repo'))
import http.client  # noqa: E402
import io  # noqa: E402

from circuits.web import Controller, Server  # noqa: E402


class Root(Controller):
    def str(self):
        self.response.stream = True
        return 'abc'

    def bytes(self):
        self.response.stream = True
        return b'abc'

    def list(self):
        self.response.stream = True
        return ['a', b'b', '', 'c']

    def gen(self):
        self.response.stream = True
        return (c for c in ['a', 'b', 'c'])


def start(server):
    server.start()
    deadline = time.time() + 10
    while not server.port and time.time() < deadline:
        time.sleep(0.05)
    time.sleep(0.2)


def exchange(sock, request, wait=1.0):
    """send, then read until the server closes or nothing arrives for `wait` seconds"""
    sock.sendall(request)
    sock.settimeout(wait)
    data, eof = b'', False
    try:
        while True:
            d = sock.recv(65536)
            if not d:
                eof = True
                break
            data += d
    except socket.timeout:
        pass
    return data, eof


class FakeSock:
    def __init__(self, data):
        self.data = data

    def makefile(self, *a, **k):
        return io.BytesIO(self.data)


server = Server(('127.0.0.1', 0))
Root().register(server)
start(server)
bad = False
for path in ('str', 'bytes', 'list', 'gen'):
    s = socket.create_connection(('127.0.0.1', server.port))
    data, eof = exchange(s, b'GET /%s HTTP/1.1\r\nHost: x\r\n\r\n' % path.encode())
    s.close()
    r = http.client.HTTPResponse(FakeSock(data), method='GET')
    r.begin()
    body = r.read()
    consumed = data.find(b'\r\n\r\n') + 4 + len(body)
    rest = data[consumed:]
    print('GET /%s: status %d, Content-Length %s, body %r (the application produced b\'abc\'); %d bytes follow the response%s' % (
        path, r.status, r.getheader('Content-Length'), body, len(rest), ': %r ...' % rest[:50] if rest else ''))
    if (r.status, body, rest) != (200, b'abc', b''):
        bad = True
server.stop()
print('DEFECT REPRODUCED' if bad else 'not reproduced')
sys.exit(1 if bad else 0)
