"""HTTP/1.x message grammar and strict reference parsers shared by C13 and C14 (harness code, independent of circuits).

* `gen_request(ch, ...)` / `gen_response(ch, ...)`: well-formed messages drawn from the tape, built from labelled parts so that every
  byte knows its parser phase (first line, header block, end of headers, body, chunk size line, chunk data, chunk end, last chunk,
  trailer section).  `Msg.cut_class(off)` names the phase pair of a cut between byte off-1 and byte off; `cut_plan(ch, msg, ...)`
  draws a segmentation (one cut, k cuts, cuts at +-1 around every CR/LF and chunk boundary, stride, byte-at-a-time).
* `parse_request(buf)` / `parse_responses(buf, ...)`: strict parsers written from RFC 7230 (token / field / chunked grammar; no leniency):
  they tell the simulated server when the client's request is complete, validate every generated message (conformance of the
  grammar), validate the must-reject labels of C14's mutation operators, and judge the bytes circuits writes.
* `second_opinion(buf, n)`: http.client.HTTPResponse over the same bytes.

The simplest value of every draw gives the plainest message (GET / HTTP/1.1, Host only, no body).
"""
import http.client
import io
import re

CR, LF = 13, 10
CRLF = b'\r\n'

# ---------------------------------------------------------------------------------------------------------------------------
# labelled messages

# part labels: L first line, H header line (content), E end of header block, B body, S chunk-size line, D chunk data,
#              Z last-chunk line, T trailer line, F final CRLF; suffix r / n = the CR / LF that ends the line
PHASE = {'L': 'firstline', 'Lr': 'firstline', 'Ln': 'firstline', 'H': 'headers', 'Hr': 'headers', 'Hn': 'headers',
         'Er': 'headers-end', 'En': 'headers-end', 'B': 'body', 'S': 'chunk-size', 'Sr': 'chunk-size', 'Sn': 'chunk-size',
         'D': 'chunk-data', 'Dr': 'chunk-end', 'Dn': 'chunk-end', 'Z': 'last-chunk', 'Zr': 'last-chunk', 'Zn': 'last-chunk',
         'T': 'trailers', 'Tr': 'trailers', 'Tn': 'trailers', 'Fr': 'trailers', 'Fn': 'trailers'}


def byte_class(b):
    if b == CR:
        return 'CR'
    if b == LF:
        return 'LF'
    if b in (32, 9):
        return 'SP'
    if b in b':;=,':
        return 'PUNCT'
    if 48 <= b <= 57:
        return 'DIGIT'
    if b < 32 or b >= 127:
        return 'BIN'
    return 'CHAR'


class Msg:
    """A message as a list of (label, bytes) parts plus what the grammar knows about it."""

    def __init__(self, kind):
        self.kind = kind            # 'request' | 'response'
        self.parts = []
        self.raw = b''
        self.labels = []            # label of every byte
        self.info = {}              # grammar-level facts (method, target, version, framing, keepalive, status, body ...)
        self.variants = []          # same-length byte substitutions that give the canonical spelling: (name, offset, bytes)
        self.until_close = False

    def add(self, label, data):
        if data:
            self.parts.append((label, data))

    def line(self, label, data):
        """content + CRLF; CRLFs inside `data` (folded header lines) are labelled as line ends too."""
        segs = data.split(CRLF)
        for i, s in enumerate(segs):
            self.add(label, s)
            self.add(label + 'r', b'\r')
            self.add(label + 'n', b'\n')

    def finish(self):
        self.raw = b''.join(d for _, d in self.parts)
        self.labels = [lab for lab, d in self.parts for _ in d]
        return self

    def variant(self, name, canonical):
        """the bytes just added as the last part spell `canonical` differently (same length)."""
        lab, data = self.parts[-1]
        assert len(canonical) == len(data)
        off = sum(len(d) for _, d in self.parts[:-1])
        self.variants.append((name, off, canonical))

    def normalised(self, name):
        """copy of the message with variant `name` replaced by its canonical spelling (same length, same labels)."""
        m = Msg(self.kind)
        raw = bytearray(self.raw)
        for n, off, canon in self.variants:
            if n == name:
                raw[off:off + len(canon)] = canon
        m.raw, m.labels, m.parts, m.info, m.until_close = bytes(raw), self.labels, self.parts, self.info, self.until_close
        m.variants = [v for v in self.variants if v[0] != name]
        return m

    # ---- cuts
    def cut_class(self, off):
        """name of the parser-phase pair of a cut between byte off-1 and byte off (0 < off < len)."""
        a, b = self.labels[off - 1], self.labels[off]
        pa, pb = PHASE[a], PHASE[b]
        if pb == 'trailers':
            return 'after-last-chunk'          # anywhere behind the last-chunk line: trailer section and the final CRLF
        if pa == pb:
            if a.endswith('r') and b.endswith('n') and a[:-1] == b[:-1]:
                return pa + '-CR|LF'
            return 'in-' + pa
        return pa + '|' + pb

    def cut_state(self, off):
        return (self.kind, self.labels[off - 1], self.labels[off], byte_class(self.raw[off - 1]), byte_class(self.raw[off]))

    def boundaries(self):
        """offsets next to every CR / LF and at every change of label (chunk boundaries included)."""
        raw, lab = self.raw, self.labels
        return [i for i in range(1, len(raw)) if raw[i] in (CR, LF) or raw[i - 1] in (CR, LF) or lab[i] != lab[i - 1]]

    def class_representatives(self):
        """first offset of every cut class, in message order."""
        seen, out = set(), []
        for off in range(1, len(self.raw)):
            c = self.cut_class(off)
            if c not in seen:
                seen.add(c)
                out.append((off, c))
        return out


def body_bytes(n, flavour):
    """n deterministic body bytes: 0 plain text, 1 text full of CRLF / chunk-like / header-like fragments, 2 binary."""
    if flavour == 0:
        pat = b'hello world, '
    elif flavour == 1:
        pat = b'a\r\nb\r\n\r\n0\r\n\r\n5\r\nGET / HTTP/1.1\r\nX: y\r\n\r'
    else:
        pat = bytes((i * 37 + 11) % 256 for i in range(64))
    return (pat * (n // len(pat) + 1))[:n]


SEGS = ['a', 'b1', 'index.html', 'x-y_z~', 'a%20b', '%41b', 'caf%C3%A9', 'v1.0', 'long' * 12]
QUERIES = ['', 'x=1', 'a=1&b=2', 'q=%20+z&e=', 'k', 'a=b=c&d=%3F', 'n=' + '7' * 40]
HOSTS = ['h', 'example.com', 'example.com:8080', '10.0.0.1']
REQ_HEADERS = [
    ['X-A: 1'], ['Accept: */*'], ['User-Agent: sim/1.0 (x; y) z/2'], ['Cookie: a=b; c=d'], ['X-Empty:'], ['X-Sp:   padded value  '],
    ['X-Fold: part1', ' part2', '\tpart3'], ['X-Dup: 1', 'X-Dup: 2'], ['x-lower: v'], ['X-Colon: a:b:c'], ['X-Long: ' + 'v' * 300],
    ['Accept-Language: en, de;q=0.5'], ['X-Fold2: a', '  b'], ['Content-Type: text/plain'],
    ['Upgrade: h2c', 'Connection: Upgrade, HTTP2-Settings', 'HTTP2-Settings: AAMAAABkAARAAAAAAAIAAAAA'],      # what curl --http2 sends with every plain request
]
RES_HEADERS = [
    ['Content-Type: text/plain'], ['Server: sim/1.0'], ['X-A: 1'], ['Set-Cookie: a=b', 'Set-Cookie: c=d; Path=/'], ['X-Empty:'],
    ['X-Fold: part1', ' part2'], ['X-Long: ' + 'v' * 200], ['Date: Tue, 14 Nov 2023 22:13:20 GMT'], ['x-lower: v'], ['Cache-Control: no-cache, no-store'],
    ['Upgrade: h2,h2c', 'Connection: Upgrade'],      # an upgrade OFFER on an ordinary response (Apache with mod_http2 adds it to plain responses)
]
CHUNK_SIZES = [5, 1, 2, 10, 16, 17, 40, 255, 300]
CHUNK_EXTS = ['', '', ';x', ';ext=1', ';a=b;c="d e"']
TRAILERS = ['X-T: 1', 'X-Checksum: abc123']
CLENS = [5, 0, 1, 2, 16, 100, 1000, 5000]
STATUSES = [(200, 'OK'), (404, 'Not Found'), (204, 'No Content'), (304, 'Not Modified'), (201, 'Created'), (500, 'Internal Server Error'),
            (301, 'Moved Permanently'), (503, 'Service Unavailable'), (202, 'Accepted')]


def _hex(n, style):
    s = '%x' % n
    if style == 1:
        s = s.upper()
    elif style == 2:
        s = '0' + s
    elif style == 3:
        s = '00' + s.upper()
    return s


def _body(ch, m, framing, te_variant_ok=True):
    """append the body for `framing` to message m (after the header block); returns the decoded body bytes."""
    flavour = ch.weighted([3, 2, 1], 'body-flavour')
    if framing == 'clen' or framing == 'close':
        n = m.info['clen']
        data = body_bytes(n, flavour)
        m.add('B', data)
        return data
    if framing == 'chunked':
        out = b''
        for _ in range(ch.randint(1, 4, 'nchunks')):
            n = ch.choice(CHUNK_SIZES, 'chunk-size')
            data = body_bytes(n, flavour)
            m.line('S', (_hex(n, ch.draw(4, 'hex-style')) + ch.choice(CHUNK_EXTS, 'chunk-ext')).encode())
            m.add('D', data)
            m.add('Dr', b'\r')
            m.add('Dn', b'\n')
            out += data
        m.line('Z', ch.choice(['0', '0', '00', '0;end=1'], 'last-chunk').encode())
        for _ in range(ch.weighted([3, 1, 1], 'ntrailers')):
            m.line('T', ch.choice(TRAILERS, 'trailer').encode())
        m.add('Fr', b'\r')
        m.add('Fn', b'\n')
        return out
    return b''


def _framing_headers(ch, m, framing, variants):
    """header lines announcing the body framing; a differently-cased 'chunked' is a same-length variant."""
    lines = []
    if framing == 'clen':
        n = ch.choice(CLENS, 'clen')
        m.info['clen'] = n
        lines.append(('Content-Length: %d' % n, None))
    elif framing == 'chunked':
        spell = 'chunked'
        if variants and ch.chance(1, 12, 'te-case'):
            spell = ch.choice(['Chunked', 'CHUNKED'], 'te-spelling')
        lines.append(('Transfer-Encoding: ', spell))
    return lines


def _emit_headers(ch, m, groups, framing_lines):
    """write header groups (each a list of raw lines, continuation lines start with SP/HT) in a drawn order."""
    items = [('g', g) for g in groups] + [('f', f) for f in framing_lines]
    for kind, it in ch.permute(items, 'header-order'):
        if kind == 'g':
            # a group may be several lines; folded lines stay adjacent
            m.line('H', CRLF.join(x.encode('latin1') for x in it))
        else:
            head, spell = it
            if spell is None:
                m.line('H', head.encode())
            else:
                m.add('H', head.encode())
                m.add('H', spell.encode())
                if spell != 'chunked':
                    m.variant('te-case', b'chunked')
                m.add('Hr', b'\r')
                m.add('Hn', b'\n')
    m.add('Er', b'\r')
    m.add('En', b'\n')


def gen_request(ch, keepalive=None, allow_head=False, variants=True, max_extra=4, framing=None):
    """A well-formed request.  keepalive: True / False forces what the request asks for, None draws it; framing forces the body kind."""
    m = Msg('request')
    version = '1.1' if ch.weighted([3, 1], 'version') == 0 else '1.0'
    if framing is None:
        framing = ['none', 'clen', 'chunked'][ch.weighted([2, 2, 2], 'framing')]
        if framing == 'chunked' and version == '1.0':
            framing = 'clen'                  # chunked is an HTTP/1.1 transfer coding
    elif framing == 'chunked':
        version = '1.1'
    if framing == 'none':
        method = ch.choice(['GET', 'DELETE', 'OPTIONS', 'GET', 'HEAD'] if allow_head else ['GET', 'DELETE', 'OPTIONS'], 'method')
    else:
        method = ch.choice(['POST', 'PUT', 'PATCH', 'DELETE'], 'method')
    path = '/' + '/'.join(ch.choice(SEGS, 'seg') for _ in range(ch.weighted([2, 3, 2, 1], 'nseg')))
    if len(path) > 1 and ch.chance(1, 4, 'trailing-slash'):
        path += '/'
    qs = ch.choice(QUERIES, 'query')
    target = path + ('?' + qs if qs else ('?' if ch.chance(1, 16, 'bare-qmark') else ''))
    if ch.chance(1, 12, 'absolute-form'):
        target = 'http://origin.example' + target
    if keepalive is None:
        keepalive = not ch.chance(1, 3, 'want-close')
    m.info.update(method=method, target=target, path=path, qs=qs, version=version, framing=framing, keepalive=keepalive)
    m.line('L', ('%s %s HTTP/%s' % (method, target, version)).encode('latin1'))
    groups = []
    if version == '1.1' or ch.chance(1, 2, 'host-on-1.0'):
        groups.append(['Host: ' + ch.choice(HOSTS, 'host')])
    if version == '1.1':
        if not keepalive:
            groups.append(['Connection: close'])
        elif ch.chance(1, 4, 'explicit-keepalive'):
            groups.append(['Connection: keep-alive'])
    else:
        if keepalive:
            groups.append(['Connection: ' + ch.choice(['keep-alive', 'Keep-Alive'], 'ka-spelling')])
        elif ch.chance(1, 4, 'explicit-close'):
            groups.append(['Connection: close'])
    pool = list(REQ_HEADERS)
    for _ in range(ch.randint(0, max_extra, 'nextra')):
        groups.append(pool.pop(ch.draw(len(pool), 'extra-header')))
    _emit_headers(ch, m, groups, _framing_headers(ch, m, framing, variants))
    m.info['body'] = _body(ch, m, framing)
    return m.finish()


def gen_response(ch, keepalive=None, variants=True, max_extra=3):
    """A well-formed response to a GET: status line, headers, body framed by Content-Length / chunked / close, or none (204, 304)."""
    m = Msg('response')
    version = '1.1' if ch.weighted([3, 1], 'version') == 0 else '1.0'
    code, reason = STATUSES[ch.weighted([6, 2, 2, 2, 1, 1, 1, 1, 1], 'status')]
    if code in (204, 304):
        framing = 'none'
    else:
        framing = ['clen', 'chunked', 'close'][ch.weighted([3, 3, 1], 'framing')]
        if framing == 'chunked' and version == '1.0':
            framing = 'clen'
    if keepalive is None:
        keepalive = not ch.chance(1, 3, 'want-close')
    if framing == 'close':
        keepalive = False
    m.until_close = framing == 'close'
    m.info.update(status=code, reason=reason, version=version, framing=framing, keepalive=keepalive)
    m.line('L', ('HTTP/%s %d %s' % (version, code, reason)).encode())
    groups = []
    if version == '1.1':
        if not keepalive and (framing != 'close' or ch.chance(1, 2, 'explicit-close')):
            groups.append(['Connection: close'])
    elif keepalive:
        groups.append(['Connection: keep-alive'])
    pool = list(RES_HEADERS)
    for _ in range(ch.randint(0, max_extra, 'nextra')):
        groups.append(pool.pop(ch.draw(len(pool), 'extra-header')))
    fl = []
    if framing == 'none':
        if ch.chance(1, 2, 'clen0-on-bodiless'):
            fl.append(('Content-Length: 0', None))
    elif framing == 'close':
        m.info['clen'] = ch.choice(CLENS, 'clen')
    else:
        fl = _framing_headers(ch, m, framing, variants)
    _emit_headers(ch, m, groups, fl)
    m.info['body'] = _body(ch, m, framing)
    return m.finish()


PLAN_KINDS = ['one-uniform', 'one-boundary', 'k-cuts', 'all-boundaries', 'byte-at-a-time', 'stride']


def cut_plan(ch, msg, avoid_classes=frozenset(), max_segments=400):
    """A segmentation of msg.raw as a sorted list of cut offsets (0 < off < len); cuts whose class is avoided are dropped."""
    n = len(msg.raw)
    if n < 2:
        return 'none', []
    kind = PLAN_KINDS[ch.weighted([3, 4, 3, 2, 2, 1], 'plan')]
    bnd = msg.boundaries() or [1]

    def biased():
        off = ch.choice(bnd, 'boundary') + ch.choice([0, -1, 1], 'around')
        return min(max(off, 1), n - 1)

    if kind == 'one-uniform':
        cuts = {1 + ch.draw(n - 1, 'cut')}
    elif kind == 'one-boundary':
        cuts = {biased()}
    elif kind == 'k-cuts':
        cuts = set()
        for _ in range(ch.randint(2, 6, 'k')):
            cuts.add(biased() if ch.chance(2, 3, 'biased') else 1 + ch.draw(n - 1, 'cut'))
    elif kind == 'all-boundaries':
        cuts = set()
        for b in bnd:
            cuts.update(x for x in (b - 1, b, b + 1) if 0 < x < n)
    elif kind == 'byte-at-a-time':
        cuts = set(range(1, n))
    else:
        s = ch.randint(2, 9, 'stride')
        cuts = set(range(ch.randint(1, s, 'phase'), n, s))
    cuts = sorted(c for c in cuts if msg.cut_class(c) not in avoid_classes)
    if len(cuts) > max_segments:
        # keep the plan cheap: outside the structured parts (long bodies / long header values) thin the cuts out
        keep = set(cuts[:max_segments // 2])
        bset = set(bnd)
        keep.update(c for c in cuts if c in bset or c - 1 in bset or c + 1 in bset)
        cuts = sorted(keep)[:max_segments * 2]
    return kind, cuts


# ---------------------------------------------------------------------------------------------------------------------------
# strict reference parsers (RFC 7230)

TOKEN = r"[!#$%&'*+\-.^_`|~0-9A-Za-z]+"
REQLINE_RE = re.compile((r'(%s) ([\x21-\x7e]+) HTTP/(\d)\.(\d)$' % TOKEN).encode())
STATUSLINE_RE = re.compile(rb'HTTP/(\d)\.(\d) (\d{3}) ([\t \x21-\x7e\x80-\xff]*)$')
FIELD_RE = re.compile((r'(%s):[ \t]*((?:[\x21-\x7e\x80-\xff](?:[ \t\x21-\x7e\x80-\xff]*[\x21-\x7e\x80-\xff])?)?)[ \t]*$' % TOKEN).encode())
CHUNKLINE_RE = re.compile((r'([0-9A-Fa-f]+)((?:[ \t]*;[ \t]*%s(?:=(?:%s|"[^"\r\n]*"))?)*)$' % (TOKEN, TOKEN)).encode())


class Bad(Exception):
    """the bytes are not a well-formed message"""


class Parsed:
    def __init__(self):
        self.first = None       # (method, target, version) or (version, status, reason)
        self.headers = []       # [(name, value)] in order, folded lines joined with single SP
        self.body = b''
        self.trailers = []
        self.framing = 'none'
        self.consumed = 0

    def get_all(self, name):
        name = name.lower()
        return [v for k, v in self.headers if k.lower() == name]

    def get(self, name, default=None):
        v = self.get_all(name)
        return v[0] if v else default


def _head(buf, first_re, what):
    """parse first line + header block; returns (Parsed, offset of the body) or None if incomplete; raises Bad."""
    end = buf.find(b'\r\n\r\n')
    first_end = buf.find(CRLF)
    if first_end >= 0:
        if not first_re.match(buf[:first_end]):
            raise Bad('malformed %s: %r' % (what, buf[:first_end][:80]))
    elif b'\n' in buf or len(buf) > 65536:
        raise Bad('bare LF or oversized first line')
    if end < 0:
        if first_end >= 0 and buf[first_end + 2:first_end + 4] == CRLF:
            end = first_end          # no header fields at all
        else:
            return None
    p = Parsed()
    p.first = first_re.match(buf[:first_end]).groups()
    lines = buf[first_end + 2:end].split(CRLF) if end > first_end else []
    cur = None
    for ln in lines:
        if ln[:1] in (b' ', b'\t'):
            if cur is None:
                raise Bad('continuation line without a field')
            if not re.match(rb'^[ \t\x21-\x7e\x80-\xff]*$', ln):
                raise Bad('control character in a folded line')
            cur[1] = (cur[1] + b' ' + ln.strip(b' \t')).strip(b' \t')
            continue
        mt = FIELD_RE.match(ln)
        if not mt:
            raise Bad('malformed header field: %r' % ln[:80])
        cur = [mt.group(1), mt.group(2)]
        p.headers.append(cur)
    p.headers = [(k.decode('latin1'), v.decode('latin1')) for k, v in p.headers]
    return p, (end + 4 if end > first_end else first_end + 4)


def _framing(p, is_response, status=None, req_method=None):
    cls = p.get_all('Content-Length')
    tes = p.get_all('Transfer-Encoding')
    if is_response and (req_method == 'HEAD' or status in (204, 304) or 100 <= (status or 200) < 200):
        return 'none', 0
    if tes:
        codings = [c.strip().lower() for v in tes for c in v.split(',')]
        if cls:
            raise Bad('both Content-Length and Transfer-Encoding')
        if codings[-1] != 'chunked':
            if is_response:
                return 'close', None
            raise Bad('request Transfer-Encoding does not end in chunked')
        if codings != ['chunked']:
            raise Bad('unsupported transfer coding %r' % (codings,))
        return 'chunked', None
    if cls:
        vals = {v for x in cls for v in (y.strip() for y in x.split(','))}
        if len(vals) != 1:
            raise Bad('conflicting Content-Length %r' % (cls,))
        v = vals.pop()
        if not re.match(r'^[0-9]+$', v):
            raise Bad('non-numeric Content-Length %r' % v)
        return 'clen', int(v)
    return ('close', None) if is_response else ('none', 0)


def _chunked(buf, pos, p):
    """returns end offset or None if incomplete; appends to p.body / p.trailers."""
    body = b''
    while True:
        e = buf.find(CRLF, pos)
        if e < 0:
            if b'\n' in buf[pos:] or len(buf) - pos > 4096:
                raise Bad('malformed chunk-size line')
            return None
        mt = CHUNKLINE_RE.match(buf[pos:e])
        if not mt:
            raise Bad('malformed chunk-size line %r' % buf[pos:e][:60])
        n = int(mt.group(1), 16)
        pos = e + 2
        if n == 0:
            break
        if len(buf) < pos + n + 2:
            if len(buf) > pos + n and buf[pos + n:pos + n + 2] not in (b'\r', b'\r\n'):
                raise Bad('chunk data not followed by CRLF')
            return None
        if buf[pos + n:pos + n + 2] != CRLF:
            raise Bad('chunk data not followed by CRLF')
        body += buf[pos:pos + n]
        pos += n + 2
    while True:
        e = buf.find(CRLF, pos)
        if e < 0:
            if b'\n' in buf[pos:]:
                raise Bad('bare LF in trailer section')
            return None
        if e == pos:
            p.body = body
            return pos + 2
        mt = FIELD_RE.match(buf[pos:e])
        if not mt:
            raise Bad('malformed trailer field %r' % buf[pos:e][:60])
        p.trailers.append((mt.group(1).decode('latin1'), mt.group(2).decode('latin1')))
        pos = e + 2


def parse_request(buf):
    """Strict: returns Parsed (with .consumed) for a complete request at the start of buf, None if more bytes are needed; raises Bad."""
    buf = bytes(buf)
    r = _head(buf, REQLINE_RE, 'request line')
    if r is None:
        return None
    p, pos = r
    method, target, maj, mnr = p.first
    p.first = (method.decode(), target.decode('latin1'), (int(maj), int(mnr)))
    if p.first[2][0] != 1:
        raise Bad('unsupported HTTP major version')
    if p.first[2] >= (1, 1) and len(p.get_all('Host')) != 1:
        raise Bad('HTTP/1.1 request without exactly one Host field')
    p.framing, n = _framing(p, False)
    if p.framing == 'clen':
        if len(buf) < pos + n:
            return None
        p.body = buf[pos:pos + n]
        p.consumed = pos + n
    elif p.framing == 'chunked':
        e = _chunked(buf, pos, p)
        if e is None:
            return None
        p.consumed = e
    else:
        p.consumed = pos
    return p


def parse_response(buf, eof=False, req_method='GET'):
    """Strict: one response at the start of buf. Returns Parsed, or None if incomplete (with eof=True a close-delimited body ends at
    the end of buf); raises Bad."""
    buf = bytes(buf)
    r = _head(buf, STATUSLINE_RE, 'status line')
    if r is None:
        return None
    p, pos = r
    maj, mnr, code, reason = p.first
    p.first = ((int(maj), int(mnr)), int(code), reason.decode('latin1'))
    p.framing, n = _framing(p, True, int(code), req_method)
    if p.framing == 'none':
        p.consumed = pos
    elif p.framing == 'clen':
        if len(buf) < pos + n:
            return None
        p.body = buf[pos:pos + n]
        p.consumed = pos + n
    elif p.framing == 'chunked':
        e = _chunked(buf, pos, p)
        if e is None:
            return None
        p.consumed = e
    else:
        if not eof:
            return None
        p.body = buf[pos:]
        p.consumed = len(buf)
    return p


def parse_responses(buf, eof=False, req_method='GET'):
    """Split buf into consecutive responses. Returns (list of Parsed, rest, error): rest = bytes of an incomplete last response,
    error = text if the bytes at some point are not a well-formed response."""
    buf = bytes(buf)
    out = []
    while buf:
        try:
            p = parse_response(buf, eof=eof, req_method=req_method)
        except Bad as e:
            return out, buf, str(e)
        if p is None:
            return out, buf, None
        out.append(p)
        buf = buf[p.consumed:]
    return out, b'', None


def announces_close(p):
    """does this (parsed, strict) response say that the connection ends after it?"""
    conn = [c.strip().lower() for v in p.get_all('Connection') for c in v.split(',')]
    if 'close' in conn or p.framing == 'close':
        return True
    if p.first[0] == (1, 0):
        return 'keep-alive' not in conn
    return False


class _NoClose(io.BytesIO):
    def close(self):          # HTTPResponse closes its file when a body ends; the next response is in the same buffer
        pass


class _FakeSock:
    def __init__(self, data):
        self.f = _NoClose(data)

    def makefile(self, *a, **k):
        return self.f


def second_opinion(buf, n, req_method='GET'):
    """http.client.HTTPResponse over the same bytes: [(status, body)] of the first n responses (bodies by its own framing rules),
    a string describing why it gave up, or None if it has no opinion (unknown protocol version in a status line)."""
    out = []
    f = _FakeSock(bytes(buf))
    for _ in range(n):
        r = http.client.HTTPResponse(f, method=req_method)
        try:
            r.begin()
            body = r.read()
        except http.client.UnknownProtocol:
            return None          # no opinion: http.client only knows HTTP/0.9 - 1.x status lines
        except (http.client.HTTPException, OSError, ValueError) as e:
            return 'http.client: %r after %d responses' % (e, len(out))
        out.append((r.status, body))
    return out
