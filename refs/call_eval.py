"""Reference evaluator for C06 call programs: what a program computes if every call/wait ran synchronously.

Independent of circuits.  A program is
    prog['handlers'][name] = [dict(hid=int, ops=[op, ...]), ...]      (declaration order irrelevant)
    op = ('ret', v|None) | ('raise',)                                  plain handler (exactly one op)
       | ('pause',) | ('val', v) | ('raise',)                          generator handler steps
       | ('site', mode, target|None, timeout|None, use)                x = yield call(...)/wait(...)
An event instance is named by its path: roots are (i,), the event created at site idx of handler hid for the
event at `path` is path + (hid, idx).  Values are strings; a raised handler contributes 'ERR:<message>'.

The result of an event (C04 value rule, order-free): the multiset of all values produced by its handlers
(None when empty, the bare value when one, a list otherwise) and errors = some handler raised.
Schedule-dependent facts are inputs: outcome[site] in {'result', 'timeout'} for sites that were resumed,
binding[site] = path of the event instance a by-name wait was bound to.
"""


class Unresolved(Exception):
    """The evaluation needs the outcome of a site that was never resumed in the observed run."""


def boom(hid):
    return 'boom-h%d' % hid


def canon(items, err):
    """Order-free canonical text of an event result: items = list of value strings."""
    items = sorted(items)
    body = 'None' if not items else items[0] if len(items) == 1 else '[' + ','.join(items) + ']'
    return ('!' if err else '') + body


def site_value(hid, idx, res):
    return 'h%d.%d(%s)' % (hid, idx, res)


def evaluate(prog, name, path, outcome, binding):
    """-> (list of value strings, errors flag) of the event `name` at `path`."""
    vals, err = [], False
    for h in prog['handlers'].get(name, ()):
        hid = h['hid']
        for idx, op in enumerate(h['ops']):
            k = op[0]
            if k in ('ret', 'val'):
                if op[1] is not None:
                    vals.append(op[1])
            elif k == 'raise':
                vals.append('ERR:' + boom(hid))
                err = True
                break
            elif k == 'site':
                _, mode, target, timeout, use = op
                site = (path, hid, idx)
                got = outcome.get(site)
                if got is None:
                    raise Unresolved(site)
                if got == 'timeout':
                    res = 'TIMEOUT'
                else:
                    tpath = binding.get(site, path + (hid, idx))
                    res = canon(*evaluate(prog, target, tpath, outcome, binding))
                if use:
                    vals.append(site_value(hid, idx, res))
    return vals, err


def cost(prog, name, memo=None):
    """Upper bound (loop iterations) for the full expansion of one event of type `name`: every step, every
    call overhead and every timeout counted one after the other although the real loop overlaps them."""
    memo = {} if memo is None else memo
    if name in memo:
        return memo[name]
    c = 4
    for h in prog['handlers'].get(name, ()):
        c += 2
        for op in h['ops']:
            if op[0] == 'site':
                c += 8 + (op[3] or 0) + (cost(prog, op[2], memo) if op[2] in prog['handlers'] else 0)
            else:
                c += 1
    memo[name] = c
    return c


def size(prog, name, memo=None):
    """Number of event instances in the full expansion of one event of type `name`."""
    memo = {} if memo is None else memo
    if name not in memo:
        memo[name] = 1 + sum(size(prog, op[2], memo) for h in prog['handlers'].get(name, ()) for op in h['ops']
                             if op[0] == 'site' and op[2] in prog['handlers'])
    return memo[name]
