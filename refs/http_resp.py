"""Strict reference parser for HTTP/1.x *responses* (client side), written from RFC 7230 sections 3 and 4.1; independent of circuits.

It answers one question for the C15 oracle: given the bytes a client has received on a connection so far, starting at `pos`,
and the method of the request they answer, where does the response end and what does it say - using ONLY what the message
itself announces (status code, Content-Length, Transfer-Encoding, Connection, protocol version), RFC 7230 section 3.3.3:

  1. responses to HEAD and 1xx / 204 / 304 responses end after the header section, whatever the headers say;
  2. `Transfer-Encoding: chunked`  -> chunk-size CRLF data CRLF ... last-chunk, trailer section, CRLF;
  3. `Content-Length: n`            -> exactly n bytes;
  4. otherwise                      -> everything up to the end of the connection (close-delimited).

parse_response() returns a Response, or None when the bytes received so far are a proper prefix of a response (more are needed),
and raises Malformed(clause, detail) as soon as no continuation of the bytes could be a well-formed response.
second_opinion() runs http.client.HTTPResponse over the same bytes.
"""
import http.client
import io
import re

TOKEN = re.compile(rb"^[!#$%&'*+\-.^_`|~0-9A-Za-z]+$")
STATUS_LINE = re.compile(rb'^HTTP/(1)\.([01]) ([0-9]{3}) ([\t \x21-\x7e\x80-\xff]*)$')
DIGITS = re.compile(rb'^[0-9]+$')
CHUNK_LINE = re.compile(rb'^([0-9A-Fa-f]+)((?:[ \t]*;[ \t]*[^\r\n]*)?)$')
MAX_LINE = 65536


class Malformed(Exception):
    """The bytes cannot be (the beginning of) a well-formed response. `clause` is a short stable name of the broken rule."""

    def __init__(self, clause, detail):
        super().__init__('%s: %s' % (clause, detail))
        self.clause = clause
        self.detail = detail


class Response:
    __slots__ = ('start', 'end', 'version', 'status', 'reason', 'headers', 'body', 'framing', 'chunk_sizes', 'close_announced')

    def header_all(self, name):
        name = name.lower()
        return [v for k, v in self.headers if k.lower() == name]

    def header(self, name, default=None):
        vs = self.header_all(name)
        return vs[0] if vs else default

    def __repr__(self):
        return '<Response HTTP/1.%d %d framing=%s body=%d bytes close_announced=%s [%d:%d]>' % (
            self.version[1], self.status, self.framing, len(self.body), self.close_announced, self.start, self.end)


def _line(buf, pos, eof, what):
    """One CRLF-terminated line starting at pos -> (line, next_pos), or None when incomplete."""
    i = buf.find(b'\n', pos)
    if i < 0:
        if len(buf) - pos > MAX_LINE:
            raise Malformed('line-too-long', '%s longer than %d bytes' % (what, MAX_LINE))
        if b'\r' in buf[pos:len(buf) - 1]:
            raise Malformed('bare-CR', 'CR not followed by LF in %s: %r' % (what, bytes(buf[pos:pos + 80])))
        if eof:
            raise Malformed('truncated', 'connection ended inside %s: %r' % (what, bytes(buf[pos:pos + 80])))
        return None
    if i == pos or buf[i - 1] != 13:
        raise Malformed('bare-LF', 'LF without CR in %s: %r' % (what, bytes(buf[pos:i + 1][:80])))
    line = bytes(buf[pos:i - 1])
    if b'\r' in line:
        raise Malformed('bare-CR', 'CR inside %s: %r' % (what, line[:80]))
    return line, i + 1


def _connection_tokens(values):
    out = set()
    for v in values:
        for t in v.split(','):
            t = t.strip().lower()
            if t:
                out.add(t)
    return out


def parse_response(buf, pos, method, eof):
    """Parse the response that starts at buf[pos]; `eof` tells whether the server has closed the connection (no more bytes will come).

    Returns Response / None (incomplete) / raises Malformed.
    """
    start = pos
    if pos >= len(buf):
        if eof:
            raise Malformed('no-response', 'connection ended before any byte of the response')
        return None
    head = bytes(buf[pos:pos + 5])
    if head != b'HTTP/'[:len(head)]:    # even a partial status line must look like one
        raise Malformed('status-line', 'response does not begin with HTTP/: %r' % bytes(buf[pos:pos + 60]))
    got = _line(buf, pos, eof, 'status line')
    if got is None:
        return None
    line, pos = got
    m = STATUS_LINE.match(line)
    if not m:
        raise Malformed('status-line', 'not "HTTP/1.x SP 3DIGIT SP reason": %r' % line[:120])
    r = Response()
    r.start = start
    r.version = (1, int(m.group(2)))
    r.status = int(m.group(3))
    r.reason = m.group(4).decode('latin1')
    r.headers = []
    r.chunk_sizes = []
    if r.status < 100 or r.status > 599:
        raise Malformed('status-line', 'status code %d outside 100..599' % r.status)
    # ---- header section
    while True:
        got = _line(buf, pos, eof, 'header section')
        if got is None:
            return None
        line, pos = got
        if not line:
            break
        if line[:1] in b' \t':
            raise Malformed('header-fold', 'obsolete line folding / leading whitespace in header line %r' % line[:80])
        name, sep, value = line.partition(b':')
        if not sep or not TOKEN.match(name):
            raise Malformed('header-line', 'not "token: value": %r' % line[:120])
        r.headers.append((name.decode('latin1'), value.strip(b' \t').decode('latin1')))
    conn = _connection_tokens(r.header_all('connection'))
    te = [t.strip().lower() for v in r.header_all('transfer-encoding') for t in v.split(',') if t.strip()]
    cls = r.header_all('content-length')
    clen = None
    if cls:
        vals = set()
        for v in cls:
            for part in v.split(','):
                part = part.strip()
                if not DIGITS.match(part.encode('latin1')):
                    raise Malformed('content-length', 'invalid Content-Length %r' % v)
                vals.add(int(part))
        if len(vals) != 1:
            raise Malformed('content-length', 'conflicting Content-Length values %r' % sorted(vals))
        clen = vals.pop()
    if te:
        if te != ['chunked']:
            raise Malformed('transfer-encoding', 'unsupported Transfer-Encoding %r (only a single "chunked" is understood)' % te)
        if clen is not None:
            raise Malformed('transfer-encoding', 'both Transfer-Encoding: chunked and Content-Length: %d' % clen)
        if r.version == (1, 0):
            raise Malformed('transfer-encoding', 'Transfer-Encoding: chunked in an HTTP/1.0 response')
    # ---- persistence as announced by the message (RFC 7230 6.3)
    if 'close' in conn:
        close = True
    elif r.version == (1, 1):
        close = False
    else:
        close = 'keep-alive' not in conn
    # ---- body framing (RFC 7230 3.3.3)
    if method == 'HEAD' or r.status < 200 or r.status in (204, 304):
        r.framing = 'none'
        r.body = b''
    elif te:
        r.framing = 'chunked'
        body = bytearray()
        while True:
            got = _line(buf, pos, eof, 'chunk-size line')
            if got is None:
                return None
            line, pos = got
            cm = CHUNK_LINE.match(line)
            if not cm:
                raise Malformed('chunk-size', 'chunk-size line is not hex [;ext]: %r' % line[:80])
            size = int(cm.group(1), 16)
            if size == 0:
                break
            if len(buf) - pos < size + 2:
                if eof:
                    raise Malformed('truncated', 'connection ended inside a chunk of %d bytes (%d present)' % (size, len(buf) - pos))
                if len(buf) - pos > size and buf[pos + size] != 13:
                    raise Malformed('chunk-end', 'chunk data of %d bytes not followed by CRLF' % size)
                return None
            if buf[pos + size:pos + size + 2] != b'\r\n':
                raise Malformed('chunk-end', 'chunk data of %d bytes not followed by CRLF but %r' % (size, bytes(buf[pos + size:pos + size + 2])))
            body += buf[pos:pos + size]
            r.chunk_sizes.append(size)
            pos += size + 2
        while True:   # trailer section
            got = _line(buf, pos, eof, 'chunked trailer')
            if got is None:
                return None
            line, pos = got
            if not line:
                break
            name, sep, _v = line.partition(b':')
            if not sep or not TOKEN.match(name):
                raise Malformed('trailer-line', 'not "token: value": %r' % line[:80])
        r.body = bytes(body)
    elif clen is not None:
        r.framing = 'length'
        if len(buf) - pos < clen:
            if eof:
                raise Malformed('truncated', 'Content-Length announces %d bytes, connection ended after %d' % (clen, len(buf) - pos))
            return None
        r.body = bytes(buf[pos:pos + clen])
        pos += clen
    else:
        r.framing = 'close'
        close = True
        if not eof:
            return None
        r.body = bytes(buf[pos:])
        pos = len(buf)
    r.close_announced = close
    r.end = pos
    return r


class _Fp(io.BytesIO):
    """BytesIO that survives http.client closing it, so the consumed length can be read afterwards."""

    def close(self):
        pass


class _Sock:
    def __init__(self, data):
        self.fp = _Fp(data)

    def makefile(self, *a, **k):
        return self.fp


def second_opinion(data, method):
    """http.client.HTTPResponse over `data` (the bytes of ONE response as delimited by the reference parser).

    Returns dict(status, version, body, consumed, will_close) or dict(error=repr).  Status 100 is not submitted by callers:
    http.client treats it as an interim response and waits for another one.
    """
    s = _Sock(bytes(data))
    try:
        r = http.client.HTTPResponse(s, method=method)
        r.begin()
        will_close = r.will_close
        body = r.read()
        return dict(status=r.status, version=r.version, body=body, consumed=s.fp.tell(), will_close=will_close,
                    headers=[(k, v) for k, v in r.getheaders()])
    except Exception as e:   # http.client.HTTPException, ValueError, ...
        return dict(error='%s: %s' % (type(e).__name__, e))


def _selfcheck(n=20000, seed=5):
    """Conformance of this parser: generated well-formed responses (all framings x versions x methods x no-body statuses x Connection
    headers) must be delimited exactly, every proper prefix must be 'incomplete', and http.client must agree on status, body, length
    consumed and will_close; a list of malformed messages must be rejected.   Run: /venv/bin/python -m refs.http_resp"""
    import random
    rng = random.Random(seed)
    for _ in range(n):
        status = rng.choice([200, 201, 404, 500, 302, 204, 304, 101, 102, 299])
        ver = rng.choice([0, 1])
        method = rng.choice(['GET', 'HEAD'])
        body = bytes(rng.randrange(256) for _ in range(rng.choice([0, 1, 5, 100, 300])))
        framing = rng.choice(['length', 'chunked', 'close'] if ver else ['length', 'close'])
        nobody = method == 'HEAD' or status < 200 or status in (204, 304)
        if nobody and method != 'HEAD' and framing == 'chunked':
            framing = 'length'      # http.client itself cannot read a 1xx/204/304 that carries Transfer-Encoding (forbidden by RFC 7230 3.3.1)
        head = 'HTTP/1.%d %d %s\r\nDate: x\r\nX-A: b c\r\n' % (ver, status, 'Reason Phrase' if rng.random() < .8 else '')
        conn = rng.choice([None, 'close', 'keep-alive', 'Keep-Alive'])
        if conn:
            head += 'Connection: %s\r\n' % conn
        data = head.encode()
        if framing == 'length':
            data += b'Content-Length: %d\r\n\r\n' % len(body) + (b'' if nobody else body)
        elif framing == 'chunked':
            data += b'Transfer-Encoding: chunked\r\n\r\n'
            i = 0
            while i < len(body) and not nobody:
                c = body[i:i + rng.randint(1, 50)]
                i += len(c)
                data += b'%x\r\n%s\r\n' % (len(c), c)
            if not nobody:
                data += b'0\r\n\r\n'
        else:
            data += b'\r\n' + (b'' if nobody else body)
        to_eof = framing == 'close' and not nobody
        extra = b'' if to_eof or rng.random() < .7 else b'HTTP/1.1 200 OK\r\n'
        buf = bytearray(data + extra)
        cut = rng.randrange(len(data))
        assert parse_response(buf[:cut], 0, method, False) is None, (cut, data)
        r = parse_response(buf, 0, method, to_eof)
        assert r is not None and r.end == len(data) and r.status == status and r.body == (b'' if nobody else body), (r, data)
        so = second_opinion(bytes(buf[r.start:r.end]), method)
        assert 'error' not in so and (so['status'], so['body'], so['consumed'], so['will_close']) == (status, r.body, r.end, r.close_announced), (so, r, data)
    bad = [b'HTTP/1.1 200 OK\r\nContent-Length: 3\r\nContent-Length: 4\r\n\r\nabcd', b'HTTP/1.1 200 OK\nA: b\n\n', b'XHTTP/1.1 200 OK\r\n\r\n',
           b'HTTP/1.1 200 OK\r\nTransfer-Encoding: chunked\r\n\r\n3\r\nabcXX', b'HTTP/1.1 200 OK\r\nTransfer-Encoding: chunked\r\n\r\nzz\r\n',
           b'HTTP/1.0 200 OK\r\nTransfer-Encoding: chunked\r\n\r\n0\r\n\r\n', b'HTTP/1.1 200 OK\r\nContent-Length: 5\r\n\r\nabc', b'abcHTTP/1.1 200 OK\r\n\r\n',
           b'HTTP/1.1 20 OK\r\n\r\n', b'HTTP/1.1 200 OK\r\n bad: fold\r\n\r\n', b'HTTP/1.1 200 OK\r\nContent-Length: -1\r\n\r\n', b'HTTP/1.1 200 OK\r\nbad header\r\n\r\n',
           b'HTTP/1.1 200 OK\r\nContent-Length: 1\r\nTransfer-Encoding: chunked\r\n\r\n0\r\n\r\n', b'HTTP/2.0 200 OK\r\n\r\n', b'']
    for b in bad:
        try:
            r = parse_response(bytearray(b), 0, 'GET', True)
        except Malformed:
            continue
        raise AssertionError('accepted malformed message %r as %r' % (b, r))
    return n


if __name__ == '__main__':
    print('refs.http_resp self-check: %d generated responses agree with http.client, malformed samples rejected' % _selfcheck())
