"""Independent RFC 6455 (section 5, "Data Framing") encoder / strict decoder, written from the RFC text - not from circuits.

      0                   1                   2                   3
      0 1 2 3 4 5 6 7 8 9 0 1 2 3 4 5 6 7 8 9 0 1 2 3 4 5 6 7 8 9 0 1
     +-+-+-+-+-------+-+-------------+-------------------------------+
     |F|R|R|R| opcode|M| Payload len |    Extended payload length    |
     |I|S|S|S|  (4)  |A|     (7)     |             (16/64)           |
     |N|V|V|V|       |S|             |   (if payload len==126/127)   |
     | |1|2|3|       |K|             |                               |
     +-+-+-+-+-------+-+-------------+ - - - - - - - - - - - - - - - +
     |     Extended payload length continued, if payload len == 127  |
     + - - - - - - - - - - - - - - - +-------------------------------+
     |                               |Masking-key, if MASK set to 1  |
     +-------------------------------+-------------------------------+
     | Masking-key (continued)       |          Payload Data         |

* 5.2: payload length 0-125 in 7 bits; 126 -> next 2 bytes (network order); 127 -> next 8 bytes (most significant bit 0); "the minimal
  number of bytes MUST be used to encode the length".
* 5.3: transformed-octet-i = original-octet-i XOR masking-key-octet-(i MOD 4); client->server frames are masked, server->client are not.
* 5.4: a fragmented message = one frame FIN=0 opcode!=0, zero or more frames FIN=0 opcode=0, one frame FIN=1 opcode=0; control frames may be
  injected in the middle of a fragmented message; fragments of one message must not be interleaved with another.
* 5.5: control frames (close 0x8, ping 0x9, pong 0xA) have payload <= 125 and must not be fragmented; 5.5.1: close body = 2-byte status
  code + UTF-8 reason (optional); 5.5.3: a pong carries the application data of the ping it answers.
* 5.6 / 8.1: text messages are UTF-8 (validated on the whole message, a code point may be split across fragments).
"""
import struct

CONT, TEXT, BINARY, CLOSE, PING, PONG = 0x0, 0x1, 0x2, 0x8, 0x9, 0xA
DATA_OPCODES = (TEXT, BINARY)
CONTROL_OPCODES = (CLOSE, PING, PONG)
NAMES = {CONT: 'continuation', TEXT: 'text', BINARY: 'binary', CLOSE: 'close', PING: 'ping', PONG: 'pong'}


def mask_bytes(key, data):
    """5.3 - the same transformation masks and unmasks."""
    if not data:
        return b''
    n = len(data)
    stream = (bytes(key) * (n // 4 + 1))[:n]
    return (int.from_bytes(data, 'big') ^ int.from_bytes(stream, 'big')).to_bytes(n, 'big')


def header_layout(length, masked):
    """(bytes of the 2-byte header, of the extended length, of the masking key) of a frame with this payload length."""
    ext = 0 if length <= 125 else (2 if length <= 0xFFFF else 8)
    return 2, ext, 4 if masked else 0


def encode_frame(opcode, payload=b'', fin=True, mask=None):
    """One frame.  `mask` = None (unmasked) or the 4 masking-key bytes."""
    payload = bytes(payload)
    n = len(payload)
    b0 = (0x80 if fin else 0x00) | (opcode & 0x0F)
    mbit = 0x80 if mask is not None else 0x00
    if n <= 125:
        head = bytes([b0, mbit | n])
    elif n <= 0xFFFF:
        head = bytes([b0, mbit | 126]) + struct.pack('!H', n)
    else:
        head = bytes([b0, mbit | 127]) + struct.pack('!Q', n)
    if mask is None:
        return head + payload
    mask = bytes(mask)
    assert len(mask) == 4
    return head + mask + mask_bytes(mask, payload)


def encode_message(opcode, payload, cuts=(), masks=None, interleave=None):
    """A data message as a list of frames (bytes each).  `cuts` = ascending payload offsets at which the message is split into
    fragments (5.4; empty fragments are legal: repeat an offset); `masks` = callable() -> 4 bytes or None;
    `interleave` = {fragment index k: [frame bytes, ...]} control frames placed before fragment k (k >= 1)."""
    payload = bytes(payload)
    bounds = [0] + list(cuts) + [len(payload)]
    frames = []
    for k in range(len(bounds) - 1):
        if interleave and k in interleave:
            frames.extend(interleave[k])
        frames.append(encode_frame(opcode if k == 0 else CONT, payload[bounds[k]:bounds[k + 1]], fin=(k == len(bounds) - 2),
                                   mask=masks() if masks else None))
    return frames


def close_payload(code=None, reason=''):
    return b'' if code is None else struct.pack('!H', code) + reason.encode('utf-8')


class Frame:
    __slots__ = ('fin', 'rsv', 'opcode', 'masked', 'key', 'payload', 'start', 'end')

    def __init__(self, fin, rsv, opcode, masked, key, payload, start, end):
        self.fin, self.rsv, self.opcode, self.masked, self.key, self.payload, self.start, self.end = fin, rsv, opcode, masked, key, payload, start, end

    def __repr__(self):
        return '<%s%s %d bytes%s>' % (NAMES.get(self.opcode, 'op%x' % self.opcode), '' if self.fin else ' FIN=0', len(self.payload),
                                      ' masked' if self.masked else '')


class ProtocolError(Exception):
    pass


class Decoder:
    """Strict incremental decoder of one direction of a connection: feed() any segmentation, collect `frames` and `events`.

    events: ('text', str) | ('binary', bytes) | ('ping', bytes) | ('pong', bytes) | ('close', code or None, reason)
    `expect_masked`: True (we are the server end), False (we are the client end) - a conforming peer fails the connection otherwise.
    After the first protocol error `error` is set (message, stream offset) and nothing more is decoded.
    """

    def __init__(self, expect_masked, mask_exempt=()):
        self.expect_masked = expect_masked
        self.mask_exempt = tuple(mask_exempt)   # opcodes whose mask bit is not judged
        self.buf = bytearray()
        self.offset = 0            # stream offset of buf[0]
        self.frames = []
        self.events = []
        self.error = None
        self.closed = False        # a close frame was decoded
        self.after_close = 0       # bytes that followed the close frame
        self.tail = None           # Decoder of whatever followed the close frame (a conforming endpoint sends nothing there)
        self._frag_op = None
        self._frag = bytearray()

    def feed(self, data):
        if self.error:
            return
        if self.closed:
            self._after(data)
            return
        self.buf += data
        try:
            while self._one():
                pass
        except ProtocolError as e:
            self.error = (str(e), self.offset)

    def _one(self):
        b = self.buf
        if len(b) < 2:
            return False
        fin, rsv, opcode = bool(b[0] & 0x80), (b[0] >> 4) & 0x7, b[0] & 0x0F
        masked, n7 = bool(b[1] & 0x80), b[1] & 0x7F
        pos = 2
        if n7 == 126:
            if len(b) < 4:
                return False
            (n,) = struct.unpack('!H', bytes(b[2:4]))
            pos = 4
            if n <= 125:
                raise ProtocolError('length %d encoded in 16 bits (not minimal)' % n)
        elif n7 == 127:
            if len(b) < 10:
                return False
            (n,) = struct.unpack('!Q', bytes(b[2:10]))
            pos = 10
            if n >> 63:
                raise ProtocolError('most significant bit of a 64-bit length is set')
            if n <= 0xFFFF:
                raise ProtocolError('length %d encoded in 64 bits (not minimal)' % n)
        else:
            n = n7
        if rsv:
            raise ProtocolError('RSV bits set (%d) without a negotiated extension' % rsv)
        if opcode not in (CONT, TEXT, BINARY, CLOSE, PING, PONG):
            raise ProtocolError('reserved opcode 0x%x' % opcode)
        if masked != self.expect_masked and opcode not in self.mask_exempt:
            raise ProtocolError('frame is %s but must be %s' % ('masked' if masked else 'unmasked', 'masked' if self.expect_masked else 'unmasked'))
        if opcode in CONTROL_OPCODES and (n > 125 or not fin):
            raise ProtocolError('control frame %s with %d payload bytes, FIN=%d' % (NAMES[opcode], n, fin))
        key = None
        if masked:
            if len(b) < pos + 4:
                return False
            key = bytes(b[pos:pos + 4])
            pos += 4
        if len(b) < pos + n:
            return False
        payload = bytes(b[pos:pos + n])
        if masked:
            payload = mask_bytes(key, payload)
        fr = Frame(fin, rsv, opcode, masked, key, payload, self.offset, self.offset + pos + n)
        del b[:pos + n]
        self.offset += pos + n
        self.frames.append(fr)
        self._message(fr)
        if self.closed:
            rest = bytes(b)
            del b[:]
            self._after(rest)
            return False
        return True

    def _after(self, data):
        if data:
            self.after_close += len(data)
            if self.tail is None:
                self.tail = Decoder(self.expect_masked, self.mask_exempt)
            self.tail.feed(data)

    def _message(self, fr):
        op = fr.opcode
        if op == PING:
            self.events.append(('ping', fr.payload))
        elif op == PONG:
            self.events.append(('pong', fr.payload))
        elif op == CLOSE:
            if len(fr.payload) == 1:
                raise ProtocolError('close frame with a 1-byte body')
            code = struct.unpack('!H', fr.payload[:2])[0] if fr.payload else None
            try:
                reason = fr.payload[2:].decode('utf-8')
            except UnicodeDecodeError:
                raise ProtocolError('close reason is not UTF-8')
            self.closed = True
            self.events.append(('close', code, reason))
        elif op == CONT:
            if self._frag_op is None:
                raise ProtocolError('continuation frame without a message to continue')
            self._frag += fr.payload
            if fr.fin:
                self._finish(self._frag_op, bytes(self._frag))
                self._frag_op, self._frag = None, bytearray()
        else:
            if self._frag_op is not None:
                raise ProtocolError('new %s message while a fragmented message is unfinished' % NAMES[op])
            if fr.fin:
                self._finish(op, fr.payload)
            else:
                self._frag_op, self._frag = op, bytearray(fr.payload)

    def _finish(self, op, payload):
        if op == TEXT:
            try:
                self.events.append(('text', payload.decode('utf-8')))
            except UnicodeDecodeError:
                raise ProtocolError('text message is not valid UTF-8')
        else:
            self.events.append(('binary', payload))

    def pending_bytes(self):
        return len(self.buf)


def selftest():
    """Cross-checks of the codec against itself under every segmentation of a small corpus and against hand-made RFC examples."""
    # RFC 6455 section 5.7 examples
    assert encode_frame(TEXT, b'Hello') == bytes.fromhex('810548656c6c6f')
    assert encode_frame(TEXT, b'Hello', mask=bytes.fromhex('37fa213d')) == bytes.fromhex('818537fa213d7f9f4d5158')
    assert encode_frame(TEXT, b'Hel', fin=False) + encode_frame(CONT, b'lo') == bytes.fromhex('010348656c') + bytes.fromhex('80026c6f')
    assert encode_frame(PING, b'Hello') == bytes.fromhex('890548656c6c6f')
    assert encode_frame(PONG, b'Hello', mask=bytes.fromhex('37fa213d')) == bytes.fromhex('8a8537fa213d7f9f4d5158')
    assert encode_frame(BINARY, bytes(256))[:4] == bytes.fromhex('827e0100')
    assert encode_frame(BINARY, bytes(65536))[:10] == bytes.fromhex('827f0000000000010000')
    for masked in (False, True):
        keys = iter([b'\x00\x00\x00\x00', b'\xff\x01\x80\x7f', b'abcd', b'\x01\x02\x03\x04'] * 8)
        mk = (lambda: next(keys)) if masked else None
        msgs = [(TEXT, 'héllo \U0001F600'.encode()), (BINARY, bytes(range(256)) * 2), (TEXT, b''), (BINARY, bytes(126))]
        stream = b''
        for op, p in msgs:
            stream += b''.join(encode_message(op, p, cuts=[len(p) // 3, len(p) // 3, len(p) // 2] if p else [0], masks=mk,
                                              interleave={1: [encode_frame(PING, b'p', mask=mk() if mk else None)]}))
        stream += encode_frame(CLOSE, close_payload(1000, 'bye'), mask=mk() if mk else None)
        want = None
        for stepsize in (len(stream), 1, 2, 3, 7):
            d = Decoder(expect_masked=masked)
            for i in range(0, len(stream), stepsize):
                d.feed(stream[i:i + stepsize])
            assert d.error is None, d.error
            data = [e for e in d.events if e[0] in ('text', 'binary')]
            assert data == [('text', 'héllo \U0001F600'), ('binary', bytes(range(256)) * 2), ('text', ''), ('binary', bytes(126))], data
            assert d.events[-1] == ('close', 1000, 'bye') and d.closed
            assert want is None or want == d.events
            want = d.events
    d = Decoder(False)
    d.feed(bytes.fromhex('827e0005') + b'12345')
    assert d.error and 'minimal' in d.error[0]
    return True


if __name__ == '__main__':
    print('ws_codec selftest:', selftest())
