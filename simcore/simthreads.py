"""SimThreads: real threads, one baton, pre-emption at source lines of circuits chosen by the tape.

Only the baton holder runs.  Control changes hands at
  * pre-emption points: sys.monitoring LINE events on the code objects of the monitored circuits modules;
  * blocking points: SimRLock.acquire, SimEvent.wait, the select shim's idle hook, Sched.wait_until.
When nothing is runnable the virtual clock jumps to the earliest timed waiter, which is released *by timeout*.
"""
import _thread
import random
import sys
import threading
import types

from . import world
from .world import W

mon = sys.monitoring
TOOL = 4
_monitored = set()
_tool_ready = False

SCHED = None
import os as _os
_REPO_PREFIX = _os.path.realpath(_os.environ.get('VERIF_REPO', '/repo')) + _os.sep


class SimKill(BaseException):
    """Raised in every sim thread at its next scheduling point once the run is being torn down."""


class _Baton:
    """Binary semaphore on a raw lock (several times cheaper than threading.Semaphore)."""
    __slots__ = ('lock',)

    def __init__(self):
        self.lock = _thread.allocate_lock()
        self.lock.acquire()

    def acquire(self):
        self.lock.acquire()

    def release(self):
        try:
            self.lock.release()
        except RuntimeError:
            pass


class ThreadState:
    __slots__ = ('name', 'sem', 'state', 'wake_at', 'waiting_on', 'ready_fn', 'timed_out', 'thread', 'steps', 'error', 'prio', 'idle_wait')

    def __init__(self, name):
        self.name = name
        self.sem = _Baton()
        self.state = 'runnable'     # runnable | blocked | done
        self.wake_at = None
        self.waiting_on = None
        self.ready_fn = None
        self.timed_out = False
        self.thread = None
        self.steps = 0
        self.error = None
        self.prio = 0
        self.idle_wait = False


class Sched:
    def __init__(self, ctx):
        self.ctx = ctx
        self.threads = {}
        self.order = []
        self.cur = None
        self.steps = 0
        self.plan = {}            # (thread name, local step) -> target thread name
        self.site_plan = {}       # (thread name, function name, nth line event of that thread in that function) -> target
        self.site_count = {}
        self.walk = None          # (random.Random, switch probability per line) for the random-walk family
        self.done = threading.Event()
        self.killed = False
        self.stuck = None
        self.trace = []
        self.timeout_wakeups = []
        self.on_block = None      # callable(thread_state) just before a thread blocks (oracle hook)
        self.preemptions = 0
        self.max_steps = 200000
        self.fair_steps = 20000     # a thread that ran this long without a switch yields once (no real scheduler starves the others for ever)
        self.run_len = 0
        self.fair_switches = 0
        self.limit_hit = False
        self.sites = set()
        self.busy = 0

    # ---- thread management
    def spawn(self, name, fn, prio=None):
        st = ThreadState(name)
        st.prio = len(self.order) if prio is None else prio
        self.threads[name] = st
        self.order.append(name)

        def body():
            st.sem.acquire()
            try:
                if self.killed:
                    raise SimKill()
                fn()
            except SimKill:
                pass
            except BaseException as e:  # noqa: B036 - recorded and judged by the property module
                st.error = e
            finally:
                st.state = 'done'
                st.ready_fn = None
                try:
                    self._switch(exiting=True)
                except SimKill:
                    pass

        t = world._real['Thread'](target=body, name=name, daemon=True)
        t.sim_name = name
        t.sim_sched = self
        st.thread = t
        t.start()
        return st

    def me(self):
        return getattr(threading.current_thread(), 'sim_name', None)

    def _runnable(self):
        out = []
        self.busy += 1       # ready_fn may execute monitored circuits code (e.g. the `running` property): not a pre-emption point
        try:
            for n in self.order:
                s = self.threads[n]
                if s.state == 'blocked' and s.ready_fn is not None and s.ready_fn():
                    s.state = 'runnable'
                    s.wake_at = None
                    s.ready_fn = None
                elif s.state == 'blocked' and s.wake_at is not None and s.wake_at <= W.now:
                    # its deadline has been reached in virtual time (another thread was released at the same instant)
                    s.state = 'runnable'
                    s.wake_at = None
                    s.ready_fn = None
                    s.timed_out = True
                    self.timeout_wakeups.append((n, s.waiting_on, W.now))
                if s.state == 'runnable':
                    out.append(n)
        finally:
            self.busy -= 1
        return out

    def start(self, first=None, wall_timeout=60):
        """Called by the harness (non-sim) thread: release the first thread and wait for the end of the run."""
        r = self._runnable()
        self.cur = first if first in r else r[0]
        self.threads[self.cur].sem.release()
        ok = self.done.wait(wall_timeout)
        if not ok:
            self.kill()
            return False
        return True

    def kill(self):
        self.killed = True
        for s in self.threads.values():
            s.sem.release()
        for s in self.threads.values():
            if s.thread is not None and s.thread is not threading.current_thread():
                s.thread.join(2)

    def _pick(self, r, prefer=None):
        if prefer in r:
            return prefer
        return min(r, key=lambda n: self.threads[n].prio)

    def _switch(self, exiting=False, prefer=None, stay=False):
        """Hand the baton on.  stay=True: keep running if still runnable and nobody preferred."""
        if self.killed:
            raise SimKill()
        me = self.cur
        while True:
            r = self._runnable()
            if r:
                break
            timed = [(s.wake_at, self.threads[n].prio, n) for n, s in self.threads.items() if s.state == 'blocked' and s.wake_at is not None]
            if not timed:
                blocked = {n: s.waiting_on for n, s in self.threads.items() if s.state == 'blocked'}
                if blocked:
                    self.stuck = blocked
                self.done.set()
                if exiting:
                    return
                self.threads[me].sem.acquire()
                raise SimKill()
            t, _, n = min(timed)
            if t > W.now:
                W.now = t
            s = self.threads[n]
            s.state = 'runnable'
            s.wake_at = None
            s.ready_fn = None
            s.timed_out = True
            self.timeout_wakeups.append((n, s.waiting_on, W.now))
        if stay and me in r and prefer is None:
            return
        nxt = self._pick(r, prefer)
        self.cur = nxt
        if nxt != me and self.ctx is not None and self.ctx.keep_trace:
            ms = self.threads.get(me)
            self.ctx.trace('[sched] %s (%s%s) -> %s' % (me, ms.state if ms else '?', (' on %s' % (ms.waiting_on[0],)) if ms and ms.state == 'blocked' and ms.waiting_on else '', nxt))
        if nxt != me:
            self.run_len = 0
            self.threads[nxt].sem.release()
            if not exiting:
                self.threads[me].sem.acquire()
                if self.killed:
                    raise SimKill()

    def block(self, what, timeout=None, ready_fn=None, idle_wait=False):
        """Block the current sim thread. Returns True if woken by a wake()/ready_fn, False if released by timeout."""
        st = self.threads[self.cur]
        st.waiting_on = what
        st.timed_out = False
        st.idle_wait = idle_wait
        st.wake_at = None if timeout is None else W.now + max(0.0, timeout)
        st.ready_fn = ready_fn
        if self.on_block is not None:
            self.busy += 1
            try:
                self.on_block(st)
            finally:
                self.busy -= 1
        st.state = 'blocked'
        self._switch()
        st.idle_wait = False
        st.waiting_on = None
        return not st.timed_out

    def wake(self, pred):
        for s in self.threads.values():
            if s.state == 'blocked' and pred(s.waiting_on):
                s.state = 'runnable'
                s.wake_at = None
                s.ready_fn = None

    def wait_until(self, pred, what='cond'):
        self.busy += 1
        try:
            ok = pred()
        finally:
            self.busy -= 1
        if ok:
            return
        self.block((what,), None, ready_fn=pred)

    def yield_to(self, target=None):
        self._switch(prefer=target)

    # ---- pre-emption
    def on_line(self, code, line):
        t = threading.current_thread()
        name = getattr(t, 'sim_name', None)
        if name is None or name != self.cur or self.busy:
            return
        if self.killed:
            raise SimKill()
        st = self.threads[name]
        st.steps += 1
        self.steps += 1
        if self.steps > self.max_steps:
            self.limit_hit = True
            self.done.set()
            self.killed = True
            raise SimKill()
        self.run_len += 1
        if self.run_len > self.fair_steps:
            self.run_len = 0
            others = [n for n in self._runnable() if n != name]
            if others:
                self.fair_switches += 1
                if self.ctx is not None and self.ctx.keep_trace:
                    self.ctx.trace('fairness: %s ran %d steps without a switch (spinning at %s:%d) -> %s' % (name, self.fair_steps, code.co_name, line, others[0]))
                self._switch(prefer=others[0])
                return
        tgt = self.plan.get((name, st.steps))
        if self.site_plan:
            k = (name, code.co_name)
            c = self.site_count[k] = self.site_count.get(k, 0) + 1
            t2 = self.site_plan.get((name, code.co_name, c))
            if t2 is not None:
                tgt = t2
        if tgt is None and self.walk is not None:
            rng, p = self.walk
            if rng.random() < p:
                others = [n for n in self._runnable() if n != name]
                if others:
                    tgt = others[rng.randrange(len(others))]
        if tgt is not None:
            others = [n for n in self._runnable() if n != name]
            if others:
                if tgt not in others:
                    tgt = others[0]
                self.preemptions += 1
                self.sites.add((name, code.co_name, line))
                if self.ctx is not None and self.ctx.keep_trace:
                    self.ctx.trace('preempt %s at %s:%d (its step %d) -> %s' % (name, code.co_name, line, st.steps, tgt))
                self._switch(prefer=tgt)


def _sched(blocking=True):
    """The scheduler the calling thread belongs to.  A thread left over from a run that was torn down must never touch the scheduler of
    a later run: it is killed at its next blocking call (blocking=True) or ignored (blocking=False)."""
    own = getattr(threading.current_thread(), 'sim_sched', None)
    if own is None:
        return SCHED
    if own.killed or own is not SCHED:
        if blocking:
            raise SimKill()
        return None
    return own


class SimRLock:
    def __init__(self):
        self.owner = None
        self.count = 0

    def acquire(self, blocking=True, timeout=-1):
        s = _sched()
        me = s.me() if s is not None else None
        if me is None:           # used outside a simulation (e.g. Manager() built by the harness thread)
            self.count += 1
            return True
        while self.owner not in (None, me):
            if not blocking:
                return False
            s.block(('lock', self))
        self.owner = me
        self.count += 1
        return True

    def release(self):
        self.count -= 1
        if self.count <= 0:
            self.count = 0
            self.owner = None
            s = _sched(False)
            if s is not None:
                s.wake(lambda w: isinstance(w, tuple) and w[0] == 'lock' and w[1] is self)

    __enter__ = acquire

    def __exit__(self, *a):
        self.release()


class SimEvent:
    def __init__(self):
        self.flag = False

    def is_set(self):
        return self.flag

    def set(self):
        self.flag = True
        s = _sched(False)
        if s is not None:
            s.wake(lambda w: isinstance(w, tuple) and w[0] == 'event' and w[1] is self)

    def clear(self):
        self.flag = False

    def wait(self, timeout=None):
        if self.flag:
            return True
        s = _sched()
        if s is None or s.me() is None:
            raise world.Quiescent()
        if timeout is not None and timeout >= 10000:
            timeout_eff = None     # the fallback's "forever" re-check period: treated as untimed (see C03 oracle)
        else:
            timeout_eff = timeout
        s.block(('event', self, timeout), timeout_eff, idle_wait=True)
        return self.flag


class SimThread:
    """Stand-in for threading.Thread as used by Manager.start()."""

    def __init__(self, target=None, name=None, args=(), kwargs=None, daemon=None):
        self._target = target
        self._args = args
        self._kwargs = kwargs or {}
        self.name = name or 'T'
        self.daemon = daemon
        self._st = None

    def start(self):
        self._st = SCHED.spawn(self.name, lambda: self._target(*self._args, **self._kwargs))

    def join(self, timeout=None):
        st = self._st
        if st is None or st.state == 'done':
            return
        SCHED.wait_until(lambda: st.state == 'done', 'join')

    def is_alive(self):
        return self._st is not None and self._st.state != 'done'

    @property
    def ident(self):
        return self._st.thread.ident if self._st is not None else None


def _walk_code(code):
    if code in _monitored or not code.co_filename.startswith(_REPO_PREFIX):
        return          # only circuits' own source lines are pre-emption points, never the harness wrappers
    _monitored.add(code)
    mon.set_local_events(TOOL, code, mon.events.LINE)
    for c in code.co_consts:
        if isinstance(c, types.CodeType):
            _walk_code(c)


def monitor_module(mod):
    for v in list(vars(mod).values()):
        if isinstance(v, types.FunctionType) and v.__module__ == mod.__name__:
            _walk_code(v.__code__)
        elif isinstance(v, type) and v.__module__ == mod.__name__:
            for a in list(vars(v).values()):
                f = getattr(a, '__func__', a)
                if isinstance(f, types.FunctionType):
                    _walk_code(f.__code__)
                elif isinstance(a, property):
                    for g in (a.fget, a.fset, a.fdel):
                        if g is not None:
                            _walk_code(g.__code__)


def _line_cb(code, line):
    own = getattr(threading.current_thread(), 'sim_sched', None)
    if own is None:
        return None
    if own.killed or own is not SCHED:
        # a thread of a run that is being (or has been) torn down: circuits catches BaseException around handlers, so the kill
        # is raised again at every further line until the thread has unwound completely
        raise SimKill()
    return own.on_line(code, line)


def install(extra_modules=()):
    """Monitor the core modules (idempotent)."""
    global _tool_ready
    world.install()
    if not _tool_ready:
        threading.stack_size(512 * 1024)     # 5 threads per run: the default 8 MiB stacks cost more in mmap/munmap than the run itself
        mon.use_tool_id(TOOL, 'verif-simthreads')
        mon.register_callback(TOOL, mon.events.LINE, _line_cb)
        _tool_ready = True
    import circuits.core.manager as M
    import circuits.core.helpers as H
    import circuits.core.events as E
    import circuits.core.pollers as P
    for mod in (M, H, E, P) + tuple(extra_modules):
        monitor_module(mod)
    # the originals of the methods world.py wraps are no longer class attributes: monitor them explicitly
    for f in world._real.values():
        if isinstance(f, types.FunctionType):
            _walk_code(f.__code__)


def begin(ctx):
    """Fresh scheduler for one run; installs the lock/event/thread doubles through the world seams."""
    global SCHED
    install()
    SCHED = Sched(ctx)
    W.lock_factory = SimRLock
    W.event_factory = SimEvent
    W.thread_factory = SimThread
    return SCHED


def end():
    global SCHED
    s = SCHED
    if s is not None and not s.killed and any(t.state != 'done' for t in s.threads.values()):
        s.kill()
    if s is not None and s.fair_switches and s.ctx is not None:
        s.ctx.stat('fairness-switch', s.fair_switches)
    SCHED = None
    W.lock_factory = None
    W.event_factory = None
    W.thread_factory = None


def make_plan(ch, horizons, d, targets):
    """d pre-emption points: (thread, local step) -> target, positions uniform over the dry-run horizon of that thread."""
    plan = {}
    names = sorted(horizons)
    for _ in range(d):
        t = ch.choice(names, 'preempt-thread')
        h = max(1, horizons[t])
        pos = 1 + ch.draw(h, 'preempt-step')
        others = [n for n in targets if n != t]
        if not others:
            continue
        plan[(t, pos)] = ch.choice(others, 'preempt-target')
    return plan
