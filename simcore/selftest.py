"""Self-tests of the simulator: determinism, sensitivity (mutants)."""
import json
import os
import shutil
import subprocess
import sys
import tempfile
import concurrent.futures as cf

VERIF = os.path.dirname(os.path.dirname(os.path.abspath(__file__)))
PY = sys.executable
MAIN = os.path.join(VERIF, 'simcore', 'main.py')
REPO = os.environ.get('VERIF_REPO', '/repo')


def all_props():
    return sorted(f[:-3].upper() for f in os.listdir(os.path.join(VERIF, 'props')) if f.startswith('c') and f.endswith('.py'))


def _digests(prop, n, start, hashseed, tier='quick', seed='1'):
    env = dict(os.environ, PYTHONHASHSEED=str(hashseed), VERIF_KEEP_HASHSEED='1', PYTHONDONTWRITEBYTECODE='1', VERIF_SEED=seed)
    p = subprocess.run([PY, MAIN, prop, '--digests', str(n), '--start', str(start), '--tier', tier], capture_output=True, text=True, env=env, timeout=1200)
    if p.returncode != 0:
        return 'ERROR exit %d: %s' % (p.returncode, p.stderr[-1500:])
    return p.stdout


def determinism(props, n=None):
    """N runs per property, executed 3 times in fresh interpreters: twice under PYTHONHASHSEED=0 and once under another
    hash seed, in differently sized slices (so process-position effects show up); all digests must agree."""
    n = n or int(os.environ.get('VERIF_DET_RUNS', '400'))
    bad = 0
    for prop in props:
        with cf.ThreadPoolExecutor(16) as ex:
            a = [ex.submit(_digests, prop, n // 8, i * (n // 8), 0) for i in range(8)]
            b = [ex.submit(_digests, prop, n // 4, i * (n // 4), 0) for i in range(4)]
            c = [ex.submit(_digests, prop, n // 8, i * (n // 8), 12345) for i in range(8)]
            A = ''.join(f.result() for f in a)
            B = ''.join(f.result() for f in b)
            Cc = ''.join(f.result() for f in c)
        if 'ERROR' in A or 'ERROR' in B or 'ERROR' in Cc:
            print('determinism %s: HARNESS-ERROR\n%s' % (prop, (A + B + Cc)[-2000:]))
            bad += 1
            continue
        la, lb, lc = A.splitlines(), B.splitlines(), Cc.splitlines()
        diff = [(x, y, z) for x, y, z in zip(la, lb, lc) if not (x == y == z)]
        print('determinism %s: %d runs x3 (8 procs, 4 procs, 8 procs under PYTHONHASHSEED=12345): %s' % (
            prop, len(la), 'identical' if not diff and len(la) == len(lb) == len(lc) else 'DIVERGED %r' % diff[:3]))
        if diff or not (len(la) == len(lb) == len(lc)):
            bad += 1
    return 1 if bad else 0


def apply_mutant(m, dst):
    path = os.path.join(dst, m['file'])
    s = open(path).read()
    if s.count(m['old']) != 1:
        raise RuntimeError('mutant %s: anchor text occurs %d times in %s' % (m['name'], s.count(m['old']), m['file']))
    open(path, 'w').write(s.replace(m['old'], m['new']))


def run_mutant(prop, m, tier='quick'):
    tmp = tempfile.mkdtemp(prefix='verif-mut-', dir='/var/tmp')
    try:
        shutil.copytree(os.path.join(REPO, 'circuits'), os.path.join(tmp, 'circuits'), ignore=shutil.ignore_patterns('__pycache__'))
        apply_mutant(m, tmp)
        env = dict(os.environ, VERIF_REPO=tmp, VERIF_NO_EVIDENCE='1')
        env.setdefault('VERIF_BUDGET_S', '40')
        p = subprocess.run([PY, MAIN, prop, '--tier', tier], capture_output=True, text=True, env=env, timeout=1500)
        keys = [l for l in p.stdout.splitlines() if l.startswith('violation ')]
        return p.returncode, keys, p.stdout[-1500:] + p.stderr[-1500:]
    finally:
        shutil.rmtree(tmp, ignore_errors=True)


def mutants(props, only=None):
    bad = 0
    for prop in props:
        path = os.path.join(VERIF, 'mutants', '%s.json' % prop)
        if not os.path.exists(path):
            continue
        ms = [m for m in json.load(open(path)) if not only or m['name'] == only]
        with cf.ThreadPoolExecutor(2) as ex:
            futs = [(m, ex.submit(run_mutant, prop, m)) for m in ms]
            for m, f in futs:
                try:
                    rc, keys, tail = f.result()
                except Exception as e:
                    rc, keys, tail = -1, [], repr(e)
                exp = m.get('expect', 'killed')
                ok = (rc == 1) if exp == 'killed' else (rc == 0)
                print('mutant %s/%s: exit %d %s %s' % (prop, m['name'], rc, 'OK(' + exp + ')' if ok else 'UNEXPECTED(want ' + exp + ')', keys[:2]))
                if not ok:
                    print('    ' + tail.replace('\n', '\n    ')[-1200:])
                    bad += 1
    return 1 if bad else 0


def run_seeded(sid, prop, tier='quick'):
    d = os.path.join(VERIF, 'seeded', sid)
    tmp = tempfile.mkdtemp(prefix='verif-seed-', dir='/var/tmp')
    try:
        shutil.copytree(os.path.join(REPO, 'circuits'), os.path.join(tmp, 'circuits'), ignore=shutil.ignore_patterns('__pycache__'))
        p = subprocess.run(['patch', '-p1', '-s', '-d', tmp, '-i', os.path.join(d, 'patch.diff')], capture_output=True, text=True)
        if p.returncode != 0:
            return -2, [], 'patch does not apply: ' + p.stdout + p.stderr
        env = dict(os.environ, VERIF_REPO=tmp, VERIF_NO_EVIDENCE='1')
        p = subprocess.run([PY, MAIN, prop, '--tier', tier], capture_output=True, text=True, env=env, timeout=3000)
        keys = [l for l in p.stdout.splitlines() if l.startswith('violation ')]
        return p.returncode, keys, p.stdout[-1500:] + p.stderr[-1500:]
    finally:
        shutil.rmtree(tmp, ignore_errors=True)


def seeded(props, tier='quick'):
    """Apply every kept seeded change (seeded/<id>/patch.diff) to a scratch copy and run the check of the property it breaks."""
    bad = 0
    base = os.path.join(VERIF, 'seeded')
    for sid in sorted(os.listdir(base)) if os.path.isdir(base) else []:
        mp = os.path.join(base, sid, 'meta.json')
        if not os.path.exists(mp):
            continue
        meta = json.load(open(mp))
        if props and meta['property'] not in props:
            continue
        exp = meta.get('expect_' + tier, meta.get('expect', 'caught'))
        # the property a change breaks is normally decided by that property's check; a few are decided by a neighbouring check
        rc, keys, tail = run_seeded(sid, meta.get('caught_by_property', meta['property']), tier)
        ok = (rc == 1) if exp == 'caught' else (rc in (0, 1)) if exp == 'either' else (rc == 0)
        print('seeded %s (%s, %s): exit %d %s %s' % (sid, meta['property'], tier, rc, 'OK(' + exp + ')' if ok else 'UNEXPECTED(want ' + exp + ')', [k[:160] for k in keys[:2]]))
        if not ok:
            print('    ' + tail.replace('\n', '\n    ')[-800:])
            bad += 1
    return 1 if bad else 0


def smoke():
    """setup_cmd: byte-compile the harness and execute a handful of runs of every claimed property (5-10 s)."""
    import compileall
    ok = compileall.compile_dir(os.path.join(VERIF, 'simcore'), quiet=1) and compileall.compile_dir(os.path.join(VERIF, 'props'), quiet=1)
    man = json.load(open(os.path.join(VERIF, 'MANIFEST.json')))
    bad = 0 if ok else 1
    for c in man['checks']:
        out = _digests(c['property_id'], 3, 0, 0)
        if 'ERROR' in out or len(out.splitlines()) != 3:
            print('smoke %s: FAILED\n%s' % (c['property_id'], out[-600:]))
            bad += 1
    print('smoke: %d checks, %d failed' % (len(man['checks']), bad))
    return 1 if bad else 0


def main(kind, prop=None):
    props = [prop.upper()] if prop else all_props()
    if kind == 'determinism':
        return determinism(props)
    if kind == 'mutants':
        return mutants(props, os.environ.get('VERIF_MUTANT'))
    if kind == 'seeded':
        return seeded([prop.upper()] if prop else None, os.environ.get('VERIF_TIER', 'quick'))
    if kind == 'smoke':
        return smoke()
    print('unknown selftest', kind)
    return 2
