"""Process farm, budgets, known findings, shrinking, replay files, evidence."""
import collections
import concurrent.futures as cf
import faulthandler
import hashlib
import importlib
import json
import multiprocessing
import os
import signal
import subprocess
import sys
import time
import traceback

from .choices import Choices, derive_seed

VERIF = os.path.dirname(os.path.dirname(os.path.abspath(__file__)))
PY = sys.executable
MAIN = os.path.join(VERIF, 'simcore', 'main.py')


class HarnessLimit(Exception):
    """A step cap of the harness was hit (never a violation by itself)."""


class RunCtx:
    """Everything a property module needs for one run."""

    def __init__(self, prop, ch, cfg, tier, keep_trace=False):
        self.prop = prop
        self.ch = ch
        self.cfg = cfg
        self.tier = tier
        self.events = []          # the deterministic event log (digest input)
        self.violations = []      # (key, detail)
        self.stats = collections.Counter()   # faults fired, probes
        self.states = set()       # property-specific abstraction of states reached
        self.nontrivial = False
        self.sim_time = 0.0
        self.keep_trace = keep_trace
        self.trace_lines = []
        self.avoid = frozenset()  # finding keys whose triggers the generator should avoid in this run

    def log(self, *rec):
        self.events.append(rec)

    def trace(self, s):
        if self.keep_trace:
            self.trace_lines.append(s)

    def violation(self, key, detail=''):
        self.violations.append((key, str(detail)[:2000]))

    def stat(self, name, n=1):
        self.stats[name] += n

    def state(self, key):
        self.states.add(key)

    def digest(self):
        return hashlib.sha1(repr(self.events).encode('utf-8', 'backslashreplace')).hexdigest()[:16]


def load_prop(prop):
    return importlib.import_module('props.' + prop.lower())


def load_findings():
    path = os.path.join(VERIF, 'known_findings.json')
    if not os.path.exists(path):
        return {}
    with open(path) as f:
        data = json.load(f)
    out = {}
    for ent in data.get('findings', []):
        out[(ent['property'], ent['key'])] = ent
    return out


def _pending(prop):
    # builders' scratch list (findings/CNN.pending.json: {key: description}); merged into known_findings.json by hand later
    path = os.path.join(VERIF, 'findings', '%s.pending.json' % prop)
    if os.path.exists(path):
        with open(path) as f:
            return {k: dict(property=prop, key=k, status='known', description=d) for k, d in json.load(f).items()}
    return {}


def known_keys(prop):
    out = {k[1]: v for k, v in load_findings().items() if k[0] == prop and v.get('status') == 'known'}
    out.update(_pending(prop))
    return out


def execute(mod, prop, tier, seed=None, tape=None, keep_trace=False, avoid=frozenset(), cfg_over=None):
    """One simulated run. Returns the RunCtx. Exceptions from the harness propagate."""
    ch = Choices(seed=seed, tape=tape, keep_labels=keep_trace)
    cfg = dict(mod.TIERS[tier].get('cfg', {}))
    if cfg_over:
        cfg.update(cfg_over)
    ctx = RunCtx(prop, ch, cfg, tier, keep_trace)
    ctx.avoid = avoid
    mod.run_one(ctx)
    return ctx


# ----------------------------------------------------------------------------
# worker side

_W = {}


def _worker_init(prop, tier):
    faulthandler.enable()
    os.environ['VERIF_WORKER'] = '1'
    _W['mod'] = load_prop(prop)
    _W['prop'] = prop
    _W['tier'] = tier
    _W['known'] = frozenset(known_keys(prop))


def _avoid_for(run_index, known):
    # half of the runs steer clear of the triggers of listed findings so the rest of the space is explored unmasked
    if os.environ.get('VERIF_AVOID_ALL'):
        return known
    return known if (run_index % 2 == 0) else frozenset()


def _chunk(base_seed, start, count, per_run_wall):
    mod, prop, tier, known = _W['mod'], _W['prop'], _W['tier'], _W['known']
    out = dict(runs=0, nontrivial=0, digests=set(), states=set(), stats=collections.Counter(), sim_time=0.0,
               samples=[], viol=[], known=collections.Counter(), limits=0, errors=[])
    for i in range(start, start + count):
        seed = derive_seed(base_seed, prop, i)
        faulthandler.dump_traceback_later(per_run_wall, exit=True)
        try:
            ctx = execute(mod, prop, tier, seed=seed, avoid=_avoid_for(i, known))
        except HarnessLimit as e:
            out['limits'] += 1
            if len(out['errors']) < 3:
                out['errors'].append(('limit', i, repr(e)))
            continue
        except (Exception, GeneratorExit) as e:
            out['errors'].append(('error', i, traceback.format_exc()[-3000:]))
            if len(out['errors']) > 5:
                break
            continue
        except BaseException as e:  # noqa: B036 - an exotic exception escaping circuits and the property module: report, do not kill the worker
            if isinstance(e, (KeyboardInterrupt, SystemExit)):
                raise
            out['errors'].append(('error', i, 'BaseException escaped run_one: ' + traceback.format_exc()[-3000:]))
            continue
        finally:
            faulthandler.cancel_dump_traceback_later()
        out['runs'] += 1
        out['sim_time'] += ctx.sim_time
        out['stats'].update(ctx.stats)
        out['states'].update(ctx.states)
        if ctx.nontrivial:
            out['nontrivial'] += 1
            out['digests'].add(ctx.digest())
        if ctx.violations:
            key, detail = ctx.violations[0]
            if key in known:
                out['known'][key] += 1
            elif len(out['viol']) < 3:
                out['viol'].append(dict(key=key, detail=detail, run_index=i, seed=seed, tape=list(ctx.ch.tape),
                                        digest=ctx.digest(), all_keys=[k for k, _ in ctx.violations][:10]))
        if len(out['samples']) < 1 and ctx.nontrivial and (i % 7 == 0):
            c2 = execute(mod, prop, tier, tape=list(ctx.ch.tape), keep_trace=True, avoid=_avoid_for(i, known))
            out['samples'].append(dict(run_index=i, seed=seed, digest=c2.digest(), trace=c2.trace_lines[:60]))
    return out


def _shrink_task(v, budget_runs, budget_s):
    from .shrink import shrink
    mod, prop, tier, known = _W['mod'], _W['prop'], _W['tier'], _W['known']
    avoid = _avoid_for(v['run_index'], known)
    target = v['key']

    def fails(tape):
        faulthandler.dump_traceback_later(120, exit=True)
        try:
            ctx = execute(mod, prop, tier, tape=tape, avoid=avoid)
        except Exception:
            return None
        finally:
            faulthandler.cancel_dump_traceback_later()
        if ctx.violations and ctx.violations[0][0] == target:
            return list(ctx.ch.tape)
        return None

    small = shrink(v['tape'], fails, budget_runs, budget_s)
    ctx = execute(mod, prop, tier, tape=small, keep_trace=True, avoid=avoid)
    assert ctx.violations and ctx.violations[0][0] == target
    return dict(tape=list(ctx.ch.tape), digest=ctx.digest(), trace=ctx.trace_lines[:400], detail=ctx.violations[0][1],
                labels=[list(x) for x in (ctx.ch.labels or [])][:400])


# ----------------------------------------------------------------------------
# parent side

def write_replay(prop, tier, v, small, avoid):
    d = os.path.join(VERIF, 'replays')
    os.makedirs(d, exist_ok=True)
    name = '%s-%s-%s-%d.json' % (prop, hashlib.sha1(v['key'].encode()).hexdigest()[:8], v['seed'], os.getpid())
    path = os.path.join(d, name)
    with open(path, 'w') as f:
        json.dump(dict(property=prop, tier=tier, seed=v['seed'], run_index=v['run_index'], finding_key=v['key'],
                       detail=small['detail'], tape=small['tape'], original_tape_len=len(v['tape']),
                       log_digest=small['digest'], avoid=sorted(avoid), trace=small['trace'],
                       labels=small.get('labels', [])), f, indent=1)
    return path


def replay(path, quiet=False):
    """Re-execute a replay file in this (fresh) interpreter. Exit code semantics as for a check."""
    with open(path) as f:
        r = json.load(f)
    prop = r['property']
    mod = load_prop(prop)
    ctx = execute(mod, prop, r.get('tier', 'quick'), tape=r['tape'], keep_trace=True, avoid=frozenset(r.get('avoid', [])))
    got = ctx.violations[0][0] if ctx.violations else None
    if not quiet:
        for line in ctx.trace_lines[:400]:
            print('  ' + line)
        print('replay: finding_key=%r log_digest=%s (file: %r %s)' % (got, ctx.digest(), r['finding_key'], r['log_digest']))
    if got == r['finding_key'] and ctx.digest() == r['log_digest']:
        if got in known_keys(prop):
            print('KNOWN-FINDING: property=%s %s' % (prop, got))
            return 0
        print('VIOLATION property=%s replay=%s' % (prop, path))
        return 1
    if got is None:
        print('REPLAY-CLEAN property=%s: the recorded violation %r does not occur on this tree' % (prop, r['finding_key']))
        return 0
    print('REPLAY-MISMATCH property=%s expected=%r/%s got=%r/%s' % (prop, r['finding_key'], r['log_digest'], got, ctx.digest()))
    return 2


def _kill_pool(ex):
    procs = list(getattr(ex, '_processes', {}).values())
    for p in procs:
        try:
            os.kill(p.pid, signal.SIGKILL)
        except Exception:
            pass
    ex.shutdown(wait=False, cancel_futures=True)


def run_check(prop, tier):
    t0 = time.time()
    mod = load_prop(prop)
    tcfg = mod.TIERS[tier]
    base_seed = int(os.environ.get('VERIF_SEED', '1') or 1)
    jobs = int(os.environ.get('VERIF_JOBS', '0') or 0) or min(16, os.cpu_count() or 4)
    max_runs = int(os.environ.get('VERIF_RUNS', '0') or 0) or tcfg['runs']
    wall = float(os.environ.get('VERIF_BUDGET_S', '0') or 0) or tcfg['wall']
    chunk = tcfg.get('chunk', 100)
    per_run_wall = tcfg.get('per_run_wall', 120)
    known = known_keys(prop)
    print('check %s tier=%s VERIF_SEED=%d jobs=%d max_runs=%d wall=%.0fs repo=%s' % (
        prop, tier, base_seed, jobs, max_runs, wall, os.environ.get('VERIF_REPO', '/repo')), flush=True)

    agg = dict(runs=0, nontrivial=0, digests=set(), states=set(), stats=collections.Counter(), sim_time=0.0,
               samples=[], viol=[], known=collections.Counter(), limits=0, errors=[])
    ctxmp = multiprocessing.get_context('fork')
    ex = cf.ProcessPoolExecutor(max_workers=jobs, mp_context=ctxmp, initializer=_worker_init, initargs=(prop, tier))
    harness_fail = None
    try:
        next_start = 0
        pending = set()
        deadline = t0 + wall
        hard_deadline = deadline + per_run_wall + 30

        def submit():
            nonlocal next_start
            n = min(chunk, max_runs - next_start)
            if n <= 0:
                return False
            pending.add(ex.submit(_chunk, base_seed, next_start, n, per_run_wall))
            next_start += n
            return True

        for _ in range(jobs * 2):
            if not submit():
                break
        new_keys = {}
        while pending:
            done, pending = cf.wait(pending, timeout=1.0, return_when=cf.FIRST_COMPLETED)
            now = time.time()
            if now > hard_deadline:
                harness_fail = 'wall-clock kill: workers did not finish by the hard deadline'
                break
            for fut in done:
                try:
                    r = fut.result()
                except Exception as e:  # BrokenProcessPool (worker died: faulthandler exit, crash)
                    harness_fail = 'worker died: %r' % (e,)
                    pending = set()
                    break
                agg['runs'] += r['runs']
                agg['nontrivial'] += r['nontrivial']
                agg['digests'] |= r['digests']
                agg['states'] |= r['states']
                agg['stats'].update(r['stats'])
                agg['sim_time'] += r['sim_time']
                agg['known'].update(r['known'])
                agg['limits'] += r['limits']
                agg['errors'] += r['errors']
                if len(agg['samples']) < 4:
                    agg['samples'] += r['samples']
                for v in r['viol']:
                    new_keys.setdefault(v['key'], v)
                if time.time() < deadline and len(new_keys) < 3 and not any(e[0] == 'error' for e in agg['errors']):
                    submit()
            if harness_fail:
                break
        wall_runs = time.time() - t0

        # shrink + verify each new violation
        reported = []
        if not harness_fail:
            for key, v in sorted(new_keys.items()):
                try:
                    small = ex.submit(_shrink_task, v, tcfg.get('shrink_runs', 400), tcfg.get('shrink_s', 40)).result(timeout=300)
                except Exception as e:
                    harness_fail = 'shrink failed for %r: %r' % (key, e)
                    break
                avoid = _avoid_for(v['run_index'], frozenset(known))
                path = write_replay(prop, tier, v, small, avoid)
                env = dict(os.environ)
                p = subprocess.run([PY, MAIN, prop, '--replay', path, '--quiet'], capture_output=True, text=True, env=env, timeout=300)
                if p.returncode != 1:
                    harness_fail = 'replay of %s in a fresh interpreter did not reproduce (exit %d): %s' % (
                        path, p.returncode, (p.stdout + p.stderr)[-800:])
                    break
                reported.append((key, path, small, v))
    finally:
        _kill_pool(ex)

    wall_s = time.time() - t0
    # ---- report
    for key, n in sorted(agg['known'].items()):
        print('KNOWN-FINDING: property=%s %s (%d runs; %s)' % (prop, key, n, known[key].get('description', '')))
    for key in sorted(set(known) - set(agg['known'])):
        print('KNOWN-FINDING-NOT-REPRODUCED: property=%s %s' % (prop, key))
    too_many_limits = agg['limits'] > max(5, agg['runs'] // 50)
    for e in agg['errors'][:5]:
        if e[0] == 'error' or too_many_limits:
            print('HARNESS-%s run_index=%s\n%s' % (e[0].upper(), e[1], e[2]))
    probes = getattr(mod, 'PROBES', [])
    for p in probes:
        if agg['stats'].get(p, 0) == 0 and agg['runs'] > 200:
            print('REACH-WARNING: probe %r never fired in %d runs' % (p, agg['runs']))
    for key, path, small, v in reported:
        print('violation %s: %s' % (key, small['detail'][:600]))
        for line in small['trace'][:80]:
            print('    ' + line)
        print('VIOLATION property=%s replay=%s' % (prop, path))

    write_evidence(mod, prop, tier, base_seed, agg, wall_s, wall_runs, reported, jobs)
    rate = agg['runs'] / max(wall_runs, 1e-9)
    print('%s: %d runs (%d nontrivial, %d distinct digests, %d states) in %.1fs = %.0f runs/h; sim time %.1fs; limits=%d; known=%d new=%d' % (
        prop, agg['runs'], agg['nontrivial'], len(agg['digests']), len(agg['states']), wall_runs, rate * 3600,
        agg['sim_time'], agg['limits'], sum(agg['known'].values()), len(reported)), flush=True)
    if harness_fail or any(e[0] == 'error' for e in agg['errors']):
        print('HARNESS-ERROR property=%s %s' % (prop, harness_fail or 'exception in harness (see above)'))
        return 2
    if reported:
        return 1
    if agg['runs'] == 0:
        print('HARNESS-ERROR property=%s no run completed' % prop)
        return 2
    if too_many_limits:
        print('HARNESS-LIMIT property=%s %d of %d runs hit a step cap' % (prop, agg['limits'], agg['runs']))
        return 2
    return 0


def write_evidence(mod, prop, tier, base_seed, agg, wall_s, wall_runs, reported, jobs):
    if os.environ.get('VERIF_NO_EVIDENCE'):
        return
    stats = dict(agg['stats'])
    faults = {k[6:]: v for k, v in stats.items() if k.startswith('fault:')}
    probes = {k: v for k, v in stats.items() if not k.startswith('fault:')}
    ev = dict(
        property_id=prop, tier=tier, seed=base_seed, level=mod.LEVEL,
        coverage=dict(
            evaluations=agg['runs'],
            distinct_nontrivial=len(agg['digests']),
            rule=mod.RULE,
            samples=agg['samples'][:4] or [dict(note='no sample captured')],
            runs_per_hour=int(agg['runs'] / max(wall_runs, 1e-9) * 3600),
            seeds=dict(base_seed=base_seed, derivation='sha256(base_seed/property/run_index)[:8]', run_index_range=[0, agg['runs'] + agg['limits']]),
            simulated_time_s=round(agg['sim_time'], 3),
            faults_fired=faults,
            probes=probes,
            distinct_states=len(agg['states']),
            state_measure=getattr(mod, 'STATE_MEASURE', ''),
            nontrivial_runs=agg['nontrivial'],
            step_cap_hits=agg['limits'],
            real_components=getattr(mod, 'REAL', []),
            stubbed_components=getattr(mod, 'STUBBED', []),
            known_findings_seen=dict(agg['known']),
            new_violations=[dict(key=k, replay=p) for k, p, _, _ in reported],
            workers=jobs,
        ),
        assumptions=list(getattr(mod, 'ASSUMPTIONS', [])),
        wall_s=round(wall_s, 2),
        violations=len(reported),
    )
    d = os.path.join(VERIF, 'evidence')
    os.makedirs(d, exist_ok=True)
    tmp = os.path.join(d, '.%s.json.tmp' % prop)
    with open(tmp, 'w') as f:
        json.dump(ev, f, indent=1, sort_keys=True, default=str)
    os.replace(tmp, os.path.join(d, '%s.json' % prop))
    # <id>.json is what the last run covered (whatever its tier); a per-tier copy keeps the last thorough run readable after later quick runs
    with open(tmp, 'w') as f:
        json.dump(ev, f, indent=1, sort_keys=True, default=str)
    os.replace(tmp, os.path.join(d, '%s.%s.json' % (prop, tier)))
