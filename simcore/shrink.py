"""Generic tape minimiser: truncate, delete blocks, zero blocks, lower values.

`fails(tape)` returns the tape actually consumed by a run that still fails the same way, or None.
A candidate is accepted iff it is smaller in the well-founded order (length without trailing zeros, sum).
"""
import time


def _norm(t):
    t = list(t)
    while t and t[-1] == 0:
        t.pop()
    return t


def _size(t):
    return (len(t), sum(t))


def shrink(tape, fails, budget_runs=400, budget_s=40):
    t0 = time.time()
    runs = [0]

    def out_of_budget():
        return runs[0] >= budget_runs or time.time() - t0 > budget_s

    def attempt(cand, best):
        if out_of_budget():
            return None
        runs[0] += 1
        r = fails(cand)
        if r is None:
            return None
        r = _norm(r)
        return r if _size(r) < _size(best) else None

    first = fails(list(tape))
    if first is None:
        return list(tape)
    best = _norm(first)
    improved = True
    while improved and not out_of_budget():
        improved = False
        # 1. shortest failing prefix (binary search; an exhausted tape reads as zeros)
        lo, hi = 0, len(best)
        while lo < hi and not out_of_budget():
            mid = (lo + hi) // 2
            r = attempt(best[:mid], best)
            if r is not None:
                best, improved = r, True
                hi = min(mid, len(best))
            else:
                lo = mid + 1
        # 2. delete blocks
        size = max(1, len(best) // 2)
        while size >= 1 and not out_of_budget():
            i = 0
            while i < len(best) and not out_of_budget():
                r = attempt(best[:i] + best[i + size:], best)
                if r is not None:
                    best, improved = r, True
                else:
                    i += size
            size //= 2
        # 3. zero blocks
        size = max(1, len(best) // 4)
        while size >= 1 and not out_of_budget():
            i = 0
            while i < len(best) and not out_of_budget():
                if any(best[i:i + size]):
                    r = attempt(best[:i] + [0] * len(best[i:i + size]) + best[i + size:], best)
                    if r is not None:
                        best, improved = r, True
                i += size
            size //= 2
        # 4. lower single values
        i = 0
        while i < len(best) and not out_of_budget():
            if best[i] > 1:
                for nv in (1, best[i] // 2, best[i] - 1):
                    if nv < best[i]:
                        r = attempt(best[:i] + [nv] + best[i + 1:], best)
                        if r is not None:
                            best, improved = r, True
                            break
            i += 1
    return best
