"""Seams: everything nondeterministic in circuits.core goes through this module.

install() rebinds, once per process, module-level names of circuits (no source change
in /repo).  reset(ctx) starts a fresh deterministic world for one run.
"""
import os
import sys
import threading
import types

_REPO = os.environ.get('VERIF_REPO', '/repo')
if sys.path[0] != _REPO:
    sys.path.insert(0, _REPO)

import circuits.core.manager as M  # noqa: E402
import circuits.core.helpers as H  # noqa: E402
import circuits.core.timers as T  # noqa: E402
import circuits.core.events as E  # noqa: E402
import circuits.core.components as C  # noqa: E402

assert os.path.realpath(M.__file__).startswith(os.path.realpath(_REPO) + os.sep), (M.__file__, _REPO)

EPOCH = 1_700_000_000.0
MASK = (1 << 64) - 1


class Quiescent(BaseException):
    """Raised out of an untimed idle wait in the single-threaded engine when nothing external is left."""


class World:
    def __init__(self):
        self.now = EPOCH
        self.ctx = None
        self.serial = 0
        self.hordinal = 0
        self.hids = {}
        self.salt = 0
        self.task_mode = 0
        self.stderr = []
        self.waits = []            # (start, timeout or None, woke_by)
        self.idle_hook = None      # callable(event_double, timeout) for single-thread idle
        self.event_factory = None
        self.lock_factory = None
        self.get_ident = None
        self.thread_factory = None
        self.current_thread = None
        self.on_manager_init = None

    def time(self):
        return self.now


W = World()

# real objects, saved before rebinding
_real = dict(
    RLock=threading.RLock, Event=threading.Event, Thread=threading.Thread,
    current_thread=threading.current_thread, get_ident=M._thread.get_ident,
    Manager_init=M.Manager.__init__, getHandlers=M.Manager.getHandlers, addHandler=M.Manager.addHandler,
)


class TaskSet(set):
    """Replacement for Manager._tasks: copy() returns a scheduler-chosen order instead of address order."""

    def __init__(self, *a):
        super().__init__(*a)
        self._ord = {}
        self._n = 0

    def add(self, x):
        if x not in self:
            self._n += 1
            self._ord[x] = self._n
        super().add(x)

    def remove(self, x):
        super().remove(x)
        self._ord.pop(x, None)

    def discard(self, x):
        super().discard(x)
        self._ord.pop(x, None)

    def __iter__(self):
        return iter(sorted(set.__iter__(self), key=self._ord.__getitem__))

    def copy(self):
        items = sorted(set.__iter__(self), key=self._ord.__getitem__)
        mode = W.task_mode
        if len(items) > 1 and mode:
            if mode == 1:
                items.reverse()
            else:
                ctx = W.ctx
                if ctx is not None:
                    items = ctx.ch.permute(items, 'task-order')
        return items


def _manager_init(self, *a, **k):
    _real['Manager_init'](self, *a, **k)
    W.serial += 1
    self._sim_serial = W.serial
    self._tasks = TaskSet()
    if W.on_manager_init is not None:
        W.on_manager_init(self)


def _add_handler(self, f):
    method = _real['addHandler'](self, f)
    W.hordinal += 1
    func = getattr(method, '__func__', method)
    W.hids[(getattr(self, '_sim_serial', 0), func)] = W.hordinal
    return method


def handler_id(h):
    """Deterministic identity of a bound handler: ordinal of its addHandler call in this run."""
    owner = getattr(h, '__self__', None)
    func = getattr(h, '__func__', h)
    key = (getattr(owner, '_sim_serial', 0), func)
    hid = W.hids.get(key)
    if hid is None:
        # handler that bypassed addHandler: order by (component serial, qualname) after all known ones
        W.hordinal += 1
        hid = W.hids[key] = W.hordinal
    return hid


def _rank(h):
    x = (handler_id(h) * 0x9E3779B97F4A7C15 + W.salt) & MASK
    x ^= x >> 31
    x = (x * 0xBF58476D1CE4E5B9) & MASK
    x ^= x >> 29
    return x


def _get_handlers(self, event, channel, **kwargs):
    hs = _real['getHandlers'](self, event, channel, **kwargs)
    if len(hs) < 2:
        return list(hs)
    # ids first in a deterministic order (lazy ids must not depend on set order)
    known = [h for h in hs if (getattr(getattr(h, '__self__', None), '_sim_serial', 0), getattr(h, '__func__', h)) in W.hids]
    if len(known) != len(hs):
        for h in sorted((h for h in hs if h not in known),
                        key=lambda h: (getattr(getattr(h, '__self__', None), '_sim_serial', 0), getattr(h, '__qualname__', ''))):
            handler_id(h)
    return sorted(hs, key=_rank)


class _Sink:
    def __init__(self, name):
        self.name = name

    def write(self, s):
        W.stderr.append(s)

    def flush(self):
        pass


class VEvent:
    """Single-threaded stand-in for threading.Event: waiting moves the virtual clock."""

    def __init__(self):
        self.flag = False

    def is_set(self):
        return self.flag

    def set(self):
        self.flag = True

    def clear(self):
        self.flag = False

    def wait(self, timeout=None):
        if self.flag:
            return True
        hook = W.idle_hook
        if hook is not None:
            return hook(self, timeout)
        # default: timed waits advance the clock, untimed ones are quiescence
        if timeout is None or timeout >= 10000:
            W.waits.append((W.now, None, 'quiescent'))
            raise Quiescent()
        W.waits.append((W.now, timeout, 'timeout'))
        if timeout > 0:
            W.now += timeout
        return False


def _event_factory(*a, **k):
    f = W.event_factory
    return f(*a, **k) if f is not None else VEvent()


def _lock_factory(*a, **k):
    f = W.lock_factory
    return f(*a, **k) if f is not None else _real['RLock']()


def _thread_factory(*a, **k):
    f = W.thread_factory
    return f(*a, **k) if f is not None else _real['Thread'](*a, **k)


def _current_thread():
    f = W.current_thread
    return f() if f is not None else _real['current_thread']()


class _ThreadShim:
    @staticmethod
    def get_ident():
        f = W.get_ident
        return f() if f is not None else _real['get_ident']()


_installed = False


def install():
    global _installed
    if _installed:
        return
    _installed = True
    M.Manager.__init__ = _manager_init
    M.Manager.addHandler = _add_handler
    M.Manager.getHandlers = _get_handlers
    M.atexit = types.SimpleNamespace(register=lambda f, *a, **k: f, unregister=lambda f: None)
    M.set_signal_handler = lambda *a, **k: None
    M.stderr = _Sink('manager')
    H.stderr = _Sink('helpers')
    M.time = W.time
    T.time = W.time
    M.RLock = _lock_factory
    M.Thread = _thread_factory
    M.current_thread = _current_thread
    M._thread = _ThreadShim
    H.Event = _event_factory
    M.uuid = lambda: 'sim-uuid-%d' % next_serial()


def next_serial():
    W.serial += 1
    return W.serial


_GLOBALS = {}      # module name -> [(container, import-time copy)]


def _restore_module_globals():
    """Every run starts from the process state a fresh interpreter would have: module-level containers of circuits.* (caches,
    registries) are put back to what they held when the module was first seen.  On the pinned tree nothing mutates them; a
    change that introduces per-process shared state must not leak from one simulated run into the next (and into its replay)."""
    import collections
    for name, mod in list(sys.modules.items()):
        if mod is None or not (name == 'circuits' or name.startswith('circuits.')):
            continue
        snap = _GLOBALS.get(name)
        if snap is None:
            snap = _GLOBALS[name] = []
            for k, v in list(vars(mod).items()):
                if k.startswith('__'):
                    continue
                if isinstance(v, (dict, list, set, collections.deque)):
                    snap.append((v, v.copy()))
            continue
        for cur, orig in snap:
            if cur != orig:
                cur.clear()
                (cur.update if isinstance(cur, (dict, set)) else cur.extend)(orig)


def reset(ctx=None, task_mode=None):
    """Fresh world for one run.  Draws the per-run salt and task-order mode from the tape."""
    install()
    _restore_module_globals()
    W.now = EPOCH
    W.ctx = ctx
    W.serial = 0
    W.hordinal = 0
    W.hids = {}
    W.stderr = []
    W.waits = []
    W.idle_hook = None
    W.event_factory = None
    W.lock_factory = None
    W.get_ident = None
    W.thread_factory = None
    W.current_thread = None
    W.on_manager_init = None
    if ctx is not None:
        W.salt = ctx.ch.draw(1 << 16, 'order-salt') * 0x9E3779B1 & MASK
        W.task_mode = ctx.ch.draw(3, 'task-mode') if task_mode is None else task_mode
    else:
        W.salt = 0
        W.task_mode = 0
    return W
