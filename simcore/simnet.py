"""SimNet: real kernel objects (AF_UNIX stream sockets, pipes, select/poll/epoll) behind interposers the simulator owns.

* `SimSocket(socket.socket)` replaces the name `socket` in circuits.net.sockets: it ignores the requested family, maps simulated
  (ip, port) / path addresses to Linux abstract-namespace names, and consults the run's fault policy on every data-path call.
* `SelectShim` replaces the name `select` in circuits.core.pollers: select/poll/epoll never block (timeout forced to 0; a positive
  timeout with nothing ready is reported to NET.on_idle), can raise EINTR on request, and every poll/epoll object is tracked.
* `Peer`/`PeerListener` are the simulated remote ends (plain sockets driven by the harness, never circuits components).
* Everything opened during a run is closed by `NET.close_all()`, so descriptor numbers repeat from run to run.

Only one thread runs; AF_UNIX delivery, readiness and fd allocation happen synchronously inside the syscalls, so runs replay.
"""
import errno
import os
import select as _select
import socket as _socket

from . import world
from .world import W

import circuits.core.pollers as P
import circuits.net.sockets as S

_real_socket = _socket.socket
_real_os_pipe = os.pipe

TRANSIENT = (errno.EAGAIN, errno.EINTR, errno.ENOBUFS)   # EWOULDBLOCK == EAGAIN on Linux
FATAL = (errno.EPIPE, errno.ECONNRESET)


class Net:
    """Per-run state of the simulated network."""

    def __init__(self):
        self.run_no = 0
        self.reset(None)

    def reset(self, ctx):
        self.ctx = ctx
        self.run_no += 1
        self.prefix = '\0vsim-%d-%d-' % (os.getpid(), self.run_no)
        self.tracked = []        # closeables
        self.fds = []            # raw fds (pipes)
        self.socks = []          # SimSockets in creation order
        self.policy = None       # fault policy: object with on_recv/on_send/on_accept/on_connect/on_poll
        self.sndbuf = None       # SO_SNDBUF for component-side sockets (swarm knob)
        self.on_idle = None
        self.next_port = 40000
        self.oplog = None        # optional callable(kind, sock, info) observing every data-path call
        self.greedy = None       # optional callable(sock): models an OS with a very large send buffer - send() keeps handing bytes to the
        #                          kernel, calling this hook (which must drain the remote end, e.g. Peer.recv) whenever the kernel buffer is full

    # ---- naming
    def name_of(self, addr):
        if isinstance(addr, tuple):
            return self.prefix + 'i:%s:%s' % (addr[0], addr[1])
        if isinstance(addr, bytes):
            addr = addr.decode('latin1')
        return self.prefix + 'p:' + str(addr)

    def decode(self, raw):
        if isinstance(raw, bytes):
            raw = raw.decode('latin1')
        if not raw or not raw.startswith(self.prefix):
            return None
        kind, _, rest = raw[len(self.prefix):].partition(':')
        if kind == 'i':
            host, _, port = rest.rpartition(':')
            return (host, int(port))
        return rest

    def ephemeral(self):
        self.next_port += 1
        return self.next_port

    def track(self, obj):
        self.tracked.append(obj)

    def close_all(self):
        for o in reversed(self.tracked):
            try:
                o.close()
            except Exception:
                pass
        for fd in reversed(self.fds):
            try:
                os.close(fd)
            except OSError:
                pass
        self.tracked = []
        self.fds = []
        self.socks = []
        self.policy = None


NET = Net()


class SimSocket(_real_socket):
    """The socket class circuits.net.sockets sees."""

    def __init__(self, family=-1, type=-1, proto=-1, fileno=None):
        if fileno is None:
            super().__init__(_socket.AF_UNIX, _socket.SOCK_STREAM, 0)
        else:
            super().__init__(_socket.AF_UNIX, _socket.SOCK_STREAM, 0, fileno=fileno)
        self.sim_req_family = family
        self.sim_local = None
        self.sim_peer = None
        self.sim_dead = None        # errno after an injected fatal error
        self.sim_delay = 0          # remaining getpeername() failures of an injected connect delay
        self.sim_sent = bytearray()  # bytes the OS accepted from this socket (ground truth for C11/C15)
        self.sim_closed_at = None   # len(sim_sent) when close() was called
        self.sim_send_after_close = 0
        self.sim_close_calls = 0
        self.sim_listening = False
        NET.track(self)
        NET.socks.append(self)
        self.sim_id = len(NET.socks)
        if NET.sndbuf and fileno is None:
            super().setsockopt(_socket.SOL_SOCKET, _socket.SO_SNDBUF, NET.sndbuf)

    # ---- configuration
    def setsockopt(self, level, opt, *value):
        if level == _socket.SOL_SOCKET and opt in (_socket.SO_SNDBUF, _socket.SO_RCVBUF):
            return super().setsockopt(level, opt, *value)
        return None   # TCP_NODELAY, SO_REUSEADDR, ... have no meaning here

    def bind(self, addr):
        self.sim_local = addr
        super().bind(NET.name_of(addr))

    def listen(self, backlog=128):
        self.sim_listening = True
        super().listen(min(int(backlog), 128))

    def getsockname(self):
        if self.sim_local is not None:
            return self.sim_local
        return ('0.0.0.0', 0)

    def getpeername(self):
        if self.sim_delay > 0:
            self.sim_delay -= 1
            raise OSError(errno.ENOTCONN, 'simulated: connect still in progress')
        pol = NET.policy
        hook = getattr(pol, 'on_getpeername', None) if pol is not None else None
        if hook is not None and hook(self):
            # TCP: the peer reset the connection before it was accepted - accept() still returns the socket, getpeername() fails (AF_UNIX never does)
            raise OSError(errno.ENOTCONN, 'simulated: the peer has gone already')
        super().getpeername()
        return self.sim_peer

    # ---- connection set-up
    def _pre_connect(self, addr):
        self.sim_peer = addr
        if self.sim_local is None or (isinstance(self.sim_local, tuple) and self.sim_local[1] == 0):
            host = self.sim_local[0] if isinstance(self.sim_local, tuple) and self.sim_local[0] not in ('', '0.0.0.0') else '10.0.0.9'
            self.sim_local = (host, NET.ephemeral())
            try:
                _real_socket.bind(self, NET.name_of(self.sim_local))
            except OSError:
                pass

    def connect(self, addr):
        pol = NET.policy
        act = pol.on_connect(self, addr) if pol is not None else None
        self._pre_connect(addr)
        if act and act[0] == 'refuse':
            raise OSError(errno.ECONNREFUSED, 'simulated: connection refused')
        r = super().connect(NET.name_of(addr))
        if act and act[0] == 'delay':
            self.sim_delay = act[1]
            raise OSError(errno.EINPROGRESS, 'simulated: operation now in progress')
        return r

    def connect_ex(self, addr):
        try:
            self.connect(addr)
        except OSError as e:
            return e.errno
        return 0

    def accept(self):
        pol = NET.policy
        if pol is not None:
            act = pol.on_accept(self)
            if act:
                raise OSError(act[1], 'simulated accept error')
        fd, raw = self._accept()
        s = SimSocket(fileno=fd)
        if NET.sndbuf:
            _real_socket.setsockopt(s, _socket.SOL_SOCKET, _socket.SO_SNDBUF, NET.sndbuf)
        s.sim_local = self.sim_local
        s.sim_peer = NET.decode(raw) or ('10.255.255.1', 1)
        return s, s.sim_peer

    # ---- data path
    def recv(self, n, flags=0):
        if self.sim_dead is not None:
            raise OSError(self.sim_dead, 'simulated: connection is dead')
        pol = NET.policy
        if pol is not None:
            act = pol.on_recv(self, n)
            if act:
                if act[0] == 'short':
                    n = max(1, min(n, act[1]))
                elif act[0] == 'err':
                    if act[1] in FATAL:
                        self._die(act[1])
                    raise OSError(act[1], 'simulated recv error')
        data = super().recv(n, flags)
        if NET.oplog is not None:
            NET.oplog('recv', self, data)
        return data

    def send(self, data, flags=0):
        if self.sim_closed_at is not None:
            self.sim_send_after_close += 1
        if self.sim_dead is not None:
            raise OSError(errno.EPIPE, 'simulated: connection is dead')
        pol = NET.policy
        if pol is not None:
            act = pol.on_send(self, len(data))
            if act:
                if act[0] == 'short':
                    if act[1] <= 0 and len(data):
                        # "accept k of n bytes" with k = 0: the degenerate partial send (nothing taken, no errno)
                        if NET.oplog is not None:
                            NET.oplog('send', self, b'')
                        return 0
                    data = bytes(data[:max(1, min(len(data), act[1]))]) if len(data) else data
                elif act[0] == 'err':
                    # ('err', errno) with a fatal errno kills the connection for good, as a real one does; ('err', errno, 'once') raises it for
                    # this call only (a scripted outcome: "every script of send() outcomes" includes EPIPE followed by an accepting send)
                    if act[1] in FATAL and not (len(act) > 2 and act[2] == 'once'):
                        self._die(act[1])
                    raise OSError(act[1], 'simulated send error')
        n = super().send(data, flags)
        if NET.greedy is not None and n < len(data):
            # "however the OS accepts it": one send() may accept an arbitrarily large payload in full
            view = memoryview(bytes(data))
            stalls = 0
            while n < len(view) and stalls < 4:
                try:
                    k = super().send(view[n:], flags)
                except BlockingIOError:
                    k = 0
                if k:
                    n += k
                    stalls = 0
                else:
                    stalls += 1
                    NET.greedy(self)
        self.sim_sent += bytes(data[:n])
        if NET.oplog is not None:
            NET.oplog('send', self, bytes(data[:n]))
        return n

    def sendall(self, data, flags=0):
        raise AssertionError('sendall on a non-blocking simulated socket')

    def _die(self, err):
        self.sim_dead = err
        try:
            _real_socket.shutdown(self, _socket.SHUT_RDWR)
        except OSError:
            pass

    def close(self):
        self.sim_close_calls += 1
        if self.sim_closed_at is None:
            self.sim_closed_at = len(self.sim_sent)
        if NET.oplog is not None and self.sim_close_calls == 1:
            NET.oplog('close', self, b'')
        super().close()

    def __repr__(self):
        return '<SimSocket #%d %s>' % (self.sim_id, 'listen' if self.sim_listening else (self.sim_peer,))


class _PollObj:
    """Wrapper of a real poll/epoll object: never blocks, may inject EINTR, tracked for close."""

    def __init__(self, real, kind):
        self._real = real
        self._kind = kind
        if hasattr(real, 'close'):
            NET.track(real)

    def register(self, fd, mask=None):
        return self._real.register(fd, mask) if mask is not None else self._real.register(fd)

    def unregister(self, fd):
        return self._real.unregister(fd)

    def modify(self, fd, mask):
        return self._real.modify(fd, mask)

    def poll(self, timeout=None, *a):
        pol = NET.policy
        if pol is not None and pol.on_poll(self._kind):
            raise OSError(errno.EINTR, 'simulated EINTR')
        res = self._real.poll(0)
        if not res and not (timeout is not None and timeout == 0):
            _idle(timeout if (timeout is not None and timeout >= 0) else None, self._kind, lambda: bool(self._real.poll(0)))
            res = self._real.poll(0)
        return res

    def close(self):
        if hasattr(self._real, 'close'):
            self._real.close()

    def fileno(self):
        return self._real.fileno()


def _idle(timeout, kind, ready_fn):
    if timeout is not None and kind == 'poll':
        timeout = timeout / 1000.0      # Poll passes milliseconds
    hook = NET.on_idle
    if hook is not None:
        return hook(timeout, kind, ready_fn)
    # default single-threaded behaviour: a timed wait advances the virtual clock, an untimed one is quiescence
    if timeout is None:
        raise world.Quiescent()
    W.waits.append((W.now, timeout, 'timeout'))
    W.now += max(0.0, timeout)
    return None


class SelectShim:
    """Stands in for the `select` module inside circuits.core.pollers."""

    def __init__(self):
        for k in dir(_select):
            if k.isupper():
                setattr(self, k, getattr(_select, k))
        self.error = _select.error

    def select(self, r, w, x, timeout=None):
        pol = NET.policy
        if pol is not None and pol.on_poll('select'):
            raise OSError(errno.EINTR, 'simulated EINTR')
        res = _select.select(r, w, x, 0)
        if not any(res) and not (timeout is not None and timeout == 0):
            _idle(timeout if (timeout is None or timeout >= 0) else None, 'select', lambda: any(_select.select(r, w, x, 0)))
            res = _select.select(r, w, x, 0)
        return res

    def poll(self):
        return _PollObj(_select.poll(), 'poll')

    def epoll(self, *a, **k):
        return _PollObj(_select.epoll(*a, **k), 'epoll')


class _OsShim:
    """`os` as seen by circuits.core.pollers: pipes are tracked so they get closed at the end of the run."""

    def __getattr__(self, name):
        return getattr(os, name)

    @staticmethod
    def pipe():
        r, w = _real_os_pipe()
        NET.fds.extend((r, w))
        return r, w


_installed = False


def install():
    global _installed
    world.install()
    if _installed:
        return
    _installed = True
    S.socket = SimSocket
    S.time = W.time
    S.gethostname = lambda: 'simhost'
    S.gethostbyname = lambda name: '10.0.0.1'
    S.getfqdn = lambda *a: 'simhost.sim'
    P.select = SelectShim()
    P.os = _OsShim()


def reset(ctx):
    """Call after world.reset(ctx)."""
    install()
    NET.close_all()
    NET.reset(ctx)
    return NET


# ----------------------------------------------------------------------------
# fault policy driven by the tape

class TapePolicy:
    """Per-call fault decisions drawn lazily from the tape.

    `kinds` = set of enabled fault kinds; `rate` = one fault per `rate` calls on average (den of chance()).
    Faults apply only to sockets for which `applies(sock)` is true (default: all component-side sockets).
    """

    KINDS = ('short_read', 'spurious_eagain_read', 'recv_reset', 'short_write', 'transient_send_error', 'fatal_send_error',
             'accept_error', 'connect_delay', 'poll_eintr')

    def __init__(self, ctx, kinds, rate=4, applies=None):
        self.ctx = ctx
        self.kinds = set(kinds)
        self.rate = rate
        self.applies = applies or (lambda s: True)
        self.enabled = True

    def _hit(self, kind):
        return self.enabled and kind in self.kinds and self.ctx.ch.chance(1, self.rate, 'fault?' + kind)

    def on_recv(self, sock, n):
        if not self.applies(sock):
            return None
        if self._hit('short_read') and n > 1:
            k = 1 + self.ctx.ch.draw(min(n - 1, 16), 'short-read-len')
            self.ctx.stat('fault:short_read')
            return ('short', k)
        if self._hit('spurious_eagain_read'):
            self.ctx.stat('fault:spurious_eagain_read')
            return ('err', errno.EWOULDBLOCK)
        if self._hit('recv_reset'):
            self.ctx.stat('fault:recv_reset')
            return ('err', errno.ECONNRESET)
        return None

    def on_send(self, sock, n):
        if not self.applies(sock):
            return None
        if self._hit('short_write') and n > 1:
            k = 1 + self.ctx.ch.draw(min(n - 1, 64), 'short-write-len')
            self.ctx.stat('fault:short_write')
            return ('short', k)
        if self._hit('transient_send_error'):
            e = self.ctx.ch.choice(TRANSIENT, 'transient-errno')
            self.ctx.stat('fault:transient_send_error')
            self.ctx.stat('fault:send_errno_%s' % errno.errorcode[e])
            return ('err', e)
        if self._hit('fatal_send_error'):
            e = self.ctx.ch.choice(FATAL, 'fatal-errno')
            self.ctx.stat('fault:fatal_send_error')
            return ('err', e)
        return None

    def on_accept(self, sock):
        if self._hit('accept_error'):
            e = self.ctx.ch.choice((errno.EMFILE, errno.ECONNABORTED, errno.EAGAIN), 'accept-errno')
            self.ctx.stat('fault:accept_error')
            return ('err', e)
        return None

    def on_connect(self, sock, addr):
        if self._hit('connect_delay'):
            self.ctx.stat('fault:connect_delay')
            return ('delay', 1 + self.ctx.ch.draw(4, 'connect-delay'))
        return None

    def on_poll(self, kind):
        if self._hit('poll_eintr'):
            self.ctx.stat('fault:poll_eintr')
            return True
        return False


class NoFaults:
    def on_recv(self, sock, n):
        return None

    def on_send(self, sock, n):
        return None

    def on_accept(self, sock):
        return None

    def on_connect(self, sock, addr):
        return None

    def on_poll(self, kind):
        return False


# ----------------------------------------------------------------------------
# simulated remote ends

class Peer:
    """A remote endpoint driven by the harness: plain non-blocking AF_UNIX socket, no faults, explicit actions."""

    def __init__(self, local=None, sock=None, sndbuf=None):
        self.local = local
        self.sock = sock
        self.out = bytearray()      # queued for sending
        self.sent = bytearray()     # accepted by the kernel
        self.inp = bytearray()      # everything received
        self.eof = False
        self.reset = False
        self.closed = False
        self.connected = sock is not None
        self.sndbuf = sndbuf
        if sock is not None:
            NET.track(sock)

    def connect(self, addr):
        s = _real_socket(_socket.AF_UNIX, _socket.SOCK_STREAM, 0)
        NET.track(s)
        if self.sndbuf:
            s.setsockopt(_socket.SOL_SOCKET, _socket.SO_SNDBUF, self.sndbuf)
        if self.local is None:
            self.local = ('10.0.0.77', NET.ephemeral())
        s.bind(NET.name_of(self.local))
        s.setblocking(False)
        try:
            s.connect(NET.name_of(addr))
        except OSError as e:
            s.close()
            self.closed = True
            return e.errno
        self.sock = s
        self.connected = True
        return 0

    def send(self, data):
        self.out += data
        return self.pump()

    def pump(self):
        """Push queued bytes; returns number accepted now."""
        if self.closed or not self.out or self.sock is None:
            return 0
        total = 0
        while self.out:
            try:
                n = self.sock.send(bytes(self.out[:65536]))
            except BlockingIOError:
                break
            except OSError:
                self.reset = True
                self.out.clear()
                break
            self.sent += self.out[:n]
            del self.out[:n]
            total += n
        return total

    def recv(self, limit=1 << 20):
        """Drain what is available now (up to limit); returns the new bytes."""
        if self.closed or self.sock is None:
            return b''
        got = bytearray()
        while len(got) < limit and not self.eof:
            try:
                d = self.sock.recv(min(65536, limit - len(got)))
            except BlockingIOError:
                break
            except OSError:
                self.reset = True
                self.eof = True
                break
            if not d:
                self.eof = True
                break
            got += d
        self.inp += got
        return bytes(got)

    def shutdown_wr(self):
        if self.sock is not None and not self.closed:
            try:
                self.sock.shutdown(_socket.SHUT_WR)
            except OSError:
                pass

    def close(self):
        """Close; if unread data is pending in the receive queue the other side sees a reset (AF_UNIX semantics)."""
        if self.sock is not None and not self.closed:
            self.closed = True
            self.sock.close()


class PeerListener:
    """A simulated server for client components under test."""

    def __init__(self, addr, backlog=16):
        self.addr = addr
        self.sock = _real_socket(_socket.AF_UNIX, _socket.SOCK_STREAM, 0)
        NET.track(self.sock)
        self.sock.bind(NET.name_of(addr))
        self.sock.listen(backlog)
        self.sock.setblocking(False)

    def accept(self, sndbuf=None):
        try:
            s, raw = self.sock.accept()
        except BlockingIOError:
            return None
        s.setblocking(False)
        if sndbuf:
            s.setsockopt(_socket.SOL_SOCKET, _socket.SO_SNDBUF, sndbuf)
        p = Peer(local=self.addr, sock=s)
        p.remote = NET.decode(raw)
        return p

    def close(self):
        self.sock.close()


# ----------------------------------------------------------------------------
# loop stepping helpers

TICK_QUANTUM = 0.001


def make_running(m):
    """Put a manager into the state run() would give it, without run(): generate_events are fired by tick()."""
    m._running = True
    return m


def step(m):
    """One loop iteration of manager m with a zero idle budget; returns the number of events queued meanwhile (activity)."""
    before = m._queue._counter
    m.tick(0)
    W.now += TICK_QUANTUM
    # one generate_events per tick is the idle baseline
    return m._queue._counter - before - 1


def settle(managers, quiet_rounds=3, cap=2000, each=None):
    """Tick all managers round-robin until `quiet_rounds` consecutive rounds show no activity."""
    from .runner import HarnessLimit
    quiet = 0
    n = 0
    while quiet < quiet_rounds:
        act = 0
        for m in managers:
            act += step(m)
            if len(m._queue) or m._tasks:
                act += 1
        if each is not None and each():
            act += 1
        quiet = quiet + 1 if act <= 0 else 0
        n += 1
        if n > cap:
            raise HarnessLimit('settle: no quiescence after %d rounds' % cap)
    return n
