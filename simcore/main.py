"""Entry point: check <PROP> [--tier quick|thorough] | <PROP> --replay FILE | --selftest ..."""
import argparse
import os
import sys

VERIF = os.path.dirname(os.path.dirname(os.path.abspath(__file__)))
if VERIF not in sys.path:
    sys.path.insert(0, VERIF)

if os.environ.get('PYTHONHASHSEED') != '0' and not os.environ.get('VERIF_KEEP_HASHSEED'):
    env = dict(os.environ, PYTHONHASHSEED='0', PYTHONDONTWRITEBYTECODE='1')
    os.execve(sys.executable, [sys.executable] + sys.argv, env)


def main():
    ap = argparse.ArgumentParser()
    ap.add_argument('prop', nargs='?')
    ap.add_argument('--tier', default=os.environ.get('VERIF_TIER', 'quick'))
    ap.add_argument('--replay')
    ap.add_argument('--quiet', action='store_true')
    ap.add_argument('--selftest')
    ap.add_argument('--digests', type=int, help='print per-run digests for N runs (determinism self-test helper)')
    ap.add_argument('--start', type=int, default=0)
    a = ap.parse_args()
    from simcore import runner
    if a.selftest:
        from simcore import selftest
        return selftest.main(a.selftest, a.prop)
    if a.replay:
        return runner.replay(a.replay, quiet=a.quiet)
    prop = a.prop.upper()
    if a.digests:
        from simcore.choices import derive_seed
        mod = runner.load_prop(prop)
        base = int(os.environ.get('VERIF_SEED', '1') or 1)
        known = frozenset(runner.known_keys(prop))
        for i in range(a.start, a.start + a.digests):
            try:
                ctx = runner.execute(mod, prop, a.tier, seed=derive_seed(base, prop, i), avoid=runner._avoid_for(i, known))
                print(i, ctx.digest(), ctx.violations[0][0] if ctx.violations else '-')
            except runner.HarnessLimit:
                print(i, 'LIMIT')
        return 0
    if a.tier not in ('quick', 'thorough'):
        a.tier = 'quick'
    return runner.run_check(prop, a.tier)


if __name__ == '__main__':
    sys.exit(main())
