"""The choice tape: the single source of every decision in a simulated run.

Generation mode draws from a PRNG and records; replay mode reads a tape (values
reduced modulo n, exhausted tape -> 0).  Nothing here reads a clock.
"""
import hashlib
import random


def derive_seed(base_seed, prop, run_index):
    h = hashlib.sha256(('%d/%s/%d' % (base_seed, prop, run_index)).encode()).digest()
    return int.from_bytes(h[:8], 'big')


class Choices:
    __slots__ = ('rng', 'tape', 'labels', 'replay', 'pos', 'keep_labels')

    def __init__(self, seed=None, tape=None, keep_labels=False):
        self.rng = random.Random(seed) if tape is None else None
        self.replay = list(tape) if tape is not None else None
        self.tape = []
        self.labels = [] if keep_labels else None
        self.pos = 0
        self.keep_labels = keep_labels

    def draw(self, n, label=''):
        """An int in [0, n).  n <= 1 consumes nothing."""
        if n <= 1:
            return 0
        if self.replay is None:
            v = self.rng.randrange(n)
        else:
            if self.pos < len(self.replay):
                v = self.replay[self.pos] % n
            else:
                v = 0
            self.pos += 1
        self.tape.append(v)
        if self.labels is not None:
            self.labels.append((label, n))
        return v

    # -- conveniences, all built on draw() -------------------------------
    def chance(self, num, den, label=''):
        """True with probability num/den; the 'simple' value 0 means False."""
        return self.draw(den, label) >= den - num

    def choice(self, seq, label=''):
        return seq[self.draw(len(seq), label)]

    def randint(self, lo, hi, label=''):
        """lo..hi inclusive; simplest = lo."""
        return lo + self.draw(hi - lo + 1, label)

    def weighted(self, weights, label=''):
        """Index drawn with the given integer weights; simplest = first index with weight > 0."""
        total = sum(weights)
        v = self.draw(total, label)
        for i, w in enumerate(weights):
            if v < w:
                return i
            v -= w
        return len(weights) - 1

    def permute(self, items, label=''):
        """Fisher-Yates with draws; the all-zero tape gives the identity."""
        items = list(items)
        out = []
        while items:
            out.append(items.pop(self.draw(len(items), label)))
        return out

    def subset(self, items, label=''):
        return [x for x in items if self.draw(2, label)]

    def bytes(self, n, label=''):
        return bytes(self.draw(256, label) for _ in range(n))
