"""C05 — `<name>_complete` fires exactly once, after the whole causal closure has drained; always eventually fires.

Engine: SimLoop (single thread, manager not running, the harness calls tick()/flush()).  Workload: generated finite event
trees.  Every generated handler records who fired what (ghost causal tree); the oracle is evaluated at the FIRE time of
every `<name>_complete` (seen through a `fireEvent` override in the generated component classes, public API) and after
every tick (liveness).  There is no catch-all observer handler in the tree: events with a name nobody handles, or fired on a
channel nobody listens on, really have no handler at all.  Their dispatch cannot be seen, so a `flushEvents` override marks
the queue passes: a handler-less event counts as dispatched once the pass that holds it has ended (and is given the benefit
of the doubt while that pass runs).

Generator handlers also `yield self.call(ev[, timeout=k])` (1-3 in a row, mixed with plain fires and bare yields) and
`self.fire(ev); yield self.wait(ev | 'name'[, timeout=k])`; the called / awaited event is an ordinary member of the closure
(ghost child of the calling event, fired from a generator step).  Whether and with what the caller is resumed is C06's
subject: here a resumption or a caught TimeoutError just continues the handler.  In half of the runs the harness fires
`generate_events` before every tick() (what a running manager does) so that timeouts elapse.

Liveness bound (stated by the guide's rule for liveness properties): once the harness has seen the closure of a dispatched,
complete-requesting event drained (checked after every tick()/flush() it issues), `<name>_complete` must have been fired
within BOUND = 4 x (total generator steps of the program) + 6 x (call/wait sites) + max depth + 10 further tick() calls; otherwise the run reports
`C05/never-completes/<shape>` (the '/liveness' clause of the statement).  A run whose queue/tasks do not become idle within
the step cap raises HarnessLimit (not a violation).

Finding keys: C05/exactly-once/fired-twice; C05/early-complete/<not-dispatched | handlers-remaining | generator-handler-running>
(an undrained closure member reached through plain-handler fires only) or C05/early-complete/fired-from-generator-step (all
undrained members sit below a fire made from a generator step); C05/never-completes/<kind> with kind one of
cancelled-descendant, raising-generator-handler, handlerless-descendant, stopped-event, raising-plain-handler, nested-requester
(what the drained closure contains; when several kinds are present run_one repeats the run on shadow contexts with kinds left
out of the program and keeps only what is needed for the failure - 'a+b' if two kinds are both needed, .../liveness if the
program still never completes with all kinds left out).
ctx.avoid: a listed cancelled-descendant key stops cancellation inside tracked closures,
a listed raising-generator-handler key stops generator handlers of tracked events from raising, a listed
fired-from-generator-step key stops generator handlers of tracked events from firing, a listed handlerless-descendant key
gives every descendant of a tracked event at least one handler; stopped-event / raising-plain-handler / nested-requester keys
likewise keep stop(), plain raises and nested requesters out of tracked closures.
"""
from simcore import world
from simcore.choices import Choices
from simcore.runner import HarnessLimit, RunCtx

import threading

from circuits import BaseComponent, Event, handler
from circuits.core.events import generate_events
from circuits.core.manager import TimeoutError as CTimeoutError    # circuits' own class, not the builtin
from circuits.core.manager import Manager as MANAGER

ID = 'C05'
LEVEL = 'exploration'
ENGINE = 'SimLoop'
LEVEL_TEXT = ('seeded exploration of generated event trees x fault placements x schedules on the real Manager; every `*_complete` is '
              'judged at its fire time against a ghost causal tree kept by the generated handlers, and liveness is judged against a '
              'stated tick bound; sampling, not proof - evidence states how many distinct programs/logs were explored')
LEVEL_NOTE = ('trusted: the ghost bookkeeping in the generated handlers (who fired what, which handler/generator is finished), the '
              'fireEvent override as fire-time marker, the flushEvents override as queue-pass marker (handler-less events), the 6-line '
              'channel matching rule used to predict which generated handlers an event reaches, CPython')
RULE = ('each run = generated program (1-3 components on channels */x/y, 1-6 handler slots, plain or generator, priorities with ties; '
        'events fired on the firer\'s channel, *, x, y or a deaf channel, so some have no handler at all) + 1-4 root event '
        'trees (fan-out <= 3, depth <= 5, complete / nested complete / complete_channels flags, cancel-by-firer / cancel-by-harness / '
        'stop / raise placed on any descendant, children fired - or called / waited for, with timeouts none/0/1/2 - from any generator step) '
        '+ a tick()/flush() schedule (generate_events before every tick in half of the runs) with the roots '
        'fired at drawn points, all from one seeded tape; non-trivial = a dispatched complete-requesting event had a closure of >= 3 '
        'events containing at least one fault, one handler-less member or one child fired from a generator step; distinct = distinct digest of the full '
        'fire/dispatch/handler-step/cancel/complete log')
STATE_MEASURE = ('per complete-requesting event: (closure size bucket, closure depth, #generator-step edges, #cancelled, #stopped, '
                 '#raising plain, #raising generator, #nested complete requesters, #handler-less, complete fired from task phase or dispatcher)')
REAL = ['circuits.core.manager.Manager (fire/_fire/flush/tick/_dispatcher/_eventDone/processTask/_EventQueue)',
        'circuits.core.components.BaseComponent (incl. unregister -> prepare_unregister(complete=True) -> detach)',
        'circuits.core.handlers.handler', 'circuits.core.events.Event (cancel/stop/child/complete/complete_channels)',
        'circuits.core.values.Value']
STUBBED = ['handler tie-break order and task stepping order (decided by the tape through the Manager.getHandlers / _tasks seams)',
           'stderr of circuits.core (sink)',
           'the main loop: the harness calls tick()/flush() itself and, in half of the runs, fires generate_events(lock, 0) before every tick()']
ASSUMPTIONS = [
    'closure = events fired by generated handler code (ghost parent = event whose handler executed the fire); manager-generated '
    'feedback events (exception, *_success, *_complete, registered, unregistered) are outside it and their observers only log',
    '"dispatched to all its handlers" is read as: every handler the dispatcher will invoke has returned (stop() legitimately ends the '
    'list early) and every generator those handlers returned has finished or raised; an implementation cannot know that an unfinished '
    'generator will fire nothing more, so this is not stronger than the statement for any implementation that is right for all programs',
    'a complete-requesting event that is itself cancelled before dispatch: nothing is demanded for it (the quantifier cancels descendants); '
    'at most one `_complete` still applies',
    'handlers are plain functions; a "generator handler" is a handler returning a generator object (what a generator function call does)',
    'handlers never call flush()/tick() re-entrantly',
    'an event that is called / waited for is never cancelled and none of its handlers calls stop() (the waiting handler would hang for '
    'ever: C06); wait(\'name\') is always preceded by a fire of an event of that name on the waiting component\'s channel',
    'the temporary handlers that call()/wait() install for the awaited name are not counted as handlers of the generated events',
    'which generated handlers an event reaches is predicted from name and channel (event channel "*" reaches all; otherwise components '
    'whose channel is "*" or the event channel) - matching itself is C01\'s subject',
    'an event without any handler is "dispatched to all its handlers" as soon as it has been popped; that moment is not observable, so '
    'it counts as done when the queue pass that contains it has ended, and at the fire time of a `_complete` already while that pass runs',
]
PROBES = ['handler-calls-flush', 'tracked-handler-calls-flush', 'complete-fired', 'complete-fired-from-task-phase', 'nested-complete', 'roots-in-flight>=2', 'complete-channels',
          'tracked-gen-step-fire', 'tracked-cancel', 'tracked-stop', 'tracked-raise-plain', 'tracked-raise-gen',
          'two-generators-one-event', 'unregister-root', 'harness-cancel-tracked', 'tracked-handlerless', 'tracked-deaf-channel',
          'tracked-unhandled-name', 'tracked-call', 'tracked-sequential-call', 'tracked-wait', 'tracked-call-handlerless',
          'call-timed-out', 'tracked-fire-after-timeout', 'tracked-call-after-timeout']
TIERS = {
    'quick': dict(runs=100000, wall=28, chunk=125, shrink_runs=2500, shrink_s=30, cfg=dict(max_nodes=14, max_roots=3, max_ops=8, max_depth=5)),
    'thorough': dict(runs=500000, wall=600, chunk=500, shrink_runs=2500, shrink_s=30, cfg=dict(max_nodes=40, max_roots=4, max_ops=16, max_depth=5)),
}

K_CANCEL = 'C05/never-completes/cancelled-descendant'
K_GENRAISE = 'C05/never-completes/raising-generator-handler'
K_GENSTEP = 'C05/early-complete/fired-from-generator-step'
K_BOTH = 'C05/never-completes/cancelled-descendant+raising-generator-handler'
K_NESTED_FLUSH = 'C05/early-complete/fired-after-nested-flush'
F_CANCEL, F_GENRAISE, F_NOH = 'cancelled-descendant', 'raising-generator-handler', 'handlerless-descendant'
F_STOP, F_RAISE, F_NESTED = 'stopped-event', 'raising-plain-handler', 'nested-requester'
KINDS = (F_CANCEL, F_GENRAISE, F_NOH, F_STOP, F_RAISE, F_NESTED)     # what a closure can contain besides plainly handled events

NAMES = ['a', 'b', 'c', 'd']
CCHANS = ['*', '*', 'x', 'y']              # channel of a generated component
ECHANS = [None, '*', 'x', 'y', 'deaf']      # channel an event is fired on (None: fire(e) without channel = the firer's channel)
HPRIOS = [0, 0, 1, -1, 2]
FANOUT = 3
FIRES = ('fire', 'call', 'waitobj', 'waitname')   # acts that put a child event into the queue
TIMEOUTS = [None, 0, 1, 2]                     # timeout= of a call()/wait(); counts generate_events (see 'pulse')


class Injected(Exception):
    """the injected handler fault"""


class Node:
    """One planned event of a tree (the program)."""
    __slots__ = ('nid', 'name', 'depth', 'complete', 'cc', 'tracked', 'cancel', 'specs', 'unreg', 'succ', 'chan', 'echan', 'firer', 'nslots')


class Ghost:
    """What the harness knows about one fired event."""
    __slots__ = ('eid', 'node', 'ev', 'parent', 'via_gen', 'kids', 'state', 'ran', 'stopped', 'open', 'gen_raised', 'plain_raised',
                 'cfired', 'drained_at', 'nslots', 'pass_')


def run_one(ctx):
    _run(ctx, frozenset())
    # A drained closure that never completes is first keyed by the kinds (KINDS) present in it.  To keep one key per root cause the
    # run is then repeated on shadow contexts (same tape, nothing of it is logged) with kinds left out of the program: if it still
    # never completes with all kinds left out, none is to blame (.../liveness); otherwise kinds are left out one after the other as
    # long as the program still never completes, and what cannot be left out names the finding (usually one kind).
    nc = 'C05/never-completes/'
    if ctx.violations and ctx.violations[0][0].startswith(nc) and not ctx.violations[0][0].endswith('/liveness'):
        key, detail = ctx.violations[0]
        kinds = key[len(nc):].split('+')

        def still_fails(mute):
            sub = RunCtx(ctx.prop, Choices(tape=list(ctx.ch.tape)), ctx.cfg, ctx.tier)
            sub.avoid = ctx.avoid
            try:
                _run(sub, frozenset(mute))
            except Exception:
                return False
            return bool(sub.violations) and sub.violations[0][0].startswith(nc)

        if still_fails(KINDS):
            need = ['liveness']
        else:
            need, out = list(kinds), set(KINDS) - set(kinds)
            for f in kinds:
                if still_fails(out | {f}):
                    need.remove(f)
                    out.add(f)
        ctx.violations[0] = (nc + '+'.join(need), detail + ' [kinds present: %s; needed for the failure when the others are left out of the '
                             'program: %s]' % (', '.join(kinds), ', '.join(need)))


def _run(ctx, mute):
    ch = ctx.ch
    world.reset(ctx)
    cfg = ctx.cfg
    # ctx.avoid: never-completes keys name the shapes present in the closure ('a+b' = both); a single shape is avoided as such,
    # of a listed combination that is not yet broken up the last member is avoided
    shapes = [k.rsplit('/', 1)[1].split('+') for k in sorted(ctx.avoid) if k.startswith('C05/never-completes/')]
    av = {sh[0] for sh in shapes if len(sh) == 1}
    for sh in shapes:
        if not av.intersection(sh):
            av.add(sh[-1])
    av_cancel, av_genraise, av_noh, av_genstep = F_CANCEL in av, F_GENRAISE in av, F_NOH in av, K_GENSTEP in ctx.avoid
    av_stop, av_raise, av_nested = F_STOP in av, F_RAISE in av, F_NESTED in av
    maxdepth = cfg['max_depth']
    st = dict(eid=0, nid=0, in_h=0, cur_h=0, ticks=0, open=0, gen_steps=0, calls=0, task_phase=False, pending_unreg=None, passes=0)
    G = {}            # eid -> Ghost
    tracked = []      # eids of complete-requesting events, in fire order
    pend0 = []        # fired handler-less events whose queue pass has not ended yet

    # ---------------------------------------------------------------- program: handler slots
    ncomp = ch.randint(1, 3, 'ncomp')
    slots = []
    cchan = []
    for ci in range(ncomp):
        cchan.append(ch.choice(CCHANS, 'comp-channel'))
        for _ in range(ch.randint(1, 2, 'nslots')):
            names = ch.subset(NAMES, 'slot-names') or [ch.choice(NAMES, 'slot-name1')]
            slots.append(dict(idx=len(slots), comp=ci, gen=ch.chance(1, 3, 'slot-gen'), names=names, prio=ch.choice(HPRIOS, 'slot-prio')))
    unreg_slot = ch.chance(1, 3, 'slot-on-prepare_unregister')
    if unreg_slot:
        slots[ch.draw(len(slots), 'which-slot')]['names'].append('prepare_unregister')
    by_name = {}
    for s in slots:
        for n in s['names']:
            by_name.setdefault(n, []).append(s)
    def match(name, echan):
        """the slots that will be invoked for an event `name` fired on channel `echan` (handlers take their component's channel)"""
        return [s for s in by_name.get(name, ()) if echan == '*' or cchan[s['comp']] in ('*', echan)]

    for n, ss in by_name.items():
        if sum(1 for s in ss if s['gen']) >= 2:
            ctx.stat('two-generators-one-event')
            break

    # ---------------------------------------------------------------- program: event trees
    def gen_node(depth, tracked_above, bud, firer, name=None, how='fire'):
        bud[0] -= 1
        n = Node()
        st['nid'] += 1
        n.nid, n.depth, n.cancel, n.unreg, n.firer = st['nid'], depth, 0, name is not None, firer
        n.name = name or ch.choice(NAMES, 'name')
        if name:
            n.complete, n.cc, n.succ = True, False, False          # prepare_unregister: complete=True is set by circuits
        else:
            n.complete = ch.chance(3, 4, 'root-complete') if depth == 0 else (not (tracked_above and av_nested) and ch.chance(1, 5, 'nested-complete'))
            n.cc = n.complete and ch.chance(1, 4, 'complete-channels')
            n.succ = ch.chance(1, 4, 'success-flag')     # also asks for `<name>_success` (feedback event, observers only log)
        # channel: a name nobody handles, or a handled name fired on a channel nobody listens on, gives a handler-less event
        n.chan = None if name else ECHANS[ch.weighted([5, 2, 1, 1, 1], 'channel')]
        if how == 'waitname':       # wait('name') listens on the waiting component's own channel: fire(e) without channel reaches it
            n.chan = None
        n.echan = '*' if name else (n.chan if n.chan is not None else cchan[firer])
        ms = match(n.name, n.echan)
        if not ms and tracked_above and av_noh:
            n.chan = n.echan = '*'
            if not match(n.name, '*'):
                n.name = slots[0]['names'][0]
            ms = match(n.name, '*')
        n.nslots = len(ms)
        n.tracked = tracked_above or n.complete
        n.specs = {}
        fan = 0
        for s in ms:
            gen = s['gen']
            nsteps = 1 + ch.weighted([2, 2, 1], 'gen-steps') if gen else 1
            steps = []
            for _ in range(nsteps):
                acts = []
                may_fire = depth < maxdepth and not (gen and n.tracked and av_genstep)
                for _ in range(ch.weighted([3, 3, 3, 2], 'nfires') if may_fire else 0):
                    if fan >= FANOUT or bud[0] <= 0:
                        break
                    fan += 1
                    # a generator handler may call()/wait() for the child instead of just firing it: `yield self.call(c)`,
                    # `self.fire(c); yield self.wait(c)`, `self.fire(c); yield self.wait(c.name)`
                    act = FIRES[ch.weighted([3, 5, 1, 1], 'fire-or-call')] if gen else 'fire'
                    c = gen_node(depth + 1, n.tracked, bud, s['comp'], how=act)
                    to = None
                    if act != 'fire':
                        st['calls'] += 1
                        to = TIMEOUTS[ch.weighted([5, 2, 1, 1], 'timeout')]
                    elif not (n.tracked and av_cancel):
                        c.cancel = ch.weighted([6, 1, 1], 'cancel')      # 0 no, 1 by the firing handler, 2 by the harness
                    acts.append((act, c, to))
                # (an event that is waited for must reach its handlers: never cancelled, never stopped - else the waiting handler
                #  hangs for ever, which is C06's subject and would only produce undrained closures here)
                if not gen and how == 'fire' and not (n.tracked and av_stop) and ch.chance(1, 8, 'stop'):
                    acts.insert(ch.draw(len(acts) + 1, 'stop-pos'), ('stop',))
                if not (n.tracked and (av_genraise if gen else av_raise)) and ch.chance(1, 8, 'raise'):
                    acts = acts[:ch.draw(len(acts) + 1, 'raise-pos')] + [('raise',)]
                    steps.append(acts)
                    break
                steps.append(acts)
            if gen:
                st['gen_steps'] += len(steps)
            n.specs[s['idx']] = steps
        return n

    nroots = ch.randint(1, cfg['max_roots'], 'nroots')
    roots = []
    for _ in range(nroots):
        is_unreg = ch.chance(1, 6, 'root-is-unregister')
        roots.append(gen_node(0, False, [ch.randint(1, cfg['max_nodes'], 'tree-budget')], ch.draw(ncomp, 'firer'),
                              'prepare_unregister' if is_unreg else None))
    BOUND = 4 * st['gen_steps'] + 6 * st['calls'] + maxdepth + 10

    # a plain handler may call self.flush() between its fires (flush() is re-entrant by design): what it fires afterwards is still fired "while
    # handling" its event.  Only in programs without handler-less events (the harness learns about their dispatch from its own flush marker,
    # which a nested flush would not trigger), drawn after the trees so that the rest of the tape keeps its meaning.
    def _all_nodes(n, acc):
        acc.append(n)
        for sl in slots:
            for acts in n.specs.get(sl['idx'], ()):
                for a in acts:
                    if a[0] in FIRES:
                        _all_nodes(a[1], acc)
        return acc
    _nodes = [x for r in roots for x in _all_nodes(r, [])]
    if K_NESTED_FLUSH not in ctx.avoid and all(x.nslots > 0 for x in _nodes) and ch.chance(1, 3, 'nested-flush'):
        for x in _nodes:
            for sl in slots:
                if sl['gen']:
                    continue
                for acts in x.specs.get(sl['idx'], ()):
                    if any(a[0] == 'fire' for a in acts) and ch.chance(1, 2, 'flush-here'):
                        acts.insert(ch.draw(len(acts) + 1, 'flush-pos'), ('flush',))

    def strip(n, above=False):
        """attribution re-run (see run_one): leave the muted kinds out of the program"""
        if F_NESTED in mute and above:          # a requester inside the closure of another one
            n.complete = n.cc = False
        if F_NOH in mute:                       # every event gets one (do-nothing) handler more
            n.nslots += 1
            n.specs[filler['idx']] = [[]]
        for sl in slots:
            for i, acts in enumerate(n.specs.get(sl['idx'], ())):
                out = []
                for a in acts:
                    if a[0] == 'stop' and F_STOP in mute or a[0] == 'raise' and (F_GENRAISE if sl['gen'] else F_RAISE) in mute:
                        continue
                    if a[0] in FIRES:
                        if F_CANCEL in mute and a[1].cancel == 1:
                            continue
                        if F_CANCEL in mute:
                            a[1].cancel = 0
                        strip(a[1], above or n.complete)
                    out.append(a)
                n.specs[sl['idx']][i] = out

    filler = dict(idx=len(slots), comp=ncomp, gen=False, names=NAMES + ['prepare_unregister'], prio=0)
    if mute:
        for r in roots:
            strip(r)
        if F_NOH in mute:
            slots.append(filler)
            cchan.append('*')

    # ---------------------------------------------------------------- ghost helpers
    def closure(x):
        out, stack = [], [x]
        while stack:
            g = G[stack.pop()]
            out.append(g)
            stack.extend(reversed(g.kids))
        return out

    def done(g):
        """cancelled before dispatch, or dispatched to all its handlers (all returned, all generators finished)"""
        if g.state == 'cancelled':
            return True
        if not g.nslots:
            # a handler-less event cannot be seen being dispatched: it is done once the queue pass it belongs to has ended
            # (state 'begun'); while that pass is running it may already have been popped, so it is given the benefit of the doubt
            return g.state == 'begun' or st['passes'] >= g.pass_
        if g.state != 'begun' or g.open:
            return False
        if st['in_h'] and st['cur_h'] == g.eid:
            return False
        return g.stopped or len(g.ran) == g.nslots

    def gen_edge_between(g, x):
        while g.eid != x:
            if g.via_gen:
                return True
            g = G[g.parent]
        return False

    def describe(g):
        if g.state == 'pending':
            return 'not-dispatched'
        if g.open:
            return 'generator-handler-running'
        return 'handlers-remaining'

    def new_ghost(node, ev, parent, via_gen):
        st['eid'] += 1
        g = Ghost()
        g.eid, g.node, g.ev, g.parent, g.via_gen = st['eid'], node, ev, parent, via_gen
        g.kids, g.state, g.ran, g.stopped, g.open, g.gen_raised, g.plain_raised = [], 'pending', set(), False, 0, False, False
        g.cfired, g.drained_at, g.nslots = 0, None, node.nslots
        if parent in st.get('flushed_in', ()):
            st.setdefault('after_flush', set()).add(g.eid)      # fired by a handler that had called flush() before
        g.pass_ = st['passes'] + 1        # the earliest (and, for a correct queue, the) pass that pops it: the next one to begin
        if not g.nslots:
            pend0.append(g)
            if parent and G[parent].node.tracked:
                ctx.stat('tracked-handlerless')
                ctx.stat('tracked-deaf-channel' if by_name.get(node.name) else 'tracked-unhandled-name')
        ev.sim_id = g.eid
        G[g.eid] = g
        if parent:
            G[parent].kids.append(g.eid)
        if node.complete:
            tracked.append(g.eid)
        ctx.log('F', g.eid, node.name, node.echan, g.nslots, parent or 0, int(via_gen), int(node.complete), int(node.cc), int(st['task_phase']))
        return g

    def do_fire(comp, node, parent, via_gen, indent='    ', how='fire', kw=None):
        """fires the event; for how='call' returns (ghost, the callEvent generator) - circuits fires it when that generator is started"""
        e = Event.create(node.name)
        if node.complete:
            e.complete = True
        if node.succ:
            e.success = True
        if node.cc:
            e.complete_channels = ('cc',)
            ctx.stat('complete-channels')
        g = new_ghost(node, e, parent, via_gen)
        ctx.trace('%s%s e%d %s%s%s%s%s%s' % (indent, 'yield call%s' % (kw and '(timeout=%d)' % kw['timeout'] or '') if how == 'call' else 'fire', g.eid, node.name, (' on %s' % node.chan if node.chan else '') +
                                           ('' if g.nslots else ' [no handler]'), ' complete=True' if node.complete else '',
                                         ' complete_channels=cc' if node.cc else '', ' success=True' if node.succ else '',
                                         ' (child of e%d%s)' % (parent, ', from a generator step' if via_gen else '') if parent else ''))
        if how == 'call':
            return g, (comp.call(e, **kw) if node.chan is None else comp.call(e, node.chan, **kw))
        if node.chan is None:
            comp.fire(e)
        else:
            comp.fire(e, node.chan)
        return g

    def cancel(g, who):
        g.ev.cancel()
        g.state = 'cancelled'
        ctx.stat('fault:cancel-by-%s' % who)
        if g.node.depth and G[g.parent].node.tracked:
            ctx.stat('tracked-cancel')
            if who == 'harness':
                ctx.stat('harness-cancel-tracked')
        ctx.log('C', g.eid, who)
        ctx.trace('%se%d.cancel() by the %s' % ('      ' if who == 'firer' else '', g.eid, who))

    def run_act(comp, event, g, act, via_gen):
        """one action of a handler; returns the generator to `yield` for call/wait acts, else None"""
        tr = g.node.tracked
        if act[0] in FIRES:
            if via_gen and tr:
                ctx.stat('tracked-gen-step-fire')
            if act[0] == 'fire':
                c = do_fire(comp, act[1], g.eid, via_gen, '      ')
                if act[1].cancel == 1:
                    cancel(c, 'firer')
                return None
            if tr:
                ctx.stat('tracked-call' if act[0] == 'call' else 'tracked-wait')
                if not act[1].nslots:
                    ctx.stat('tracked-call-handlerless')
            kw = {} if act[2] is None else dict(timeout=act[2])
            if act[0] == 'call':
                return do_fire(comp, act[1], g.eid, True, '      ', 'call', kw)[1]
            c = do_fire(comp, act[1], g.eid, True, '      ')
            ctx.trace('      yield wait(%s%s)' % ('e%d' % c.eid if act[0] == 'waitobj' else repr(act[1].name), ', timeout=%d' % act[2] if kw else ''))
            return comp.wait(c.ev if act[0] == 'waitobj' else act[1].name, **kw)
        if act[0] == 'flush':
            ctx.stat('handler-calls-flush')
            if tr:
                ctx.stat('tracked-handler-calls-flush')
            ctx.trace('      self.flush()')
            st.setdefault('flushed_in', set()).add(g.eid)
            MANAGER.flushEvents(comp)       # the plain method: the harness's pass marker is for the passes the harness starts
            return None
        if act[0] == 'stop':
            event.stop()
            g.stopped = True
            ctx.stat('fault:stop')
            if tr:
                ctx.stat('tracked-stop')
            ctx.trace('      e%d.stop()' % g.eid)
            return None
        ctx.stat('fault:raise-gen' if via_gen else 'fault:raise-plain')
        if tr:
            ctx.stat('tracked-raise-gen' if via_gen else 'tracked-raise-plain')
        ctx.trace('      raise')
        raise Injected('injected into a handler of e%d' % g.eid)

    # ---------------------------------------------------------------- oracle, fire-time part
    def on_complete_fired(x):
        gx = G[x]
        gx.cfired += 1
        ctx.log('K', x, int(st['task_phase']))
        ctx.trace('  ** %s_complete fired (for e%d)%s' % (gx.node.name, x, ' from the task phase' if st['task_phase'] else ''))
        ctx.stat('complete-fired')
        if st['task_phase']:
            ctx.stat('complete-fired-from-task-phase')
        if gx.node.depth:
            ctx.stat('nested-complete')
        elif any(G[t].node.depth == 0 and t != x and G[t].state == 'begun' and not G[t].cfired for t in tracked):
            ctx.stat('roots-in-flight>=2')
        # "`<name>_complete` is fired exactly once"
        if gx.cfired > 1:
            ctx.violation('C05/exactly-once/fired-twice', '%s_complete fired %d times for e%d' % (gx.node.name, gx.cfired, x))
            return
        # "and only after the event and every event fired directly or transitively while handling it (from plain handlers and
        #  from later steps of generator handlers) have been dispatched to all their handlers" (cancelled ones are never dispatched)
        cl = closure(x)
        bad = [g for g in cl if not done(g)]
        if bad:
            direct = [g for g in bad if not gen_edge_between(g, x)]
            g = (direct or bad)[0]
            key = 'C05/early-complete/' + (describe(g) if direct else 'fired-from-generator-step')
            af = st.get('after_flush', ())
            t = g
            while t is not None and t.eid != x:
                if t.eid in af:
                    key = K_NESTED_FLUSH        # the member (or an ancestor of it inside the closure) was fired after its handler's flush()
                    break
                t = G.get(t.parent)
            ctx.violation(key, '%s_complete for e%d fired while e%d (%s, %s) of its closure is %s; undrained closure members: %r' % (
                gx.node.name, x, g.eid, g.node.name, 'below a generator-step fire' if not direct else 'reached through plain handlers only',
                describe(g), [b.eid for b in bad]))
            return
        feats = (sum(len(cl) >= b for b in (2, 4, 7, 13)), max(g.node.depth for g in cl) - gx.node.depth, min(3, sum(g.via_gen for g in cl[1:])),
                 min(2, sum(g.state == 'cancelled' for g in cl)), min(2, sum(g.stopped for g in cl)),
                 min(2, sum(g.plain_raised for g in cl)), min(2, sum(g.gen_raised for g in cl)),
                 min(2, sum(g.node.complete for g in cl[1:])), min(2, sum(not g.nslots for g in cl[1:])), int(st['task_phase']))
        ctx.state(feats)
        if len(cl) >= 3 and (any(feats[2:7]) or feats[8]):
            st['nontrivial'] = True

    # ---------------------------------------------------------------- oracle, liveness part
    def check_liveness():
        # "It is always eventually fired once that closure has drained, also when some of those events were cancelled,
        #  stopped, or had handlers that raised."
        waiting = False
        for x in tracked:
            gx = G[x]
            if gx.cfired or gx.state != 'begun':
                continue
            if gx.drained_at is None:
                if all(done(g) for g in closure(x)):
                    gx.drained_at = st['ticks']
                    ctx.log('Z', x)
                    ctx.trace('  (closure of e%d has drained, %s_complete not fired yet)' % (x, gx.node.name))
            if gx.drained_at is not None:
                waiting = True
                if st['ticks'] - gx.drained_at > BOUND:
                    cl = closure(x)
                    canc = [g.eid for g in cl if g.state == 'cancelled']
                    graise = [g.eid for g in cl if g.gen_raised]
                    noh = [g.eid for g in cl[1:] if not g.nslots and g.state != 'cancelled']
                    stopd, praise = [g.eid for g in cl if g.stopped], [g.eid for g in cl if g.plain_raised]
                    nested = [g.eid for g in cl[1:] if g.node.complete and g.state != 'cancelled']
                    # first key: the kinds present in the closure (run_one then narrows it down to the one to blame)
                    present = ((F_CANCEL, canc), (F_GENRAISE, graise), (F_NOH, noh), (F_STOP, stopd), (F_RAISE, praise), (F_NESTED, nested))
                    key = 'C05/never-completes/' + ('+'.join(f for f, ids in present if ids) or 'liveness')
                    ctx.violation(key, '%s_complete for e%d not fired %d ticks after its closure %r drained (bound %d); cancelled: %r, '
                                  'raising generator handlers: %r, handler-less: %r, stopped: %r, raising plain handlers: %r, nested complete: %r' % (
                                      gx.node.name, x, st['ticks'] - gx.drained_at, [g.eid for g in cl], BOUND, canc, graise, noh,
                                      stopd, praise, nested))
                    return False
        return waiting

    # ---------------------------------------------------------------- components
    class Traced(BaseComponent):
        """fire-time marker: every fire of the tree (also the manager's own self.fire of feedback events) passes here"""

        def fireEvent(self, event, *channels, **kwargs):
            if getattr(event, 'sim_id', None) is None:
                p = getattr(event, 'parent', None)
                x = getattr(p, 'sim_id', None) if isinstance(p, Event) else None
                if x is not None and event.name == p.name + '_complete' and not ctx.violations:
                    if G[x].node.complete:
                        on_complete_fired(x)
                    else:               # the statement is silent about events that did not ask: log only
                        ctx.log('K?', x)
                        ctx.trace('  (%s fired for e%d, which did not ask for it)' % (event.name, x))
                elif event.name == 'prepare_unregister' and st['pending_unreg'] is not None:
                    node, st['pending_unreg'] = st['pending_unreg'], None
                    g = new_ghost(node, event, 0, False)
                    ctx.trace('    fire e%d prepare_unregister complete=True complete_channels=(leaf,) [by leaf.unregister()]' % g.eid)
                else:                   # other manager feedback (exception, *_success, unregistered): log only
                    ctx.log('X', event.name, x or 0)
            return super().fireEvent(event, *channels, **kwargs)

        fire = fireEvent

        def flushEvents(self):
            """queue-pass marker (tick() calls self.flush()): everything queued before this point belongs to the pass that begins"""
            st['passes'] += 1
            st['task_phase'] = False        # tick() steps the tasks first; the flush ends that phase
            try:
                return super().flushEvents()
            finally:
                for g in pend0[:]:
                    if g.pass_ <= st['passes']:
                        pend0.remove(g)
                        if g.state == 'pending':
                            g.state = 'begun'
                            ctx.log('D0', g.eid)
                            ctx.trace('  (pass over: handler-less e%d has been dispatched)' % g.eid)

        flush = flushEvents

    def make_slot(s):
        idx, gen = s['idx'], s['gen']

        def body(self, event, g, steps):
            try:
                for i, acts in enumerate(steps):
                    if i:
                        yield None
                    st['in_h'], st['cur_h'] = 1, g.eid
                    ctx.log('S', g.eid, idx, i)
                    ctx.trace('    generator h%d of e%d: step %d%s' % (idx, g.eid, i, ' (last)' if i == len(steps) - 1 else ''))
                    prev = None
                    for act in acts:
                        if prev == 'timeout' and act[0] in FIRES and g.node.tracked:
                            ctx.stat('tracked-fire-after-timeout' if act[0] == 'fire' else 'tracked-call-after-timeout')
                        if prev in ('call', 'waitobj', 'waitname') and act[0] == 'call' and g.node.tracked:
                            ctx.stat('tracked-sequential-call')
                        w = run_act(self, event, g, act, True)
                        prev = act[0]
                        if w is not None:
                            st['in_h'] = 0
                            try:
                                yield w             # resumed by circuits when the called / awaited event is done
                                how = 'resumed'
                            except CTimeoutError:   # ... or with TimeoutError when timeout= generate_events have passed
                                how = prev = 'timeout'
                                ctx.stat('call-timed-out')
                            st['in_h'], st['cur_h'] = 1, g.eid
                            ctx.log('R', g.eid, idx, i, how)
                            ctx.trace('    generator h%d of e%d: %s in step %d' % (idx, g.eid, 'resumed' if how == 'resumed' else 'TimeoutError caught', i))
                    st['in_h'] = 0
            except Injected:
                st['in_h'] = 0
                g.open -= 1
                st['open'] -= 1
                g.gen_raised = True
                raise
            except GeneratorExit:
                raise
            except BaseException as e:      # circuits would swallow it as a handler error: surface it as a harness error instead
                st.setdefault('bug', 'generator h%d of e%d: %r' % (idx, g.eid, e))
                raise
            g.open -= 1
            st['open'] -= 1

        def h(self, event, *args, **kwargs):
            eid = getattr(event, 'sim_id', None)
            if eid is None:
                return None
            g = G[eid]
            if g.state != 'begun':
                g.state = 'begun'
                ctx.log('D', eid)
                ctx.trace('  dispatch e%d (%s)' % (eid, g.node.name))
            g.ran.add(idx)
            steps = g.node.specs[idx]
            ctx.log('H', eid, idx)
            if gen:
                g.open += 1
                st['open'] += 1
                ctx.trace('    h%d(prio %r) <- e%d: returns a generator with %d step(s)' % (idx, s['prio'], eid, len(steps)))
                return body(self, event, g, steps)
            ctx.trace('    h%d(prio %r) <- e%d' % (idx, s['prio'], eid))
            st['in_h'] += 1
            outer_h = st['cur_h']
            st['cur_h'] = eid
            try:
                for act in steps[0]:
                    run_act(self, event, g, act, False)
            except Injected:
                g.plain_raised = True
                raise
            except BaseException as e:
                st.setdefault('bug', 'h%d of e%d: %r' % (idx, eid, e))
                raise
            finally:
                st['in_h'] -= 1
                st['cur_h'] = outer_h       # a handler that runs inside another handler's flush(): the outer one goes on afterwards
            return None
        h.__name__ = 'h%d' % idx
        return handler(*s['names'], priority=s['prio'])(h)

    class Obs(Traced):
        """logs the dispatch of feedback events by NAME; there is deliberately no catch-all handler anywhere in the tree, so that
        events nobody handles really have no handler at all"""

        @handler(*([n + sfx for n in NAMES for sfx in ('_complete', '_success')] + ['exception']), channel='*')
        def _sim_obs(self, event, *args, **kwargs):
            p = getattr(event, 'parent', None)
            ctx.log('XD', event.name, getattr(p, 'sim_id', 0) or 0)
            if event.name.endswith('_complete'):
                ctx.trace('  dispatch %s' % event.name)

    comps = []
    for ci in range(ncomp):
        ns = {}
        for s in slots:
            if s['comp'] == ci:
                f = make_slot(s)
                ns[f.__name__] = f
        ns['channel'] = cchan[ci]
        comps.append(type('C%d' % ci, (Traced,), ns)())
    root = comps[0]
    for i, c in enumerate(comps[1:], 1):
        c.register(comps[ch.draw(i, 'parent')])
    if len(cchan) > ncomp:        # attribution re-run only: the component with the filler handler
        f = make_slot(filler)
        type('Filler', (Traced,), {f.__name__: f, 'channel': '*'})().register(root)
    Obs().register(root)
    leaves = []
    for r in roots:
        if r.unreg:
            leaves.append(type('Leaf', (Traced,), {})().register(ch.choice(comps, 'leaf-parent')))
    while len(root):          # drain the `registered` events before the experiment
        root.flush()
    # pulse: fire generate_events before every tick(), as a running manager does (it is what the timeouts of call()/wait() count)
    pulse = ch.chance(1, 2, 'generate_events-pulse')
    ctx.trace('program: %s%s' % ('[generate_events fired before every tick()] ' if pulse else '', '; '.join('h%d on C%d(channel %s)%s for %s prio %r' % (s['idx'], s['comp'], cchan[s['comp']], ' [generator]' if s['gen'] else '',
                                                                            ','.join(s['names']), s['prio']) for s in slots)))

    # ---------------------------------------------------------------- history
    def after_op():
        if st.get('bug'):
            raise RuntimeError('exception in the harness part of a generated handler: ' + st['bug'])
        for g in list(G.values()):
            if g.state == 'pending' and g.node.cancel == 2:
                cancel(g, 'harness')
        return check_liveness()

    def do_tick(how):
        mark = len(ctx.trace_lines)
        if how == 'tick':
            st['ticks'] += 1
            ctx.log('T')
            ctx.trace('tick()')
            if pulse:
                root.fire(generate_events(threading.RLock(), 0), '*')
            st['task_phase'] = True
            root.tick()
            st['task_phase'] = False
        else:
            ctx.log('U')
            ctx.trace('flush()')
            root.flush()
        r = after_op()
        if ctx.keep_trace:           # readability only: collapse runs of tick()/flush() in which nothing happened
            if len(ctx.trace_lines) == mark + 1:
                ctx.trace_lines.pop()
                st['idle'] = st.get('idle', 0) + 1
            else:
                flush_idle(mark)
        return r

    def flush_idle(at=None):
        if st.get('idle'):
            ctx.trace_lines.insert(len(ctx.trace_lines) if at is None else at, 'tick()/flush() x %d: nothing to do' % st['idle'])
            st['idle'] = 0

    def fire_root(node):
        if node.unreg:
            leaf = leaves.pop(0)
            st['pending_unreg'] = node
            ctx.stat('unregister-root')
            ctx.trace('leaf.unregister()')
            leaf.unregister()
            st['pending_unreg'] = None
        else:
            do_fire(comps[node.firer], node, 0, False, '')

    todo = list(roots)
    for _ in range(ch.randint(1, cfg['max_ops'], 'nops')):
        if ctx.violations:
            break
        k = ch.weighted([3, 4, 1], 'op')
        if k == 0 and todo:
            fire_root(todo.pop(0))
        elif k == 2:
            do_tick('flush')
        else:
            do_tick('tick')
    while todo and not ctx.violations:
        fire_root(todo.pop(0))
    cap = 40 + 3 * st['gen_steps'] + 8 * st['calls'] + 4 * st['nid'] + 2 * BOUND
    n = 0
    while not ctx.violations:
        waiting = do_tick('tick')
        if not waiting and len(root) == 0 and st['open'] == 0 and not ctx.violations:
            break
        n += 1
        if n > cap:
            raise HarnessLimit('queue=%d open generators=%d after %d ticks' % (len(root), st['open'], n))
    flush_idle()
    ctx.nontrivial = bool(st.get('nontrivial')) or bool(ctx.violations)
    ctx.sim_time = 0.0
