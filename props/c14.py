"""C14 - any bytes on an HTTP connection: wait, or one valid error response, or close; never a crash; nothing retained after disconnect.

Engine: SimNet, level fault_enumeration.  The *inputs* are plain input generation (mutation operators applied to well-formed requests
from refs/http_req.py - said so on purpose); what the simulator adds is the enumeration of the network behaviours around them: the
bytes arrive in drawn pieces and are read with short reads, on 1-3 connections whose actions interleave, and every connection ends in
one of: kept open, orderly close, half close, abort (close with unread data) - at a drawn point, i.e. also in mid-message (truncation
at every offset).  Afterwards a canary request on a fresh connection must be served, then every peer closes and the tables are inspected.

Oracle (deliberately narrow: parser leniency is never a violation).  Every mutation operator is labelled by construction
`must-reject` (non-numeric, negative or conflicting Content-Length, request line with fewer than three parts, non-hex chunk size, NUL in a
header name, unsupported major version - each also rejected by the strict reference parser, asserted per run) or `either`, and `single`
(the bytes cannot be read as more than one message by any reasonable server) or not:
  R1  the bytes the server wrote on a connection (ground truth of the interposer) are a sequence of syntactically valid responses per the
      strict reference parser, complete unless the peer went away first; http.client.HTTPResponse must agree on status and body;
  R2  at most one response answers a `single` mutated message;
  R3  nothing is written behind an error answer (status >= 400) that announces the end of the connection, and the server then closes
      it ("closing the connection when the response says so"; the converse - closing without saying so - is not demanded);
  R4  a `must-reject` message is never dispatched as a `request` event and, if answered, the answer is 4xx/5xx;
      a message answered 4xx/505 was not dispatched as a `request` event;
  R5  tick() never raises (nothing escapes the loop) and the canary on a fresh connection is served with the handler's 200 response;
  R6  once `disconnect` was seen for a socket, no container reachable from the HTTP component, the socket server or the poller holds it
      (generic walk; the path found is part of the key).
  R7  "or simply closes (TLS handshake on a plain-text port)": a connection the server closes without having written a byte for the message,
      while the peer is still there (it neither closed nor half-closed) and what the peer sent does not begin like a TLS / SSL record
      (first byte 0x16 or >= 0x80 after any empty lines - generous on purpose), is neither waiting nor an answer.
Keys carry what is needed to tell root causes apart: the operator for R1/R2/R4, the status class and whether the HTTP layer saw the
message in one read event or in several for R2/R3 (answers to bytes that arrive after an error answer was decided are one known root
cause; two answers to bytes that arrived in ONE read would be another), the table path for R6; for R7 whether the server had set out to
answer (a `response` event was fired but nothing could be written: `response-not-written`) or not (then one-read / several-reads).
Avoidance (ctx.avoid): a key that ends in an operator name removes that operator from the generator; a residue key of the HTTP component
removes that path from the walk (other paths are still found), one of the socket server / poller switches the walk over those two off;
a response-after-close key makes the judge look only at what was written up to the announcing answer; the key
closed-without-response/response-not-written removes the header values that make every answer unwritable (escapes the server decodes
into characters outside latin-1 inside the Cookie it echoes) from the generator.

Bytes with the high bit set (operator non-ascii, arrival mode `before a high byte`).  The server looks at the beginning of a read to
tell a TLS / SSL hello from a request, so where the reads begin matters as much as what is sent: the operator puts latin-1 / UTF-8 text
into a header value, a header name, the path, the query or a cookie of an otherwise well-formed request ("bad header", "bad request
line" of the quantifier; `either`: obs-text in a value is tolerated by RFC 7230, elsewhere a server may reject it), and one arrival mode
ends a piece right before such a byte, so that - like with 1-byte short reads and the cut at every offset - a later read of the same
message begins with it ("truncation at every offset").  R7 then demands what the statement says: the message is waited for or answered.

Reflected request headers (operator hdr-reflected-ctl).  Two request headers come back in answers: every response built from a request
echoes the request's cookies as Set-Cookie (the handler's 200, the 400 for a missing Host, the 505, the 301), and the redirect that
answers a target such as `//` puts the Host into Location.  The server's parser decodes each header line with `unicode_escape` after
it has split the lines, so the request can carry a CR / LF / NUL / other control character into such a value either as an escape
(`\\x0d\\x0a`, `\\r\\n`, `\\n`, `\\x00`, `\\u000d\\u000a`, `\\015\\012` - perfectly well-formed header bytes) or raw where a raw one survives the
line splitting (NUL, bare CR, bare LF).  The operator draws the character(s), the place (quoted cookie value, cookie value followed
by a header look-alike, cookie name, Host) and which answer reflects it (handler, redirect, 400 without Host, 505).  Nothing new is
demanded: R1 already says that what is written is a syntactically valid response - a header line without a colon, a header section
that ends at an injected empty line (Content-Length then no longer describes the body) and a control character inside a field value
are not; a space (what is left of Host `a b`, or of a neutralised control character) is fine, and so is a well-formed extra header line.
"""
from simcore import world, simnet
from simcore.world import W
from simcore.simnet import NET, Peer, make_running
from simcore.runner import HarnessLimit

import collections
import email.utils

from circuits import Manager, Component
from circuits.core.pollers import Select, Poll, EPoll
from circuits.web import BaseServer
import circuits.web.wrappers as _wrappers
import circuits.web.servers as _servers

from refs import http_req as G

ID = 'C14'
LEVEL = 'fault_enumeration'
ENGINE = 'SimNet'
LEVEL_TEXT = ('enumeration of network fault kinds (piecewise arrival, short reads, truncation at a drawn offset, peer close / half close / abort at a '
              'drawn point, 1-3 interleaved connections) around generated malformed requests on the real web server stack; the malformed inputs '
              'themselves are plain input generation by labelled mutation operators; sampling, not proof')
LEVEL_NOTE = ('trusted: the labels of the mutation operators (cross-checked in every run against the strict reference parser), the strict response '
              'parser with http.client as second opinion, the interposer\'s record of bytes written and of close(); the reachability walk '
              'looks into dict / list / set / deque / tuple containers and Request / Response / parser objects reachable from the three components')
RULE = ('each run = 1-3 connections, each with 0-1 well-formed keep-alive requests, then one mutated message (operator, truncation, pieces, read size) '
        'and an end action at a drawn point (pieces: whole / random cuts / around line ends / fixed stride / every offset / right before a byte >= 0x80); '
        'interleaving drawn; then canary, then everything closes. non-trivial = at least one byte of a mutated '
        'message reached the server, at least one connection disconnected and the canary ran; distinct = digest of all bytes sent, actions and outcomes')
STATE_MEASURE = '(mutation operator, outcome class of the connection, end action, message complete or truncated, number of connections)'
REAL = ['circuits.web.servers.BaseServer', 'circuits.web.http.HTTP', 'circuits.web.parsers.http.HttpParser', 'circuits.web.wrappers.Request/Response',
        'circuits.web.errors.httperror', 'circuits.net.sockets.TCPServer', 'circuits.core.pollers.Select/Poll/EPoll', 'circuits.core.manager.Manager']
STUBBED = ['socket -> SimSocket over AF_UNIX', 'select module -> non-blocking shim', 'peers are harness objects', 'circuits.web.wrappers.formatdate/time -> frozen clock',
           'circuits.web.servers.stderr -> sink']
ASSUMPTIONS = ['"retained state" is read as: the socket object is reachable from a container of the HTTP component, the socket server or the poller (the latter two '
               'are reported under their own keys; they overlap with C12)',
               'a response that announces close must be followed by the server closing; a close after an answer that did not announce it is accepted',
               '"simply closes (TLS handshake on a plain-text port)": a close without any response is accepted whenever what the peer sent begins - after '
               'any empty lines - with 0x16 or a byte >= 0x80 (which covers every TLS handshake record and SSLv2 hello and a lot of other binary input), '
               'whenever the peer closed, half-closed or aborted first, and whenever part of a response was written; it is judged only at quiescence on '
               'connections whose peer is still there and only if at least one byte of the mutated message was sent',
               'an error answer with status 500 after a request event is not counted as "dispatching a rejected message" (only 4xx and 505 are rejections)',
               'operators that disturb message framing are not required to produce at most one response (a lenient server may see two messages)',
               'well-formed chunked bodies are not used as mutation bases (how they survive segmentation is C13\'s subject); HEAD is not used',
               'a status line such as "HTTP/9.9 505 ..." is syntactically valid (HTTP-version = HTTP/DIGIT.DIGIT); http.client abstains there',
               'the handler used by the probe never fails, so every 4xx/5xx stems from the HTTP layer',
               'a reflected request header (Cookie -> Set-Cookie, Host -> Location) may come back changed, dropped or as a well-formed extra header line; '
               'only the syntax of what is written is judged (field values without control characters other than HTAB, every header line has a colon, '
               'Content-Length describes what follows the first empty line). whether the server answers such a request at all, or closes, is its choice',
               'a negative Content-Length (operator cl-negative) announces no body, so none is sent behind it']
PROBES = ['fault:short_read', 'fault:piecewise_arrival', 'fault:truncation', 'fault:peer_close', 'fault:peer_abort', 'fault:peer_half_close', 'multi-conn',
          'prefix-request', 'outcome:wait', 'outcome:2xx', 'outcome:4xx', 'outcome:5xx', 'outcome:closed-silently', 'canary-ok', 'disconnect-mid-message',
          'must-reject-op', 'request-event', 'label-checked', 'same-connection-follow-up',
          'reflected-ctl:cookie-value', 'reflected-ctl:cookie-name', 'reflected-ctl:host', 'reflected-ctl:escaped', 'reflected-ctl:raw',
          'reflected-header-written', 'cl-negative',
          'non-ascii', 'non-ascii:header-value', 'non-ascii:header-name', 'non-ascii:path', 'non-ascii:query', 'non-ascii:cookie',
          'piece-starts-with-high-byte', 'continuation-read-starts-with-high-byte', 'silent-close-of-tls-like-input']
TIERS = {
    'quick': dict(runs=90000, wall=33, chunk=100, cfg=dict(max_conns=3, big=1)),
    'thorough': dict(runs=1500000, wall=600, chunk=400, cfg=dict(max_conns=3, big=4)),
}

SRV = ('10.0.0.1', 80)
BODY = 'probe-body'
FROZEN = email.utils.formatdate(world.EPOCH, usegmt=True)


class _Sink:
    def write(self, s):
        W.stderr.append(s)

    def flush(self):
        pass


def _rebind():
    """frozen clock for the web layer (idempotent): the bytes written enter the log, so Date must not depend on the number of iterations."""
    _wrappers.formatdate = lambda *a, **k: FROZEN
    _wrappers.time = lambda: world.EPOCH
    _servers.stderr = _Sink()


def _short(v, n=90):
    r = repr(v)
    return r if len(r) <= n else r[:n // 2] + '...' + r[-n // 3:] + ' (len %d)' % len(v)
POLLERS = [Select, Poll, EPoll]
CANARY = b'GET /canary HTTP/1.1\r\nHost: canary\r\n\r\n'

TLS_HELLO = bytes.fromhex(
    '16030100a5010000a10303' + '5f' * 32 + '00' + '0020' + 'c02fc030c02bc02ccca8cca9c013c014009c009d002f0035000a130113021303' + '0100'
    + '0058' + '0000001000000e00000b6578616d706c652e636f6d' + '000b000403000102' + '000a000c000a001d0017001e00190018' + '0023000000160000' + '00170000'
    + '000d001e001c040305030603080708080809080a080b080408050806040105010601')
SSLV2_HELLO = bytes.fromhex('802e0100020015000000100100800200800300800400800500800600400700c0') + b'\x5a' * 16


# ---------------------------------------------------------------------------------------------------------------------------
# mutation operators (plain input generation).  Each takes (ch, first line, header lines, body) of a well-formed request and returns
# the mutated (first line, header lines, body) or the final bytes.

def _find(lines, name):
    name = name.lower() + b':'
    return [k for k, l in enumerate(lines) if l.lower().startswith(name)]


def _set_header(lines, name, value):
    ks = _find(lines, name)
    new = name + b': ' + value
    if ks:
        lines[ks[0]] = new
    else:
        lines.append(new)
    return lines


def _target(fl, new):
    a, _, c = fl.split(b' ', 2)
    return b' '.join((a, new, c))


def _version(fl, new):
    a, b, _ = fl.split(b' ', 2)
    return b' '.join((a, b, new))


def op_valid(ch, fl, lines, body):
    return fl, lines, body


def op_reqline_one_part(ch, fl, lines, body):
    return fl.split(b' ')[0], lines, body


def op_reqline_two_parts(ch, fl, lines, body):
    return b' '.join(fl.split(b' ')[:2]), lines, body


def op_reqline_leading_crlf(ch, fl, lines, body):
    return b'\r\n' * ch.randint(1, 2, 'ncrlf') + fl, lines, body


def op_reqline_four_parts(ch, fl, lines, body):
    a, b, c = fl.split(b' ', 2)
    return b' '.join((a, b, b'extra', c)), lines, body


def op_reqline_bad_method(ch, fl, lines, body):
    m = ch.choice([b'G@T', b'get', b'G\x00T', b'(GET)', b'G' * 30, b'GE T', b'"GET"'], 'bad-method')
    return m + fl[fl.index(b' '):], lines, body


def op_reqline_bad_version(ch, fl, lines, body):
    return _version(fl, ch.choice([b'HTTP/1.1x', b'HTTX/1.1', b'HTTP/11', b'http/1.1', b'HTTP/1', b'HTTP/1.', b'HTTP/-1.1', b'HTTP/1.1 ', b'1.1'], 'bad-version')), lines, body


def op_reqline_major_version(ch, fl, lines, body):
    return _version(fl, ch.choice([b'HTTP/2.0', b'HTTP/0.9', b'HTTP/3.1', b'HTTP/9.9'], 'major-version')), lines, body


def op_reqline_escape(ch, fl, lines, body):
    e = ch.choice([b'\\x', b'\\', b'\\u12', b'\\N{', b'\\U00110000', b'\\x41', b'\\n', b'\\r\\n', b'\\777', b'\\N{BULLET}', b'\\x0'], 'escape')
    return _target(fl, b'/e' + e + b'z' if ch.draw(2, 'esc-pos') == 0 else b'/e' + e), lines, body


def op_reqline_nul(ch, fl, lines, body):
    return _target(fl, ch.choice([b'/a\x00b', b'\x00', b'/\x00'], 'nul-target')), lines, body


def op_reqline_odd_target(ch, fl, lines, body):
    t = ch.choice([b'/p#frag', b'/%zz%', b'/%', b'/caf\xe9', b'/\xff\xfe', b'*', b'//', b'/a/../../b', b'?', b'http://', b'http://[::1', b'/a?b?c#d',
                   b'/\x7f', b'/a\tb', b'/;;;=', b'://', b'/' + b'%41' * 500], 'odd-target')
    return _target(fl, t), lines, body


def op_reqline_long(ch, fl, lines, body, big=1):
    return _target(fl, b'/' + b'a' * ch.choice([5000, 8192, 70000 * big], 'long-target')), lines, body


def op_reqline_spacing(ch, fl, lines, body):
    a, b, c = fl.split(b' ', 2)
    sep = ch.choice([b'  ', b'\t', b' \t '], 'sep')
    return a + sep + b + sep + c, lines, body


def op_hdr_no_colon(ch, fl, lines, body):
    lines.insert(ch.draw(len(lines) + 1, 'pos'), ch.choice([b'NoColonHere', b'junk junk', b'=', b'\x01'], 'junk-line'))
    return fl, lines, body


def op_hdr_nul_name(ch, fl, lines, body):
    lines.insert(ch.draw(len(lines) + 1, 'pos'), ch.choice([b'X-\x00A: 1', b'\x00: 1', b'X-A\x00: v'], 'nul-name'))
    return fl, lines, body


def op_hdr_odd_field(ch, fl, lines, body, latin1_only=False):
    l = ch.choice([b'X-A: a\x00b', b'X-A : 1', b': value', b'X-H: caf\xe9', b'X-E: \\x', b'X-E: \\', b'X-E: \\N{', b'X-E\\x: 1', b'X-CR: a\rb', b'X(A): 1', b'X-A: \x7f\x01',
                   b'X-A:', b':', b'X-E: \\u00e9\\U0001F600', b'Cookie: \x00=;;;,', b'Cookie: a b c=d; =; "', b'Content-Type: ;;;=', b'Accept: ,;q=x,', b'Connection: \\x',
                   # escapes the parser's unicode_escape decoding turns into characters outside latin-1, in the one header the response echoes
                   b'Cookie: a="\\u20ac"', b'Cookie: k=\\u0100; j=1', b'Cookie: \\N{BULLET}=1'][:-3 if latin1_only else None],
                  'odd-field')
    lines.insert(ch.draw(len(lines) + 1, 'pos'), l)
    return fl, lines, body


def op_hdr_leading_continuation(ch, fl, lines, body):
    lines.insert(0, b' folded-without-a-field')
    return fl, lines, body


def op_hdr_oversized(ch, fl, lines, body, big=1):
    lines.insert(ch.draw(len(lines) + 1, 'pos'), b'X-Big: ' + b'v' * ch.choice([8192, 65536, 150000 * big], 'big-size'))
    return fl, lines, body


def op_hdr_many(ch, fl, lines, body, big=1):
    for i in range(ch.choice([200, 1000 * big], 'nmany')):
        lines.append(b'X-M%d: %d' % (i, i))
    return fl, lines, body


def op_hdr_host(ch, fl, lines, body):
    k = ch.draw(5, 'host-mut')
    lines = [l for l in lines if not l.lower().startswith(b'host:')] if k in (0, 2, 3, 4) else lines
    if k == 1:
        lines.append(b'Host: other.example')
    elif k == 2:
        lines.append(b'Host: h:80x')
    elif k == 3:
        lines.append(b'Host: h:')
    elif k == 4:
        lines.append(b'Host: [::1]:8080')
    if fl.endswith(b'1.0') and k == 0:
        fl = fl[:-1] + b'1'
    return fl, lines, body


def op_bare_lf(ch, fl, lines, body):
    return fl + b'\n' + b''.join(l + b'\n' for l in lines) + b'\n' + body


def op_cl_nonnumeric(ch, fl, lines, body):
    return fl, _set_header(lines, b'Content-Length', ch.choice([b'abc', b'12abc', b'x1', b'1e3', b'five', b'1.5', b'--1', b'0x', b'1,x'], 'cl-junk')), body


def op_cl_conflicting(ch, fl, lines, body):
    n = len(body)
    form = ch.draw(3, 'conflict-form')
    if form == 2 and n >= 10:
        # the two values differ, and one is textually contained in the other (11 and 1, 25 and 5): a de-duplicating or substring-testing
        # header store must not make the conflict disappear
        d = b'%d' % n
        other = [d[:1], d[-1:], d[:-1], d[1:].lstrip(b'0') or b'0'][ch.draw(4, 'conflict-part')]
        if other == d:
            other = d[:1] if d[:1] != d else b'0'
        lines = _set_header(lines, b'Content-Length', d)
        lines.insert(ch.draw(len(lines) + 1, 'pos'), b'Content-Length: ' + other)
    elif form in (0, 2):
        lines = _set_header(lines, b'Content-Length', b'%d' % n)
        lines.insert(ch.draw(len(lines) + 1, 'pos'), b'Content-Length: %d' % (n + ch.choice([1, 7, 1000], 'delta')))
    else:
        lines = _set_header(lines, b'Content-Length', b'%d, %d' % (n, n + 2))
    return fl, lines, body


def op_cl_odd(ch, fl, lines, body):
    n = len(body)
    v = ch.choice([b'-%d' % max(n, 1), b'+%d' % n, b'%d_0' % max(n // 10, 1), b'9' * 30, b'0x%x' % n, b'', b' %d ' % n, b'%d' % (n + 10), b'%d' % max(n - 1, 0), b'0',
                   b'%d, %d' % (n, n), b'\xd9\xa5', b'00000%d' % n, b'1 0'], 'cl-odd')
    lines = _set_header(lines, b'Content-Length', v)
    if ch.chance(1, 5, 'te-too'):
        lines.append(b'Transfer-Encoding: chunked')
    return fl, lines, body


def op_cl_negative(ch, fl, lines, body):
    """"non-numeric / negative / conflicting Content-Length": a length below zero; it announces no body, so none follows"""
    n = len(body)
    return fl, _set_header(lines, b'Content-Length', ch.choice([b'-%d' % max(n, 1), b'-1', b'-5', b'-' + b'9' * 25], 'cl-negative')), b''


# what ends up inside a reflected header value: as an escape the server's own unicode_escape decoding of header lines turns into the
# character (well-formed header bytes), or raw where a raw one survives the splitting into lines (NUL, bare CR, bare LF)
REFLECTED_CTL = [b'\\x0d\\x0a', b'\\r\\n', b'\\n', b'\\x00', b'\\u000d\\u000a', b'\\x0d\\x0a\\x0d\\x0a', b'\\r\\n\\r\\n', b'\\r', b'\\015\\012', b'\\N{NULL}',
                 b'\\x01', b'\\x7f', b'\\x1b[2J', b'\x00', b'\r', b'\n']


def op_hdr_reflected_ctl(ch, fl, lines, body, tags=None):
    """CR / LF / NUL / another control character inside one of the two request headers that answers reflect: Cookie (echoed as Set-Cookie
    by every response built from the request) and Host (Location of a redirect); see the module docstring."""
    tags = [] if tags is None else tags
    brk = ch.choice(REFLECTED_CTL, 'ctl')
    tags.append('reflected-ctl:escaped' if brk[:1] == b'\\' else 'reflected-ctl:raw')
    where = ch.draw(4, 'reflected-in')
    answer = ch.draw(4, 'answered-by')          # 0 the handler, 1 a redirect (target //), 2 the 400 for a missing Host, 3 the 505
    if where == 3:
        tags.append('reflected-ctl:host')
        lines = [l for l in lines if not l.lower().startswith(b'host:')] + [b'Host: a' + brk + b'b']
        if answer == 2:
            answer = 1                          # the Host is what is reflected here; the redirect is the answer that carries it
    else:
        tags.append('reflected-ctl:cookie-name' if where == 2 else 'reflected-ctl:cookie-value')
        lines = [l for l in lines if not l.lower().startswith(b'cookie:')]
        cookie = [b'Cookie: a="' + brk + b'junk line"', b'Cookie: k=1; a="v' + brk + b'X-Injected: 1"', b'Cookie: a' + brk + b'b=1; c=d'][where]
        lines.insert(ch.draw(len(lines) + 1, 'pos'), cookie)
    if answer == 1:
        fl = _target(fl, b'//')
    elif answer == 2:
        lines = [l for l in lines if not l.lower().startswith(b'host:')]
        if fl.endswith(b'1.0'):
            fl = fl[:-1] + b'1'
    elif answer == 3:
        fl = _version(fl, b'HTTP/2.0')
    return fl, lines, body


def _chunked_body(sizeline, data=b'hello', tail=b'0\r\n\r\n', term=b'\r\n'):
    return sizeline + b'\r\n' + data + term + tail


def op_chunk_nonhex(ch, fl, lines, body):
    s = ch.choice([b'zz', b'5g', b'xyz', b'g', b'5 5', b'0xg', b'--'], 'nonhex')
    pre = b'' if ch.draw(2, 'first-chunk') == 0 else b'3\r\nabc\r\n'
    return fl, lines, pre + _chunked_body(s)


def op_chunk_odd(ch, fl, lines, body):
    k = ch.draw(8, 'chunk-odd')
    if k == 0:
        b = _chunked_body(b'-5')
    elif k == 1:
        b = _chunked_body(b'0x5')
    elif k == 2:
        b = _chunked_body(b'f' * 20)
    elif k == 3:
        b = _chunked_body(b'')
    elif k == 4:
        b = _chunked_body(b'5', term=b'XX')
    elif k == 5:
        b = _chunked_body(b'5', tail=b'')
    elif k == 6:
        b = _chunked_body(b'5;\x00\xff=\\x')
    else:
        b = _chunked_body(b'5', tail=b'0\r\nBad Trailer\r\n\x00\r\n\r\n')
    return fl, lines, b


def op_tls_hello(ch, fl, lines, body):
    return [TLS_HELLO, SSLV2_HELLO, TLS_HELLO + b'\r\n\r\n', b'\x16\x03\x03\x00\x02\r\n'][ch.weighted([3, 2, 1, 1], 'hello')]


def op_binary(ch, fl, lines, body):
    n = ch.choice([1, 2, 7, 40, 200], 'nbin')
    out = bytearray(ch.bytes(n, 'bin'))
    for _ in range(ch.draw(3, 'ncrlf')):
        k = ch.draw(len(out) + 1, 'crlf-pos')
        out[k:k] = b'\r\n'
    return bytes(out)


# text outside ASCII as it turns up in names, search terms and cookies: latin-1, UTF-8, a byte-order mark, lone high bytes
NON_ASCII = [b'caf\xe9 cr\xe8me', b'\xc3\xa9t\xc3\xa9', b'\xe9', b'\xe2\x82\xac 5', b'\xff\xfe', b'na\xefve', b'\x80', b'\xa0\xa0', b'\xf0\x9f\x98\x80',
             b'M\xfcnchen', b'\xd0\x9c\xd0\xb8\xd1\x80']


def op_non_ascii(ch, fl, lines, body, tags=None):
    """bytes >= 0x80 (obs-text: tolerated in field values by RFC 7230, not allowed in a name or a target - a server may take or reject either)
    in one place of an otherwise well-formed request: a header value, a header name, the path, the query, a cookie value.  Together with
    the arrival in pieces this is what puts a byte with the high bit set at the start of a read in the middle of the header section."""
    txt = ch.choice(NON_ASCII, 'non-ascii-text')
    where = ch.draw(5, 'non-ascii-in')
    if tags is not None:
        tags.append('non-ascii:' + ['header-value', 'header-name', 'path', 'query', 'cookie'][where])
    if where == 0:
        lines.insert(ch.draw(len(lines) + 1, 'pos'), ch.choice([b'X-Name: ', b'User-Agent: ', b'X-Name:'], 'value-of') + txt)
    elif where == 1:
        lines.insert(ch.draw(len(lines) + 1, 'pos'), b'X-' + txt.replace(b' ', b'-') + b': 1')
    elif where == 2:
        fl = _target(fl, b'/' + txt.replace(b' ', b'%20'))
    elif where == 3:
        a, b, c = fl.split(b' ', 2)
        fl = b' '.join((a, b + (b'&' if b'?' in b else b'?') + b'q=' + txt.replace(b' ', b'+'), c))
    else:
        lines = [l for l in lines if not l.lower().startswith(b'cookie:')]
        lines.insert(ch.draw(len(lines) + 1, 'pos'), b'Cookie: n=' + txt.replace(b' ', b'_'))
    return fl, lines, body


# name, weight, must-reject, single, framing the base request needs, function
OPS = [
    ('valid', 2, False, True, None, op_valid),
    ('reqline-one-part', 3, True, True, None, op_reqline_one_part),
    ('reqline-two-parts', 3, True, True, None, op_reqline_two_parts),
    ('reqline-leading-crlf', 1, False, False, None, op_reqline_leading_crlf),
    ('reqline-four-parts', 2, False, True, None, op_reqline_four_parts),
    ('reqline-bad-method', 2, False, True, None, op_reqline_bad_method),
    ('reqline-bad-version', 3, False, True, None, op_reqline_bad_version),
    ('reqline-major-version', 3, True, True, None, op_reqline_major_version),
    ('reqline-escape', 4, False, True, None, op_reqline_escape),
    ('reqline-nul', 2, False, True, None, op_reqline_nul),
    ('reqline-odd-target', 4, False, True, None, op_reqline_odd_target),
    ('reqline-long', 1, False, True, None, op_reqline_long),
    ('reqline-spacing', 1, False, True, None, op_reqline_spacing),
    ('hdr-no-colon', 2, False, True, None, op_hdr_no_colon),
    ('hdr-nul-name', 3, True, True, None, op_hdr_nul_name),
    ('hdr-odd-field', 5, False, True, None, op_hdr_odd_field),
    ('hdr-leading-continuation', 1, False, True, None, op_hdr_leading_continuation),
    ('hdr-oversized', 1, False, True, None, op_hdr_oversized),
    ('hdr-many', 1, False, True, None, op_hdr_many),
    ('hdr-host', 3, False, True, None, op_hdr_host),
    ('bare-lf', 2, False, False, None, op_bare_lf),
    ('cl-nonnumeric', 4, True, True, 'clen', op_cl_nonnumeric),
    ('cl-conflicting', 4, True, True, 'clen', op_cl_conflicting),
    ('cl-odd', 4, False, False, 'clen', op_cl_odd),
    ('chunk-nonhex', 4, True, True, 'chunked', op_chunk_nonhex),
    ('chunk-odd', 3, False, False, 'chunked', op_chunk_odd),
    ('tls-hello', 3, False, False, None, op_tls_hello),
    ('binary', 3, False, False, None, op_binary),
    # (appended, so that the operator indices recorded in older replay tapes keep their meaning)
    ('hdr-reflected-ctl', 5, False, True, None, op_hdr_reflected_ctl),
    ('cl-negative', 3, True, True, 'clen', op_cl_negative),
    ('non-ascii', 5, False, True, None, op_non_ascii),
]
OPNAMES = [o[0] for o in OPS]


def mutated(ch, cfg, avoid_ops=frozenset(), tags=None, latin1_only=False):
    """(op name, must_reject, single, bytes); `tags`: list that receives the reach-probe names of the shape an operator drew;
    `latin1_only`: no escape that the server decodes into a character outside latin-1 in the header its answers echo (Cookie)"""
    weights = [0 if o[0] in avoid_ops else o[1] for o in OPS]
    name, _, must, single, framing, fn = OPS[ch.weighted(weights, 'op')]
    if framing is None:
        framing = ['none', 'clen'][ch.draw(2, 'base-framing')]       # how well-formed chunked bodies survive segmentation is C13's subject
    base = G.gen_request(ch, keepalive=None, allow_head=False, variants=False, max_extra=2, framing=framing)
    raw = base.raw
    i = raw.index(b'\r\n')
    j = base.labels.index('En') + 1
    text = raw[i + 2:j - 2]
    lines = text.split(b'\r\n')[:-1] if text else []
    if fn in (op_reqline_long, op_hdr_oversized, op_hdr_many):
        r = fn(ch, raw[:i], lines, raw[j:], cfg.get('big', 1))
    elif fn is op_hdr_odd_field:
        r = fn(ch, raw[:i], lines, raw[j:], latin1_only)
    elif fn in (op_hdr_reflected_ctl, op_non_ascii):
        r = fn(ch, raw[:i], lines, raw[j:], tags)
    else:
        r = fn(ch, raw[:i], lines, raw[j:])
    if isinstance(r, tuple):
        fl, lines, body = r
        r = fl + b'\r\n' + b''.join(l + b'\r\n' for l in lines) + b'\r\n' + body
    return name, must, single, r


def check_label(name, must, raw):
    """the labels are by construction; this is the cross-check against the strict reference parser."""
    try:
        p = G.parse_request(raw)
        ok = True
    except G.Bad:
        p, ok = None, False
    if must and ok:
        raise AssertionError('operator %s is labelled must-reject but the strict parser accepts %r' % (name, raw[:200]))
    if name == 'valid' and not (ok and p is not None and p.consumed == len(raw)):
        raise AssertionError('operator valid produced something the strict parser does not accept: %r' % raw[:200])


def pieces_for(ch, raw):
    """cut the bytes into the pieces in which they arrive"""
    n = len(raw)
    if n < 2:
        return [raw] if raw else []
    highs = [i for i in range(1, min(n, 4000)) if raw[i] >= 0x80 and raw[i - 1] < 0x80]
    k = ch.weighted([3, 3, 3, 1, 1, 3 if highs else 0], 'arrival')
    if k == 5:
        # a piece ends right before a byte with the high bit set (a multi-byte character, a latin-1 letter, binary data), so that the next
        # read begins with it; sometimes one more cut anywhere
        cuts = sorted({ch.choice(highs, 'high') for _ in range(ch.randint(1, 2, 'ncuts'))} | ({1 + ch.draw(n - 1, 'cut')} if ch.chance(1, 3, 'one-more') else set()))
    elif k == 0:
        cuts = []
    elif k == 1:
        cuts = sorted({1 + ch.draw(n - 1, 'cut') for _ in range(ch.randint(1, 4, 'ncuts'))})
    elif k == 2:
        marks = [i for i in range(1, n) if raw[i] in (10, 13) or raw[i - 1] in (10, 13)][:400] or [1]
        cuts = sorted({min(max(ch.choice(marks, 'mark') + ch.choice([0, -1, 1], 'around'), 1), n - 1) for _ in range(ch.randint(1, 4, 'ncuts'))})
    elif k == 3:
        s = ch.randint(2, 40, 'stride')
        cuts = list(range(s, n, s))[:120]
    else:
        cuts = list(range(1, min(n, 160)))
    out, last = [], 0
    for c in cuts + [n]:
        out.append(raw[last:c])
        last = c
    return out


def looks_like_tls(sent):
    """does what the peer sent begin like a TLS / SSL record?  Generous on purpose: after any empty lines (a server may skip them before a request
    line) the first byte is 0x16 (TLS record of type handshake, whatever version follows) or has the high bit set (SSLv2 record header in
    its two-byte form, the only thing an SSLv2 hello can start with; any length).  Nothing that starts like text does."""
    sent = sent.lstrip(b'\r\n')
    return bool(sent) and (sent[0] == 0x16 or sent[0] >= 0x80)


class ReadCap(simnet.NoFaults):
    """short_read: recv() on the server side of a connection returns at most its drawn cap"""

    def __init__(self, ctx):
        self.ctx = ctx
        self.caps = {}      # peer address -> k

    def on_recv(self, sock, n):
        k = self.caps.get(sock.sim_peer)
        if k and n > k:
            self.ctx.stat('fault:short_read')
            return ('short', k)
        return None


SKIP_ATTRS = {'parent', 'root', 'components', 'manager', '_handlers', '_globals', '_cache', '_queue', '_tasks', '_lock', '_executing_thread',
              '_Manager__thread', '_Manager__process', '_server', '_poller', 'server', 'http', '_sock'}
CONTAINERS = (dict, list, tuple, set, frozenset, collections.deque)


def holds(root, target, exclude=frozenset()):
    """first path (as text), not in `exclude`, from a component's attributes through containers / web objects to `target`, or None."""
    seen = set()

    def walk(obj, path, depth):
        if obj is target:
            return None if path in exclude else path
        if depth > 6 or id(obj) in seen:
            return None
        if isinstance(obj, CONTAINERS):
            seen.add(id(obj))
            if isinstance(obj, dict):
                for k, v in list(obj.items()):
                    if k is target:
                        if path + '[sock]' not in exclude:
                            return path + '[sock]'
                        continue
                    r = walk(k, path + '.key', depth + 1) or walk(v, path + '[]', depth + 1)
                    if r:
                        return r
            else:
                for v in list(obj):
                    r = walk(v, path + '[]', depth + 1)
                    if r:
                        return r
        elif type(obj).__module__.startswith(('circuits.web.wrappers', 'circuits.web.parsers', 'circuits.web.headers')):
            seen.add(id(obj))
            fields = vars(obj) if hasattr(obj, '__dict__') else {k: getattr(obj, k, None) for k in getattr(type(obj), '__slots__', ())}
            for k, v in sorted(fields.items()):
                r = walk(v, path + '->%s.%s' % (type(obj).__name__, k), depth + 1)
                if r:
                    return r
        return None

    for name, val in sorted(vars(root).items()):
        if name in SKIP_ATTRS:
            continue
        r = walk(val, '%s.%s' % (type(root).__name__, name), 0)
        if r:
            return r
    return None


class Conn:
    def __init__(self, idx):
        self.idx = idx
        self.peer = None
        self.steps = []
        self.op = 'valid'
        self.must = False
        self.single = True
        self.raw = b''
        self.sent_mut = 0           # bytes of the mutated message handed to the kernel
        self.nprefix = 0
        self.prefix_ok = True
        self.end = 'keep'
        self.ended = False
        self.sock = None            # server-side socket
        self.requests = 0
        self.reads = 0              # read events seen by the HTTP layer for this connection
        self.reads_before = 0       # ... of which before the mutated message
        self.responses = 0          # response events fired for this connection (the server set out to answer)
        self.responses_before = 0   # ... of which before the mutated message
        self.disconnects = 0
        self.truncated = False
        self.reading = True
        self.cap = None
        self.tls_like_read = False    # some recv() of the server on this connection returned bytes that begin like a TLS / SSL record
        self.follow_up_ok = None     # set by _judge: the answer after which the server kept the connection open


def run_one(ctx):
    world.reset(ctx, task_mode=0)
    simnet.reset(ctx)
    _rebind()
    try:
        _run(ctx)
    finally:
        NET.oplog = None
        NET.close_all()


def _run(ctx):
    ch, cfg = ctx.ch, ctx.cfg
    avoid_ops = frozenset(k.rsplit('/', 1)[1] for k in ctx.avoid if k.startswith('C14/') and k.rsplit('/', 1)[1] in OPNAMES)
    avoid_paths = frozenset(k[len('C14/residue/'):] for k in ctx.avoid if k.startswith('C14/residue/'))
    # a listed residue in the socket server / poller (C12's ground) switches the walk over those two components off altogether: their
    # tables are filled by the same late write/close events, and peeling them path by path would only rename one finding
    avoid_transport = any(not p.startswith('HTTP.') for p in avoid_paths)
    st = dict(viol=False)

    def fail(key, detail):
        if not st['viol']:
            st['viol'] = True
            ctx.trace('VIOLATION %s: %s' % (key, detail))
            ctx.violation(key, detail)

    pol = ReadCap(ctx)
    NET.policy = pol
    by_addr = {}

    class Probe(Component):
        channel = 'web'

        def connect(self, sock, host, port):
            c = by_addr.get((host, port))
            if c is not None:
                c.sock = sock

        def request(self, req, res):
            c = by_addr.get(req.sock.sim_peer)
            if c is not None:
                c.requests += 1
            ctx.stat('request-event')
            req.body.read()
            return BODY

        def read(self, sock, data):
            c = by_addr.get(sock.sim_peer)
            if c is not None:
                c.reads += 1
                if c.reads - c.reads_before > 1 and data[:1] >= b'\x80' and c.sent_mut:
                    ctx.stat('continuation-read-starts-with-high-byte')

        def response(self, res):
            sk = getattr(res.request, 'sock', None)
            c = by_addr.get(sk.sim_peer) if sk is not None else None
            if c is not None:
                c.responses += 1

        def disconnect(self, sock):
            c = by_addr.get(sock.sim_peer)
            if c is not None:
                c.disconnects += 1

    m = make_running(Manager())
    poller = ch.choice(POLLERS, 'poller')().register(m)
    srv = BaseServer(SRV, display_banner=False).register(m)
    Probe().register(m)

    def tick(n=1):
        act = 0
        for _ in range(n):
            if st['viol']:
                return 0
            try:
                act = simnet.step(m)
            except Exception as e:      # R5: "the event loop keeps running"
                fail('C14/loop-crash/%s' % type(e).__name__, 'tick() raised %r' % (e,))
                return 0
        return act

    conns = []

    def pump():
        did = False
        for c in conns:
            if c.peer is not None and not c.peer.closed:
                did |= bool(c.peer.pump())
                if c.reading:
                    did |= bool(c.peer.recv())
        return did

    sio = dict(n=0)

    def _oplog(kind, sock, info):
        if kind == 'close' or info:       # bytes really moved (an EOF read again and again is not progress)
            sio['n'] += 1
        if kind == 'recv' and info and looks_like_tls(bytes(info)):
            # the server tests the first read of EVERY message for a TLS / SSL record, also of the bytes that follow a complete request: a read
            # that begins like one while the server holds no partly received message for the connection excuses a close (R7); a continuation
            # read in mid-message does not.  "Holds a partly received message" is read off HTTP._buffers (the parser table the statement's last
            # clause talks about) at the moment of the recv(): every earlier read event has been handled by then.
            c = by_addr.get(getattr(sock, 'sim_peer', None))
            if c is not None and sock not in srv.http._buffers:
                c.tls_like_read = True
    NET.oplog = _oplog

    def quiesce(cap=4000):
        quiet = n = dry = 0
        seen = sio['n']
        while quiet < 3 and not st['viol']:
            act = tick()
            if len(m._queue) or m._tasks:
                act += 1
            io = pump()
            if io:
                act += 1
            quiet = quiet + 1 if act <= 0 else 0
            n += 1
            # "waits for more data, answers, or closes": all input has been delivered and the peers are idle, so a server that is doing
            # any of the three runs out of events after a few iterations: over 24000 runs on the repaired tree the longest stretch of
            # iterations with events queued and not one byte moving in either direction was 11, and the queue never held 16 events after
            # an iteration (bytes moving or not).  40 such iterations in a row, or more than 256 events queued, is a server spinning on (and
            # multiplying) its own events: it will never answer and starves every other connection.
            if sio['n'] != seen:
                seen, io = sio['n'], True
            dry = 0 if io else dry + 1
            if (dry > 40 and len(m._queue)) or len(m._queue) > 256:
                names = sorted({e.name for _, _, (e, _) in list(m._queue._queue)[:20]} | {e.name for _, _, (e, _) in list(m._queue._priority_queue)[:20]})
                fail('C14/livelock', 'no byte was read or written for %d loop iteration(s) and the server keeps queueing events (%d queued: %r): it '
                     'spins on its own events instead of waiting, answering or closing' % (dry, len(m._queue), names))
                return
            if n > cap:
                raise HarnessLimit('C14: no quiescence after %d iterations' % cap)

    quiesce()

    # ---- plan the connections
    nconn = 1 + ch.weighted([3, 2, 1], 'nconns')
    nconn = min(nconn, cfg['max_conns'])
    if nconn > 1:
        ctx.stat('multi-conn')
    for i in range(nconn):
        c = Conn(i)
        conns.append(c)
        c.steps.append(('connect',))
        if ch.chance(1, 4, 'prefix'):
            pre = G.gen_request(ch, keepalive=True, allow_head=False, variants=False, max_extra=1, framing=['none', 'clen'][ch.draw(2, 'prefix-framing')])
            c.steps.append(('prefix', pre.raw))
            c.nprefix = 1
        tags = []
        c.op, c.must, c.single, c.raw = mutated(ch, cfg, avoid_ops, tags, 'C14/closed-without-response/response-not-written' in ctx.avoid)
        for t in tags + ([c.op] if c.op in ('cl-negative', 'non-ascii') else []):
            ctx.stat(t)
        check_label(c.op, c.must, c.raw)
        ctx.stat('label-checked')
        if c.must:
            ctx.stat('must-reject-op')
        pcs = pieces_for(ch, c.raw)
        if any(pc[:1] >= b'\x80' for pc in pcs[1:]):
            ctx.stat('piece-starts-with-high-byte')
        c.end = ['keep', 'close', 'half', 'abort'][ch.weighted([3, 3, 1, 2], 'end')]
        # the end action happens after piece number `at` (drawn: half of the time after the last one) -> truncation at a drawn offset
        at = len(pcs) if ch.draw(2, 'end-early') == 0 else ch.draw(len(pcs) + 1, 'end-at')
        if c.end == 'keep' and ch.draw(2, 'keep-all') == 0:
            at = len(pcs)
        c.truncated = at < len(pcs)
        for pc in pcs[:at]:
            c.steps.append(('piece', pc))
        c.steps.append(('end', c.end))
        if len(c.raw) <= 600 and ch.chance(1, 2, 'short-reads'):
            c.cap = ch.choice([1, 3, 17, 256], 'read-cap')
        else:
            c.cap = None
        ctx.log('conn', i, c.op, c.raw.decode('latin1') if len(c.raw) < 2000 else '%d:%s' % (len(c.raw), c.raw[:200].decode('latin1')), c.end, at, len(pcs), c.cap or 0)
        ctx.trace('connection %d: operator %s (%s%s), %d bytes in %d piece(s)%s, read cap %s, then %s: %s' % (
            i, c.op, 'must-reject' if c.must else 'either', ', single' if c.single else '', len(c.raw), len(pcs),
            ' of which %d are sent' % at if c.truncated else '', c.cap, c.end, _short(c.raw, 240)))

    # ---- interleaved execution
    def do_step(c):
        s = c.steps.pop(0)
        if s[0] == 'connect':
            c.peer = Peer()
            if c.peer.connect(SRV) != 0:
                raise HarnessLimit('peer could not connect')
            by_addr[c.peer.local] = c
            ctx.trace('  conn %d: connect' % c.idx)
        elif s[0] == 'prefix':
            ctx.stat('prefix-request')
            before = len(c.peer.inp)
            c.peer.send(s[1])
            quiesce()
            rs, rest, err = G.parse_responses(bytes(c.peer.inp[before:]))
            c.prefix_ok = len(rs) == 1 and not rest and not err and rs[0].first[1] == 200 and not c.peer.eof
            c.reads_before, c.responses_before = c.reads, c.responses
            ctx.trace('  conn %d: well-formed request first (%d bytes) -> %s' % (c.idx, len(s[1]), 'served' if c.prefix_ok else 'NOT served as expected'))
            if not c.prefix_ok:
                c.steps = [x for x in c.steps if x[0] == 'end']     # not this property's business; just finish the connection
        elif s[0] == 'piece':
            if c.peer.eof or c.peer.reset:
                return
            if c.end == 'abort':
                c.reading = False        # whatever the server answers from now on stays unread: the close below becomes an abort
            if c.cap:
                pol.caps[c.peer.local] = c.cap      # short reads for the mutated message only (the well-formed one before it may be large)
            c.peer.send(s[1])
            c.sent_mut += len(s[1])
            ctx.stat('fault:piecewise_arrival')
            ctx.trace('  conn %d: piece %s' % (c.idx, _short(s[1], 70)))
        elif s[0] == 'end':
            c.ended = True
            if c.truncated:
                ctx.stat('fault:truncation')
            if s[1] == 'close':
                c.peer.recv()
                c.peer.close()
                ctx.stat('fault:peer_close')
            elif s[1] == 'abort':
                c.peer.close()
                ctx.stat('fault:peer_abort')
            elif s[1] == 'half':
                c.peer.shutdown_wr()
                ctx.stat('fault:peer_half_close')
            ctx.trace('  conn %d: peer %s%s' % (c.idx, {'keep': 'keeps the connection open', 'close': 'closes', 'abort': 'aborts (close without reading)',
                                                        'half': 'half-closes (FIN, keeps reading)'}[s[1]], ' in mid-message' if c.truncated else ''))

    while not st['viol']:
        live = [c for c in conns if c.steps]
        if not live:
            break
        c = live[ch.draw(len(live), 'who')] if len(live) > 1 else live[0]
        do_step(c)
        for _ in range(ch.draw(4, 'ticks')):
            tick()
            pump()
    quiesce()

    # ---- judge every connection at the first quiescence
    for c in conns:
        if st['viol']:
            break
        _judge(ctx, c, fail)

    # ---- a connection the server left open after one complete answer that does not announce close is as good as new: a well-formed request
    #      on it is dispatched once and answered by the handler ("for any byte sequence received on a connection": message + further request)
    for c in conns:
        if st['viol']:
            break
        if not (c.follow_up_ok and c.peer is not None and not c.peer.closed and not c.peer.eof and not c.peer.reset):
            continue
        ctx.stat('same-connection-follow-up')
        before, nreq = len(c.peer.inp), c.requests
        pol.caps.pop(c.peer.local, None)
        c.peer.send(CANARY)
        quiesce()
        if st['viol']:
            break
        rs, rest, err = G.parse_responses(bytes(c.peer.inp[before:]))
        ok = len(rs) == 1 and not rest and not err and rs[0].first[1] == 200 and rs[0].body == BODY.encode() and c.requests == nreq + 1
        ctx.trace('  conn %d: well-formed request on the connection the server kept open -> %s' % (c.idx, 'served' if ok else 'NOT served'))
        if not ok:
            fail('C14/follow-up-on-kept-connection/after-%s' % c.op, 'connection %d: the server answered %s with one complete response (%s) and kept the connection open; '
                 'a well-formed request sent on it afterwards got %d request event(s) and the answer %s' % (
                     c.idx, c.op, c.follow_up_ok, c.requests - nreq, _short(bytes(c.peer.inp[before:]), 200)))

    # ---- R5: canary on a fresh connection
    if not st['viol']:
        cp = Peer()
        cc = Conn(99)
        if cp.connect(SRV) != 0:
            fail('C14/canary/connect-refused', 'the canary could not connect')
        else:
            cc.peer = cp
            by_addr[cp.local] = cc
            conns.append(cc)
            cp.send(CANARY)
            quiesce()
            rs, rest, err = G.parse_responses(bytes(cp.inp))
            if not (len(rs) == 1 and not rest and not err and rs[0].first[1] == 200 and rs[0].body == BODY.encode() and cc.requests == 1):
                fail('C14/canary/not-served', 'canary request on a fresh connection: %d request event(s), answer %r' % (cc.requests, bytes(cp.inp[:200])))
            else:
                ctx.stat('canary-ok')
            ctx.trace('canary on a fresh connection: %s' % ('served' if not st['viol'] else 'NOT served'))

    # ---- everything closes; R6 residue
    if not st['viol']:
        for c in conns:
            if c.peer is not None and not c.peer.closed:
                c.peer.recv()
                c.peer.close()
        quiesce()
        for c in conns:
            if c.sock is None or st['viol']:
                continue
            if c.disconnects == 0:
                ctx.stat('no-disconnect-event')       # the lifecycle events are C12's subject; R6 speaks about sockets that did disconnect
                continue
            if c.sent_mut and c.truncated:
                ctx.stat('disconnect-mid-message')
            for root in ((srv.http,) if avoid_transport else (srv.http, srv.server, poller)):
                path = holds(root, c.sock, avoid_paths)
                if path:
                    fail('C14/residue/%s' % path, 'connection %d (operator %s, peer %s%s): after its disconnect event the socket is still reachable as %s' % (
                        c.idx, c.op, c.end, ' in mid-message' if c.truncated else '', path))
                    break
    if any(s.startswith('Unhandled ERROR') for s in W.stderr):
        fail('C14/loop-crash/unhandled-error', ''.join(W.stderr)[-600:])
    ctx.sim_time = W.now - world.EPOCH
    ctx.log('end', tuple((c.idx, c.requests, c.disconnects, bytes(c.sock.sim_sent[:4000]).decode('latin1') if c.sock is not None else '') for c in conns))
    ctx.nontrivial = any(c.sent_mut and c.op != 'valid' for c in conns) and any(c.disconnects for c in conns) and ctx.stats.get('canary-ok', 0) > 0


def _judge(ctx, c, fail):
    if c.sock is None:
        return          # the server never announced this connection (the peer was gone before accept): nothing to judge
    if not c.prefix_ok:
        return
    sock = c.sock
    sent = bytes(sock.sim_sent)
    peer_gone = c.ended and c.end in ('close', 'abort')
    server_closed = sock.sim_closed_at is not None
    tag = c.op
    # R1: "answers with ... syntactically valid HTTP response"
    rs, rest, err = G.parse_responses(sent, eof=server_closed)
    if err:
        fail('C14/response-syntax/%s' % tag, 'connection %d: the bytes written are not a sequence of well-formed responses (%s): %s' % (c.idx, err, _short(sent, 300)))
        return
    for r in rs:
        # belt and braces for R1 (the strict parser's field pattern ends in `$`, which tolerates one final LF): no control character but
        # HTAB inside a field value that was written
        ctl = [(k, v) for k, v in r.headers if any((ord(x) < 32 and x != '\t') or ord(x) == 127 for x in v)]
        if ctl:
            fail('C14/response-syntax/%s' % tag, 'connection %d: control character inside a header field of the response: %r' % (c.idx, ctl[0]))
            return
    if rest and not peer_gone:
        fail('C14/response-incomplete/%s' % tag, 'connection %d: at quiescence the last response is incomplete although the peer is still there: %s' % (c.idx, _short(rest, 200)))
        return
    so = G.second_opinion(sent, len(rs))
    if so is None:
        ctx.stat('second-opinion-abstains')      # http.client knows only HTTP/0.9-1.x status lines; 'HTTP/9.9 505 ...' is still valid syntax
    elif isinstance(so, str) or [(r.first[1], r.body) for r in rs] != so:
        fail('C14/response-syntax/second-opinion/%s' % tag, 'connection %d: http.client reads the written bytes differently: %s vs strict %r' % (
            c.idx, so if isinstance(so, str) else [(a, len(b)) for a, b in so], [(r.first[1], len(r.body)) for r in rs]))
        return
    mine = rs[c.nprefix:]
    statuses = [r.first[1] for r in mine]
    nreq = c.requests - c.nprefix
    # shape of the history for the keys: did everything of the mutated message reach the HTTP layer in one read event?
    shape = 'one-read' if c.reads - c.reads_before <= 1 else 'several-reads'
    if not statuses:
        out = 'wait' if not server_closed else ('closed-silently' if c.end == 'keep' else 'closed-after-peer-ended')
    else:
        out = '%dxx' % (statuses[0] // 100)
    ctx.stat('outcome:' + out)
    if c.op == 'hdr-reflected-ctl' and any(r.get('Set-Cookie') is not None or r.get('Location') is not None for r in mine):
        ctx.stat('reflected-header-written')     # the answer did carry the reflected header (and was found well-formed above)
    ctx.state((c.op, out, c.end, 'truncated' if c.truncated else 'complete', server_closed))
    ctx.log('judge', c.idx, c.op, tuple(statuses), nreq, server_closed)
    ctx.trace('  conn %d: server wrote %s, dispatched %d request event(s) for the mutated message, %s' % (
        c.idx, statuses or 'nothing', nreq, 'closed the connection' if server_closed else 'keeps it open'))
    # R7: "or simply closes (TLS handshake on a plain-text port)": the third way out is there for input that is a TLS / SSL record.  The server
    #     closed without having written a byte for this message although the peer is still there (it neither closed nor half-closed, so the
    #     close is the server's own decision) and what it was sent does not begin like such a record (see looks_like_tls): it neither waited
    #     nor answered.  The start of the message and the start of every read the server made are looked at - the server tests the first read of each message - and a
    #     byte >= 0x80 or 0x16 there excuses.
    if out == 'closed-silently' and c.sent_mut and not rest:
        if looks_like_tls(c.raw[:c.sent_mut]) or c.tls_like_read:
            ctx.stat('silent-close-of-tls-like-input')
        else:
            # two root causes apart: the server set out to answer (a response event was fired) but nothing could be written, or it never did
            gave_up = c.responses > c.responses_before
            key = 'C14/closed-without-response/%s' % ('response-not-written' if gave_up else shape)
            fail(key, 'connection %d (operator %s, %d read event(s)): the peer sent %d byte(s) that do not begin like a TLS/SSL record and is still there, yet the '
                 'server closed the connection without writing any response (%s): %s' % (
                     c.idx, c.op, c.reads - c.reads_before, c.sent_mut,
                     '%d response event(s) were fired, none was written' % (c.responses - c.responses_before) if gave_up else 'no response event was fired either',
                     _short(c.raw[:c.sent_mut], 200)))
            return
    # R3: "closing the connection when the response says so"
    masked = frozenset(k for k in ctx.avoid if k.startswith('C14/response-after-close/'))
    for k, r in enumerate(rs):
        if r.first[1] >= 400 and G.announces_close(r):       # the statement speaks about the error answer only
            if 'C14/response-after-close/after-%dxx/%s' % (r.first[1] // 100, shape) in masked:
                # known finding, avoided in this run: judge only what was written up to here, so that other findings are not hidden behind it
                if k < c.nprefix:
                    return
                mine, statuses, nreq, rest = rs[c.nprefix:k + 1], statuses[:k + 1 - c.nprefix], 0, b''
                break
            if k + 1 < len(rs) or rest:
                fail('C14/response-after-close/after-%dxx/%s' % (r.first[1] // 100, shape), 'connection %d (operator %s, %d read event(s)): response %d (%d) announces close, yet %d more byte(s) follow: statuses %r' % (
                    c.idx, c.op, c.reads - c.reads_before, k, r.first[1], len(sent) - sum(x.consumed for x in rs[:k + 1]), [x.first[1] for x in rs]))
                return
            if not server_closed and not peer_gone:
                fail('C14/not-closed-after-announcing-close/%s' % tag, 'connection %d: response %d announces close but the server keeps the connection open' % (c.idx, r.first[1]))
                return
    # R2: "exactly one ... response"
    if c.single and len(mine) > 1:
        fail('C14/more-than-one-response/%s/%s' % (shape, tag), 'connection %d: one message (%s, %d read event(s)) was answered with %d responses %r' % (
            c.idx, c.op, c.reads - c.reads_before, len(mine), statuses))
        return
    # R4: "4xx/5xx for malformed or unsupported input"; "never dispatches a request event for a message it has rejected"
    if c.must:
        if nreq > 0:
            fail('C14/must-reject-dispatched/%s' % tag, 'connection %d: a request event was dispatched for %s' % (c.idx, _short(c.raw, 200)))
            return
        if statuses and statuses[0] < 400:
            fail('C14/must-reject-served/%s' % tag, 'connection %d: answered %r to %s' % (c.idx, statuses, _short(c.raw, 200)))
            return
    if (c.single and len(mine) == 1 and not rest and not server_closed and not peer_gone and c.end == 'keep' and not c.truncated
            and not G.announces_close(mine[0]) and statuses[0] >= 200):
        c.follow_up_ok = 'status %d' % statuses[0]
    if c.single and nreq > 0 and any(400 <= s < 500 or s == 505 for s in statuses) and len(mine) == 1:
        fail('C14/request-event-for-rejected/%s' % tag, 'connection %d: the message was dispatched as a request event and answered %r' % (c.idx, statuses))
