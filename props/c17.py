"""C17 - WebSocket frames round-trip exactly, whatever the segmentation or fragmentation.

Engine: SimNet.  One endpoint per run (drawn):

* server: `BaseServer` + `WebSocketsDispatcher('/ws')` + a recording/writing application component on the `wsserver` channel; a simulated
  client `Peer` performs the HTTP upgrade and then talks RFC 6455 through the independent codec `refs/ws_codec.py` (masked frames, any key);
* client: `WebSocketClient('ws://10.0.0.1:80/ws')` + application component on the `ws` channel against a `PeerListener`-based simulated
  server that answers the handshake itself (unmasked frames); the client's masking keys come from the tape through the `os.urandom` seam.

Workload: a drawn script of peer messages (text/binary, payload lengths around 0, 125, 126, 65535, 65536 and beyond the read buffer, split
into 1-4 fragments incl. empty ones and splits inside a UTF-8 sequence, pings/pongs between fragments), stand-alone pings and unsolicited
pongs, application writes (str / bytes / bytearray of the same lengths), and optionally a close started by either side followed by more
traffic.  Read boundaries: the peer's own chunking, the component's bufsize, and a cut policy that ends reads at chosen offsets of every
frame (inside the 2-byte header, before/inside the extended length, before/inside the masking key, first payload byte, random, every
byte); short writes and a small send buffer on the component's side.

Oracle (clauses of the statement):
  [decode]  the n-th `read` event on the ws channel is the n-th message the peer sent: str for text, bytes-like for binary, equal payload;
            at quiescence none is missing (whole vs segmented delivery agree because both are compared with what was sent);
  [encode]  the bytes the peer receives are a conforming frame stream (strict decoder: mask bit as required for the direction, minimal
            length encoding, no RSV, control frames <= 125 and unfragmented) whose data messages are exactly the written ones, in order;
  [ping]    every ping sent before a close is answered by a pong carrying the same payload (also inside a fragmented message);
  [close]   after the peer's close frame no message is delivered; after a close frame was sent or received no data message is sent.
"""
import base64
import bisect
import email.utils
import hashlib

from simcore import world, simnet
from simcore.world import W
from simcore.simnet import NET, Peer, PeerListener, TapePolicy, step, settle, make_running
from simcore.runner import HarnessLimit
from refs import ws_codec as R

from circuits import Manager, Component, handler
from circuits.core.pollers import Select, Poll, EPoll
from circuits.net.events import close, write
from circuits.web import BaseServer
from circuits.web.websockets import WebSocketsDispatcher
from circuits.web.websockets.client import WebSocketClient
import circuits.protocols.websocket as WS
import circuits.web.websockets.client as WC
import circuits.web.servers as SV
import circuits.web.wrappers as WR

ID = 'C17'
LEVEL = 'exploration'
ENGINE = 'SimNet'
LEVEL_TEXT = ('seeded exploration of WebSocket conversations (message lengths at every length-encoding boundary, fragmentation, interleaved '
              'control frames, masking keys, close from either side) x read segmentations aimed at every field of the frame header x '
              'partial sends, on the real WebSocketsDispatcher/WebSocketCodec/WebSocketClient over simulated connections, judged against an '
              'independent RFC 6455 codec; sampling, not proof')
LEVEL_NOTE = ('trusted: refs/ws_codec.py (written from RFC 6455 section 5, checked against the RFC\'s own examples in its selftest), the '
              'SimSocket interposer over real AF_UNIX sockets, Peer; the HTTP upgrade itself is driven without faults (HTTP parsing is C13)')
RULE = ('each run = endpoint (server/client) + script of peer messages / pings / application writes / close + fragmentation + masking keys '
        '+ chunking + cut policy + bufsize + poller, all from one tape; non-trivial = the handshake completed, at least one data message '
        'travelled in each direction or two in one, and at least one read ended strictly inside a frame; distinct = digest of the '
        'read/deliver/wire log')
STATE_MEASURE = '(endpoint, where a read boundary fell in a frame, opcode of that frame, length encoding 7/16/64, FIN, bytes already buffered)'
REAL = ['circuits.protocols.websocket.WebSocketCodec', 'circuits.web.websockets.dispatcher.WebSocketsDispatcher',
        'circuits.web.websockets.client.WebSocketClient', 'circuits.web.servers.BaseServer', 'circuits.web.http.HTTP',
        'circuits.protocols.http.HTTP (client side)', 'circuits.net.sockets.TCPServer/TCPClient', 'circuits.core.pollers.Select/Poll/EPoll',
        'circuits.core.manager.Manager']
STUBBED = ['socket -> SimSocket interposer over AF_UNIX', 'select -> non-blocking shim', 'clock -> virtual (also circuits.web.wrappers time/formatdate)',
           'os.urandom in circuits.protocols.websocket and circuits.web.websockets.client -> tape', 'stderr banner of circuits.web.servers -> sink',
           'remote ends -> Peer/PeerListener + refs/ws_codec.py']
ASSUMPTIONS = [
    'the peer is conforming: valid UTF-8 in text messages, control payloads <= 125, masked iff it is the client, no data frames after its own close',
    'messages the peer sends after the APPLICATION started a close may or may not be delivered (the statement speaks of "a close frame" without '
    'a direction): both are accepted; after the PEER\'s close frame nothing may be delivered',
    'bytes that are not a well-formed data message after a close frame are not judged (only data messages are named by the statement)',
    'the client endpoint answers a close with an UNMASKED close frame (b"\\x88\\x00"); RFC 6455 5.1 forbids that but the statement does not '
    'mention it: accepted, reported as an observation (probe client-close-frame-unmasked)',
    'unsolicited pongs, pongs in another order and pongs with other payloads are accepted; only "each ping sent before a close has a pong '
    'with its payload" is demanded (pings of messages in flight during a closing handshake are not judged)',
    'client endpoint: the application writes only after the codec has registered on the ws channel (`registered` event = upgrade complete); '
    'in "early" runs the simulated server sends frames in the same segment as / right behind its 101 response, which RFC 6455 allows',
    'a violation is named after the first read boundary that split a header field if there was one (every such boundary raises in the '
    'pinned tree), otherwise after the clause and shape of the symptom',
    'no transient/fatal send errors or resets are injected (C11/C12)',
]
PROBES = ['side:server', 'side:client', 'cut:inside-2-byte-header', 'cut:extended-length', 'cut:masking-key', 'cut:payload-start',
          'cut:inside-payload', 'len:7bit', 'len:16bit', 'len:64bit', 'beyond-bufsize', 'fragmented', 'empty-fragment', 'utf8-split-across-fragments',
          'ping-in-fragmented', 'ping-standalone', 'pong-unsolicited', 'app-write', 'peer-close', 'app-close', 'traffic-after-close',
          'several-frames-in-one-read', 'fault:short_read', 'fault:short_write', 'mask:zero-key', 'client-early-frames']
TIERS = {
    'quick': dict(runs=22000, wall=30, chunk=50, cfg=dict(max_ops=5, big=6)),
    'thorough': dict(runs=250000, wall=600, chunk=200, cfg=dict(max_ops=10, big=3)),
}

POLLERS = [Select, Poll, EPoll]
ADDR = ('10.0.0.1', 80)
GUID = b'258EAFA5-E914-47DA-95CA-C5AB0DC85B11'
SMALL_LENS = [0, 1, 5, 124, 125, 126, 127, 300]
BIG_LENS = [4095, 4096, 4097, 9000, 65535, 65536, 65537, 70001]
KEYS = [b'\x00\x00\x00\x00', b'\xff\xff\xff\xff', b'\x01\x02\x03\x04', b'\x80\x00\x00\x7f', b'\x81\x89\x88\x8a']

K_CUT_HDR = 'C17/decode/cut=inside-2-byte-header'
K_CUT_EXT = 'C17/decode/cut=before-or-inside-extended-length'
K_PING_FRAG = 'C17/ping/pong-payload-differs/ping-inside-fragmented-message'
K_PING_EARLY = 'C17/ping/client/ping-in-the-segment-of-the-handshake-response'
K_PING_CLOSING = 'C17/decode/ping-after-close-frame-sent'


# ----------------------------------------------------------------------------
# seams owned by this module (idempotent)

class _OsShim:
    """`os` as seen by circuits.protocols.websocket / circuits.web.websockets.client: urandom comes from the tape."""

    def __getattr__(self, name):
        import os
        return getattr(os, name)

    @staticmethod
    def urandom(n):
        ctx = W.ctx
        if n == 4:
            k = ctx.ch.draw(len(KEYS) + 2, 'mask-key')
            key = KEYS[k] if k < len(KEYS) else ctx.ch.bytes(4, 'mask-byte')
            if key == KEYS[0]:
                ctx.stat('mask:zero-key')
            return key
        return ctx.ch.bytes(n, 'urandom')


class _Sink:
    def write(self, s):
        pass

    def flush(self):
        pass


def _seams():
    if not isinstance(WS.os, _OsShim):
        WS.os = WC.os = _OsShim()
        SV.stderr = _Sink()
    WR.time = W.time
    WR.formatdate = lambda *a, **k: email.utils.formatdate(W.now, usegmt=True)


# ----------------------------------------------------------------------------
# payloads

def text_payload(n, salt):
    """Valid UTF-8 of exactly n bytes mixing 1-, 2-, 3- and 4-byte characters."""
    units = ['a', 'é', '漢', '\U0001F600', 'z']
    units = units[salt % 5:] + units[:salt % 5]
    base = ''.join(units).encode()       # 11 bytes
    out = base * (n // len(base))
    rest = n - len(out)
    for u in units:
        b = u.encode()
        if len(b) <= rest:
            out += b
            rest -= len(b)
    return out + b'x' * rest


def binary_payload(n, salt):
    return (bytes(range(256)) * (n // 256 + 2))[salt % 251: salt % 251 + n]


class FrameInfo:
    __slots__ = ('start', 'ext', 'mask', 'n', 'opcode', 'fin')

    def __init__(self, start, ext, mask, n, opcode, fin):
        self.start, self.ext, self.mask, self.n, self.opcode, self.fin = start, ext, mask, n, opcode, fin

    @property
    def end(self):
        return self.start + 2 + self.ext + self.mask + self.n


class _Livelock(Exception):
    """leave the run: a violation was recorded (possibly because the endpoint raises on every iteration)"""


def where(fr, q):
    """Class of a read boundary at stream offset q that lies in frame fr (fr.start <= q < fr.end)."""
    r = q - fr.start
    if r == 0:
        return 'frame-boundary'
    if r == 1:
        return 'inside-2-byte-header'
    if r < 2 + fr.ext:
        return 'extended-length'           # the 2-byte header is complete, the extended length is not (0..ext-1 bytes of it)
    if r < 2 + fr.ext + fr.mask:
        return 'masking-key'               # before or inside the masking key
    if r == 2 + fr.ext + fr.mask:
        return 'payload-start'
    return 'inside-payload'


def _run(ctx, side):
    ch = ctx.ch
    cfg = ctx.cfg
    avoid = ctx.avoid
    server = side == 'server'
    ctx.stat('side:' + side)
    poller = ch.choice(POLLERS, 'poller')
    masked = server                         # direction peer -> endpoint is masked iff the peer is the client
    unsafe = set()
    if K_CUT_HDR in avoid:
        unsafe.add('inside-2-byte-header')
    if K_CUT_EXT in avoid:
        unsafe.add('extended-length')
    st = dict(viol=False, conn=None, inside=0, delivered=0, peer_closed=False, app_closed=False, base=None, rx=0, ready=server,
              early_ping=False, ping_while_closing=False)
    frames = []                 # FrameInfo of everything the peer sends, in stream order
    starts = []
    total = [0]                 # length of the peer -> endpoint frame stream generated so far
    boundaries = []             # (offset, class) of every read boundary that fell strictly inside the stream so far
    exp = []                    # (kind, payload, optional) messages the endpoint must deliver, in order
    got = []
    pings = []                  # (payload, inside_fragmented)
    written = []                # (kind, payload) messages the application wrote before any close
    exceptions = []

    def fail(key, detail):
        if not st['viol']:
            st['viol'] = True
            if exceptions:
                detail += '; exception events seen: %s' % ', '.join(exceptions[:3])
            ctx.trace('VIOLATION %s: %s' % (key, detail))
            ctx.violation(key, detail)

    def blame(key):
        """Name the violation after the first read boundary that split a header field (the known root cause), else after the symptom."""
        for q, cls in boundaries:
            if cls == 'inside-2-byte-header':
                return K_CUT_HDR
            if cls == 'extended-length':
                return K_CUT_EXT
        if st['early_ping'] and (key.startswith('C17/encode/') or key.startswith('C17/ping/')):
            return K_PING_EARLY        # the codec answered from its constructor, before it had a parent to write to: pong sent as a data message
        if st['ping_while_closing'] and key.startswith('C17/decode/'):
            return K_PING_CLOSING      # _parse_messages returns None for a ping once the close frame was sent
        return key

    def frame_at(q):
        i = bisect.bisect_right(starts, q) - 1
        return frames[i] if i >= 0 else None

    def safe(q):
        if q >= total[0]:
            return True
        fr = frame_at(q)
        return fr is None or where(fr, q) not in unsafe

    # ---- the application on the ws channel
    def deliver(data):
        n = len(got)
        kind = 'text' if isinstance(data, str) else 'binary'
        payload = data.encode('utf-8') if isinstance(data, str) else bytes(data)
        got.append((kind, payload))
        st['delivered'] += 1
        ctx.log('deliver', kind, len(payload), hashlib.sha1(payload).hexdigest()[:8])
        ctx.trace('%s application: read event #%d %s %d bytes %r' % (side, n, kind, len(payload), payload[:24]))
        if st['viol']:
            return
        if n >= len(exp):
            fail(blame('C17/decode/extra-message'), 'read event #%d (%s, %d bytes) but the peer sent only %d message(s)' % (n, kind, len(payload), len(exp)))
        elif (kind, payload) != exp[n][:2]:
            ek, ep, _ = exp[n]
            what = 'type' if kind != ek else ('length' if len(payload) != len(ep) else 'payload')
            fail(blame('C17/decode/wrong-%s' % what), 'read event #%d is %s %d bytes %r..., the peer\'s message #%d is %s %d bytes %r...' % (
                n, kind, len(payload), payload[:16], n, ek, len(ep), ep[:16]))

    class ServerApp(Component):
        channel = 'wsserver'

        def connect(self, sock, *args):
            st['conn'] = sock
            ctx.log('ws-connect')

        def read(self, sock, data):
            deliver(data)

        def disconnect(self, sock):
            ctx.log('ws-disconnect')

        @handler('exception', channel='*')
        def _on_exception(self, etype, evalue, tb, handler=None, fevent=None):
            exceptions.append('%s: %s in %s' % (getattr(etype, '__name__', etype), evalue, getattr(handler, '__name__', handler)))
            ctx.log('exception', getattr(etype, '__name__', '?'))

    class ClientApp(Component):
        channel = 'ws'

        def registered(self, component, manager):
            if isinstance(component, WS.WebSocketCodec):
                st['ready'] = True         # the upgrade is complete: the application may write from now on
                ctx.log('ws-ready')

        def read(self, data):
            deliver(data)

        @handler('exception', channel='*')
        def _on_exception(self, etype, evalue, tb, handler=None, fevent=None):
            exceptions.append('%s: %s in %s' % (getattr(etype, '__name__', etype), evalue, getattr(handler, '__name__', handler)))
            ctx.log('exception', getattr(etype, '__name__', '?'))

    tap = dict(on=False, data=bytearray())

    class WriteTap(Component):
        """What the codec hands to its transport (`write` events on the transport's channel), whether or not the transport still sends it:
        a data frame handed over after the close frame is a data message "sent after a close frame" even if the connection happens to be
        closed a moment later and the bytes never reach the wire."""
        channel = '*'

        @handler('write', channel='*', priority=1e9)
        def _on_any_write(self, event, *args, **kwargs):
            if not tap['on'] or event.channels and event.channels[0] in ('wsserver', 'ws'):
                return          # not started yet / the application's own write on the codec's channel
            if args and isinstance(args[-1], (bytes, bytearray)):
                tap['data'] += args[-1]

    # ---- fault policy: short reads at chosen offsets of the frame stream, short writes from the tape
    class Policy(TapePolicy):
        cuts = []

        def on_recv(self, sock, n):
            if st['base'] is None or getattr(sock, 'sim_listening', False):
                return None
            p = st['rx'] - st['base']
            e = p + n
            i = bisect.bisect_right(self.cuts, p)
            if i < len(self.cuts) and self.cuts[i] < e:
                e = self.cuts[i]
            if unsafe and not safe(e):
                q = e
                while q > p + 1 and not safe(q):
                    q -= 1
                if not safe(q) or q <= p:
                    q = e
                    while not safe(q):
                        q += 1
                e = q
            if e - p < n:
                ctx.stat('fault:short_read')
                return ('short', e - p)
            return None

    def oplog(kind, sock, data):
        if kind != 'recv' or not data or getattr(sock, 'sim_listening', False):
            return
        st['rx'] += len(data)
        if st['base'] is None:
            return
        p0 = st['rx'] - len(data) - st['base']
        q = st['rx'] - st['base']
        nfr = bisect.bisect_right(starts, q - 1) - bisect.bisect_right(starts, p0 - 1) if q > p0 else 0
        fr = frame_at(q) if 0 <= q < total[0] else None
        cls = where(fr, q) if fr is not None else ('stream-end' if q >= 0 else 'handshake')
        if fr is not None and cls != 'frame-boundary':
            st['inside'] += 1
            boundaries.append((q, cls))
            ctx.stat('cut:' + cls)
        if nfr >= 2:
            ctx.stat('several-frames-in-one-read')
        if p0 < 0 < q and any(fr_.opcode == R.PING and fr_.end <= q for fr_ in frames):
            st['early_ping'] = True
        if fr is not None:
            ctx.state((side, cls, fr.opcode, fr.ext, fr.fin))
        ctx.log('recv', p0, q, cls)
        ctx.trace('%s socket: read returns %d bytes (stream offset %d..%d, boundary: %s%s)' % (
            side, len(data), p0, q, cls, '' if fr is None else ' of %s frame @%d len %d' % (R.NAMES[fr.opcode], fr.start, fr.n)))

    # ---- script generation (input + schedule, all from the tape)
    big_used = [False]

    def draw_len():
        if not big_used[0] and ch.chance(1, cfg['big'], 'big-message'):
            big_used[0] = True
            return BIG_LENS[ch.draw(len(BIG_LENS), 'big-len')]
        return SMALL_LENS[ch.draw(len(SMALL_LENS), 'len')]

    def draw_key():
        if not masked:
            return None
        k = ch.draw(len(KEYS) + 2, 'peer-mask-key')
        key = KEYS[k] if k < len(KEYS) else ch.bytes(4, 'peer-mask-byte')
        if key == KEYS[0]:
            ctx.stat('mask:zero-key')
        return key

    def control_payload():
        n = [0, 1, 4, 125, 124, 17][ch.draw(6, 'control-len')]
        return binary_payload(n, ch.draw(7, 'control-salt'))

    def no_ping_now(closing=False):
        return (K_PING_EARLY in avoid and not st['ready']) or (closing and K_PING_CLOSING in avoid)

    def gen_message(closing=False):
        kind = 'text' if ch.draw(2, 'kind') == 0 else 'binary'
        n = draw_len()
        payload = text_payload(n, ch.draw(5, 'salt')) if kind == 'text' else binary_payload(n, ch.draw(200, 'salt'))
        nfrag = ch.weighted([2, 3, 3, 2] if closing else [5, 3, 2, 1], 'fragments') + 1
        cuts = sorted(ch.draw(n + 1, 'fragment-at') for _ in range(nfrag - 1))
        inter = {}
        for k in range(1, nfrag):
            c = ch.weighted([2, 5, 1, 2] if closing else [5, 3, 1, 1], 'interleave')
            if c in (1, 3) and no_ping_now(closing):
                c = 2
            if c == 1 and K_PING_FRAG not in avoid:
                inter[k] = [('ping', control_payload())]
            elif c == 2:
                inter[k] = [('pong', control_payload())]
            elif c == 3 and K_PING_FRAG not in avoid:
                inter[k] = [('ping', control_payload()), ('ping', control_payload())]
        return kind, payload, cuts, inter

    def add_frame(opcode, payload, fin=True):
        key = draw_key()
        data = R.encode_frame(opcode, payload, fin=fin, mask=key)
        _, ext, mk = R.header_layout(len(payload), key is not None)
        frames.append(FrameInfo(total[0], ext, mk, len(payload), opcode, fin))
        starts.append(total[0])
        total[0] += len(data)
        ctx.stat('len:%s' % {0: '7bit', 2: '16bit', 8: '64bit'}[ext])
        return data

    def draw_cuts(first, last):
        """read boundaries inside frames[first:last], from the tape"""
        mode = ch.weighted([2, 4, 2, 2], 'cut-mode')      # none / header fields / random / every byte
        out = []
        if mode == 0:
            return out
        for fr in frames[first:last]:
            size = fr.end - fr.start
            hdr = 2 + fr.ext + fr.mask
            if mode == 1:
                cand = list(range(1, min(hdr + 2, size))) + ([size - 1] if size > hdr + 2 else [])
                out += [fr.start + r for r in cand if ch.draw(2, 'cut-here')]
            elif mode == 2:
                out += [fr.start + 1 + ch.draw(size - 1, 'cut-at') for _ in range(ch.randint(1, 3, 'ncuts')) if size > 1]
            elif size <= 160:
                out += list(range(fr.start + 1, fr.end))
            else:
                out += list(range(fr.start + 1, fr.start + hdr + 3))
        return [q for q in sorted(set(out)) if safe(q)]

    # ---- build the endpoint
    _seams()
    pol = Policy(ctx, ['short_write'] if ch.chance(1, 2, 'short-writes') else [], rate=3)
    pol.enabled = False
    NET.policy = pol
    NET.oplog = oplog
    if ch.chance(1, 3, 'small-sndbuf'):
        NET.sndbuf = 4608
    bufsize = 4096
    m = make_running(Manager())
    poller().register(m)
    if server:
        bufsize = ch.choice([4096, 4096, 1024, 100, 16], 'bufsize')
        big_used[0] = bufsize < 1024        # a 64 KiB message through a 16-byte buffer is thousands of loop iterations: not worth the budget
        srv = BaseServer(ADDR, bufsize=bufsize).register(m)
        WebSocketsDispatcher('/ws').register(srv)
        ServerApp().register(srv)
        settle([m])
        peer = Peer()
        if peer.connect(ADDR) != 0:
            raise HarnessLimit('peer could not connect')
        key = base64.b64encode(b'0123456789abcdef')
        peer.send(b'GET /ws HTTP/1.1\r\nHost: sim\r\nUpgrade: websocket\r\nConnection: Upgrade\r\nSec-WebSocket-Key: ' + key +
                  b'\r\nSec-WebSocket-Version: 13\r\n\r\n')
        settle([m], each=lambda: bool(peer.recv()))
        head, sep, rest = bytes(peer.inp).partition(b'\r\n\r\n')
        accept = base64.b64encode(hashlib.sha1(key + GUID).digest())
        if not head.startswith(b'HTTP/1.1 101') or accept not in head or st['conn'] is None or rest:
            raise HarnessLimit('upgrade failed: %r' % bytes(peer.inp)[:200])
        wire_mark = len(head) + 4
    else:
        lst = PeerListener(ADDR)
        WebSocketClient('ws://%s:%d/ws' % ADDR).register(m)
        ClientApp().register(m)
        settle([m])
        peer = lst.accept()
        if peer is None:
            raise HarnessLimit('client did not connect')
        settle([m], each=lambda: bool(peer.recv()))
        head, sep, rest = bytes(peer.inp).partition(b'\r\n\r\n')
        lines = head.split(b'\r\n')
        hdrs = {k.strip().lower(): v.strip() for k, _, v in (ln.partition(b':') for ln in lines[1:])}
        if not sep or not lines[0].startswith(b'GET /ws HTTP/1.1') or hdrs.get(b'upgrade', b'').lower() != b'websocket' or rest:
            raise HarnessLimit('no upgrade request: %r' % bytes(peer.inp)[:200])
        accept = base64.b64encode(hashlib.sha1(hdrs.get(b'sec-websocket-key', b'') + GUID).digest())
        response = (b'HTTP/1.1 101 Switching Protocols\r\nUpgrade: websocket\r\nConnection: Upgrade\r\nSec-WebSocket-Accept: ' + accept + b'\r\n\r\n')
        wire_mark = len(head) + 4
    dec = R.Decoder(expect_masked=not server, mask_exempt=() if server else (R.CLOSE,))
    WriteTap().register(m)
    tap['on'] = True            # the handshake is over: every write to the transport from now on is frames
    ctx.log('cfg', side, poller.__name__, bufsize)
    ctx.trace('%s endpoint, %s, bufsize %d%s' % (side, poller.__name__, bufsize, ', SO_SNDBUF 4608' if NET.sndbuf else ''))

    def pump():
        if st['viol']:
            raise _Livelock()          # first violation found: stop driving the run
        if len(exceptions) > 40:
            # the endpoint raises on every loop iteration and never becomes quiet: no point in waiting for the step cap
            fail(blame('C17/decode/endless-exceptions'), 'the %s endpoint raised %d exceptions and does not come to rest; delivered so far %d of %d' % (
                side, len(exceptions), len(got), len(exp)))
            raise _Livelock()
        a = bool(peer.pump())
        b = peer.recv()
        if b:
            feed_wire()
        return a or bool(b)

    fed = [wire_mark]

    def feed_wire():
        """decode what the peer has received from the endpoint, check it online"""
        data = bytes(peer.inp[fed[0]:])
        fed[0] = len(peer.inp)
        if not data or st['viol']:
            return
        nf = len(dec.frames)
        dec.feed(data)
        for fr in dec.frames[nf:]:
            ctx.log('wire', fr.opcode, fr.fin, len(fr.payload), fr.key or b'', hashlib.sha1(fr.payload).hexdigest()[:8])
            ctx.trace('peer decodes from the wire: %r%s' % (fr, ' key %s' % fr.key.hex() if fr.key else ''))
            if fr.opcode == R.CLOSE and not fr.masked and not server:
                ctx.stat('client-close-frame-unmasked')
        if dec.error:
            key = 'C17/encode/not-a-conforming-frame-stream'
            if dec.error[0].startswith('control frame pong') and any(infrag for _, infrag in pings):
                key = K_PING_FRAG          # the pong carries the fragments received so far in front of the ping's payload
            fail(blame(key), 'the bytes written by the %s endpoint are not a conforming frame stream: %s at '
                 'stream offset %d (bytes there: %r)' % (side, dec.error[0], dec.error[1], bytes(peer.inp[wire_mark + dec.error[1]:][:24])))
            return
        if dec.tail is not None and any(e[0] in ('text', 'binary') for e in dec.tail.events):
            e = [e for e in dec.tail.events if e[0] in ('text', 'binary')][0]
            # [close] after a close frame no further data messages are sent
            fail(blame('C17/close/data-message-sent-after-close-frame'), 'the %s endpoint sent a %s message of %d bytes AFTER its close frame' % (
                side, e[0], len(e[1])))
            return
        data_msgs = [e for e in dec.events if e[0] in ('text', 'binary')]
        for i, e in enumerate(data_msgs):
            payload = e[1].encode('utf-8') if e[0] == 'text' else e[1]
            if i >= len(written):
                fail(blame('C17/encode/message-nobody-wrote' if not (st['peer_closed'] or st['app_closed']) else 'C17/close/data-message-sent-after-close'),
                     'the peer decoded data message #%d (%s, %d bytes) but the application wrote only %d before the close' % (
                         i, e[0], len(payload), len(written)))
                return
            if (e[0], payload) != written[i]:
                wk, wp = written[i]
                fail(blame('C17/encode/wrong-%s' % ('type' if wk != e[0] else 'length' if len(wp) != len(payload) else 'payload')),
                     'message #%d written as %s %d bytes %r... arrives as %s %d bytes %r...' % (i, wk, len(wp), wp[:16], e[0], len(payload), payload[:16]))
                return

    def send_stream(data, first_frame):
        """the peer sends `data` (whole frames) in tape-chosen chunks, with loop iterations in between"""
        pol.cuts = sorted(set(pol.cuts) | set(draw_cuts(first_frame, len(frames))))
        base = total[0] - len(data)
        off = 0
        while off < len(data) and not st['viol']:
            k = ch.weighted([4, 2, 2], 'chunk')
            size = len(data) - off if k == 0 else (1 + ch.draw(14, 'chunk-len') if k == 1 else 1 + ch.draw(min(len(data) - off, 3000), 'chunk-len'))
            end = min(len(data), off + size)
            while end < len(data) and not safe(base + end):
                end += 1
            peer.send(data[off:end])
            ctx.log('send', base + off, base + end)
            off = end
            if off < len(data):
                for _ in range(ch.draw(3, 'steps')):
                    step(m)
                    pump()

    def quiesce():
        settle([m], each=pump, cap=3000)

    def pace():
        if ch.draw(3, 'pace') == 0:
            quiesce()
        else:
            for _ in range(ch.draw(4, 'steps')):
                step(m)
                pump()

    def app_fire(ev):
        if server:
            m.fire(ev, 'wsserver')
        else:
            m.fire(ev, 'ws')

    def do_peer_message(optional=False):
        kind, payload, cuts, inter = gen_message(closing=optional)
        first = len(frames)
        bounds = [0] + cuts + [len(payload)]
        data = b''
        if len(bounds) > 2:
            ctx.stat('fragmented')
            if any(a == b for a, b in zip(bounds, bounds[1:])):
                ctx.stat('empty-fragment')
            if kind == 'text' and any(0 < c < len(payload) and payload[c] & 0xC0 == 0x80 for c in cuts):
                ctx.stat('utf8-split-across-fragments')
        if len(payload) > bufsize:
            ctx.stat('beyond-bufsize')
        desc = []
        for k in range(len(bounds) - 1):
            for what, cp in inter.get(k, ()):
                data += add_frame(R.PING if what == 'ping' else R.PONG, cp)
                desc.append('%s(%d)' % (what, len(cp)))
                if what == 'ping':
                    if not optional:
                        pings.append((cp, True))
                    else:
                        st['ping_while_closing'] = True
                    ctx.stat('ping-in-fragmented')
                else:
                    ctx.stat('pong-unsolicited')
            part = payload[bounds[k]:bounds[k + 1]]
            data += add_frame((R.TEXT if kind == 'text' else R.BINARY) if k == 0 else R.CONT, part, fin=(k == len(bounds) - 2))
            desc.append('%s[%d]' % ('cont' if k else kind, len(part)))
        exp.append((kind, payload, optional))
        ctx.log('peer-msg', kind, len(payload), tuple(cuts))
        ctx.trace('peer sends message #%d: %s %d bytes %r... as frames %s (stream offset %d..%d)' % (
            len(exp) - 1, kind, len(payload), payload[:16], ' '.join(desc), frames[first].start, total[0]))
        send_stream(data, first)

    def do_peer_control(what):
        cp = control_payload()
        first = len(frames)
        data = add_frame(R.PING if what == 'ping' else R.PONG, cp)
        if what == 'ping':
            pings.append((cp, False))
            ctx.stat('ping-standalone')
        else:
            ctx.stat('pong-unsolicited')
        ctx.log('peer-' + what, len(cp))
        ctx.trace('peer sends %s with %d payload bytes (stream offset %d)' % (what, len(cp), frames[first].start))
        send_stream(data, first)

    def do_app_write(after_close=False):
        kind = 'text' if ch.draw(2, 'kind') == 0 else 'binary'
        n = draw_len()
        payload = text_payload(n, ch.draw(5, 'salt')) if kind == 'text' else binary_payload(n, ch.draw(200, 'salt'))
        data = payload.decode('utf-8') if kind == 'text' else (bytearray(payload) if ch.draw(3, 'bytearray') == 2 else payload)
        if not after_close:
            written.append((kind, payload))
        ctx.stat('app-write')
        ctx.log('app-write', kind, n, after_close)
        ctx.trace('application writes message%s: %s %d bytes %r...' % (' AFTER the close' if after_close else ' #%d' % (len(written) - 1), kind, n, payload[:16]))
        if server:
            app_fire(write(st['conn'], data))
        else:
            app_fire(write(data))

    # ---- run the script
    T0 = W.now
    pol.enabled = True
    if server:
        st['base'] = st['rx']
    else:
        # the simulated server answers the handshake; `early` = its first frames travel right behind / together with the 101 response
        early = ch.chance(1, 4, 'early-frames')
        peer.send(response)
        if early:
            ctx.stat('client-early-frames')
            ctx.trace('peer sends the 101 response and goes on at once')
            st['base'] = st['rx'] + len(response)
        else:
            quiesce()
            st['base'] = st['rx']
            if st['base'] < len(response):
                raise HarnessLimit('101 response not consumed')
    nops = ch.randint(1, cfg['max_ops'], 'nops')
    for _ in range(nops):
        if st['viol'] or peer.eof:
            break
        k = ch.weighted([6, 4, 2, 1], 'op')
        if k == 1 and not st['ready']:
            k = 0                      # client: the application cannot write before the upgrade is complete
        if k == 2 and no_ping_now():
            k = 3
        if k == 0:
            do_peer_message()
        elif k == 1:
            do_app_write()
        elif k == 2:
            do_peer_control('ping')
        else:
            do_peer_control('pong')
        pace()
    if not st['viol']:
        quiesce()
    # ---- optional close handshake and traffic after it
    ending = ch.weighted([3, 2, 2], 'ending')       # none / peer closes / application closes
    if ending and not st['viol'] and not peer.eof:
        if ending == 1:
            ctx.stat('peer-close')
            code = [None, 1000, 1001][ch.draw(3, 'close-code')]
            first = len(frames)
            data = add_frame(R.CLOSE, R.close_payload(code, 'bye' if code and ch.draw(2, 'reason') else ''))
            st['peer_closed'] = True
            ctx.log('peer-close', code or 0)
            ctx.trace('peer sends a close frame (code %r) at stream offset %d' % (code, frames[first].start))
            send_stream(data, first)
            n_after = len(exp)
            if ch.draw(2, 'data-after-close') and not st['viol']:
                # not conforming, but the clause says what the endpoint must do with it: deliver nothing
                ctx.stat('traffic-after-close')
                kind, payload, cuts, inter = gen_message()
                raw = R.encode_frame(R.TEXT if kind == 'text' else R.BINARY, payload, mask=draw_key())
                ctx.log('peer-data-after-close', len(payload))
                ctx.trace('peer sends a %s message of %d bytes AFTER its close frame' % (kind, len(payload)))
                peer.send(raw)
            pace()
            if ch.draw(2, 'write-after-close') and not st['viol']:
                ctx.stat('traffic-after-close')
                quiesce()
                if server and st['conn'] is not None or not server:
                    do_app_write(after_close=True)
            quiesce()
            if not st['viol'] and len(got) > n_after:
                fail(blame('C17/close/message-delivered-after-close-frame'), '%d message(s) delivered after the peer\'s close frame' % (len(got) - n_after))
        else:
            ctx.stat('app-close')
            st['app_closed'] = True
            ctx.log('app-close')
            ctx.trace('application fires close on the ws channel')
            app_fire(close(st['conn']) if server else close())
            quiesce()
            if ch.draw(2, 'data-after-close') and not st['viol'] and not peer.eof:
                ctx.stat('traffic-after-close')
                for _ in range(ch.randint(1, 2, 'in-flight')):
                    if not st['viol']:
                        do_peer_message(optional=True)       # in flight when the close arrived: may or may not be delivered
                pace()
            if ch.draw(2, 'write-after-close') and not st['viol']:
                ctx.stat('traffic-after-close')
                do_app_write(after_close=True)
                pace()
            if not st['viol'] and not peer.eof:
                first = len(frames)
                data = add_frame(R.CLOSE, R.close_payload(1000))
                st['peer_closed'] = True
                ctx.trace('peer answers with its close frame')
                send_stream(data, first)
            quiesce()
    feed_wire()

    # ---- judgement at quiescence
    if not st['viol']:
        closed = st['peer_closed'] or st['app_closed']
        if not closed and (peer.eof or peer.reset):
            fail(blame('C17/decode/connection-dropped'), 'the %s endpoint dropped the connection without a close handshake' % side)
    if not st['viol']:
        must = [e for e in exp if not e[2]]
        if len(got) < len(must):
            e = exp[len(got)]
            if not (st['peer_closed'] or st['app_closed']) and st['rx'] - st['base'] < total[0]:
                raise HarnessLimit('%d of %d stream bytes read by the endpoint at quiescence' % (st['rx'] - st['base'], total[0]))
            fail(blame('C17/decode/message-never-delivered'), 'at quiescence %d of %d messages were delivered; first missing: #%d %s %d bytes' % (
                len(got), len(must), len(got), e[0], len(e[1])))
    if not st['viol'] and (st['peer_closed'] or st['app_closed']):
        # [close] the same clause at the codec's own output: the frames it handed to its transport, sent on or not
        dec2 = R.Decoder(expect_masked=not server, mask_exempt=() if server else (R.CLOSE,))
        dec2.feed(bytes(tap['data']))
        if dec2.error is None and dec2.tail is not None and any(e[0] in ('text', 'binary') for e in dec2.tail.events):
            e = [e for e in dec2.tail.events if e[0] in ('text', 'binary')][0]
            fail(blame('C17/close/data-message-handed-to-transport-after-close-frame'), 'the %s endpoint handed a %s message of %d bytes to its transport AFTER its '
                 'close frame (%s close first)' % (side, e[0], len(e[1]), 'the peer sent its' if st['peer_closed'] and not st['app_closed'] else 'the application started the'))
    if not st['viol']:
        # [ping] every ping sent before a close frame must have been answered by a pong with the same payload (any order is accepted,
        # extra pongs too); the violation is named after the first ping whose pong, taken in order, differs
        pongs = [e[1] for e in dec.events if e[0] == 'pong']
        left = list(pongs)
        unanswered = 0
        for cp, _ in pings:
            if cp in left:
                left.remove(cp)
            else:
                unanswered += 1
        if unanswered:
            bad = next((i for i, (cp, _) in enumerate(pings) if i >= len(pongs) or pongs[i] != cp), 0)
            cp, infrag = pings[bad]
            fail(blame(K_PING_FRAG if infrag else 'C17/ping/pong-payload-differs/stand-alone-ping'),
                 'ping #%d with payload %r... (%d bytes%s) has no pong with the same payload; pongs received: %r' % (
                     bad, cp[:12], len(cp), ', sent between the fragments of a message' if infrag else '', [(len(x), x[:12]) for x in pongs][:6]))
    if not st['viol']:
        data_msgs = [e for e in dec.events if e[0] in ('text', 'binary')]
        if len(data_msgs) < len(written):
            wk, wp = written[len(data_msgs)]
            fail(blame('C17/encode/message-never-arrived'), 'the application wrote %d messages, the peer decoded %d; first missing: #%d %s %d bytes '
                 '(%d undecoded bytes pending at the peer)' % (len(written), len(data_msgs), len(data_msgs), wk, len(wp), dec.pending_bytes()))
    ctx.sim_time = W.now - T0
    two_way = (len(got) >= 1 and any(e[0] in ('text', 'binary') for e in dec.events)) or len(got) >= 2 or len(written) >= 2
    ctx.nontrivial = bool(two_way and st['inside'] >= 1)


def run_one(ctx):
    world.reset(ctx)
    simnet.reset(ctx)
    try:
        _run(ctx, 'server' if ctx.ch.weighted([3, 2], 'endpoint') == 0 else 'client')
    except _Livelock:
        pass
    finally:
        NET.oplog = None
        NET.sndbuf = None
        NET.close_all()
