"""C19 - node: remote events run once and return their result; peers cannot harm the loop.

Engine: SimNet.  Real `circuits.node.Node` objects (which build the real node.Server / node.Client / Protocol / TCPServer /
TCPClient) live in separate Managers that stand for separate OS processes: A = `Node(port=...)`, B (and C) = `Node()` with
`add(name, host, port)`.  They talk over SimSocket connections; the tape decides which manager ticks next (delay and reordering
between the directions), which calls are issued when, where reads are cut and what a hostile raw peer sends.

* process isolation: circuits.node keeps three class-level dicts (`Protocol.__events`, `Server.__protocols`, `Node.__peers`).  In
  production every process has its own copy, so the harness swaps a per-"process" dict in (by mangled name) whenever it runs code
  of that process, and starts every run with fresh ones.  State shared *inside* one process (a Node with two peers, a server with
  two clients) stays shared, as it is in production.
* every process has a root component whose channel is drawn from '*' (most runs), 'app', 'svc': the manager fires `exception` events
  (and everything else fired without channels) on the root's channel, so error results must not depend on it.
* application idiom: `r = yield self.call(remote(event, name, channel=...), *channels)` in a generator handler (the waiting
  handler) or `v = self.fire(remote(...))` and reading `v.value` later; server -> client calls return `node.server.send(event, sock)`
  from a handler, or forward the event they are handling (`job`: the auto_remote_event idiom, done with the server API).  Fire-and-forget
  events go out through `Server.send(ev, sock, no_result=True)`, `send_to` and `send_all` (the only public no-result API), interleaved
  with awaited calls on the same connection.  The peer's handler identifies the call by a token in args[0], records what it saw and
  returns / yields / raises.
* faults: `short_read` on every node socket in both directions (tiny reads, uniform cuts, cuts inside the delimiter, cuts inside a
  multi-byte character of raw-peer packets), packets larger than the 4096 byte read buffer, coalesced packets, `peer_abort` (raw peer
  closes with unread data; a client process dies), and a hostile raw `simnet.Peer` that speaks the wire format to the server:
  valid calls (with protected meta keys), mutated JSON, truncated and oversized packets, invalid UTF-8, value packets with foreign
  ids, meta keys from a grammar.  The raw peer can also be the CALLEE of server -> client calls: it parses the call packets it receives
  and answers with result packets from a grammar (right id + meta keys of the three classes, error flag, wrong id first, duplicate
  answer, answer in pieces, no answer).

Oracle (clauses of the statement; keys in parentheses):
  * each legitimate event's handler ran exactly once, in the right process (C19/exactly-once/...), with equal name / args / kwargs /
    channels / failure+notify flags (C19/serialisation/...);
  * the sender's waiting handler obtains the handler's result, or an error flag when the handler raised (C19/result/...), within
    BOUND(bytes) = 60 + 6 * (payload bytes still to move / 4096) fair rounds after the last fault or hostile action (one round = one
    tick(0) of every live manager + one pump of the raw peers) - the liveness bound of this check;
  * an event rejected by the send firewall leaves no byte on any wire (token searched in the interposer's ground-truth byte
    streams) and is never dispatched; one rejected by the receive firewall is never dispatched (C19/firewall/...);
  * every value packet a node writes on a connection answers a call it received on that same connection, once (C19/mixup/...), and
    no call is completed with somebody else's result;
  * no exception escapes tick() of any manager (that is what would end run()), nothing is written to stderr as 'Unhandled ERROR',
    events delivered to handlers keep the invariants of dispatcher attributes and never show a value the raw peer put into `meta`
    (C19/hostile/dispatcher-attribute-overwritten/...), plain valid calls of the raw peer are executed once and answered on its own
    connection, and a legitimate call issued after the hostile traffic still completes (C19/hostile/...).
  * fire-and-forget events run exactly once per connection they were sent on (C19/exactly-once/no-result-event-...), and the answers the
    peer sends for them never reach an awaited call: every awaited call obtains exactly its own handler's result;
  * re-sending: the event OBJECT of a call that has completed its round trip (handler ran, waiting handler resumed) is sent once more - a retry, a
    kept periodic event, the same event for another peer: over the same connection or over another connection of the sending process, while
    other calls are in flight (main phase) or after everything has completed (second phase).  It is a send like any other: executed once, and
    the waiting handler obtains the result of THIS execution, which differs from the first one's (C19/result/resent-event-stale-result when
    it is resumed before the peer ran the handler or obtains what the earlier send obtained; .../resent-event-results-accumulated when it
    obtains the list of both results);
  * after a result packet of the raw peer the local event that waited for it has the dispatcher attributes it had before it was sent
    (C19/hostile/waiting-event-attribute-overwritten/...), its value is a Value, the waiting handler obtained the plain value the packet
    carried or its error flag (C19/hostile/result-value-forged), and an event forwarded while being handled completes locally.
When a call fails, the key is refined from ground truth (was one of its packets cut by a read boundary, did its payload contain the
delimiter, did a foreign value packet with its id arrive on another connection, ...), so that distinct root causes get distinct keys.
"""
import errno
import json
import re
import socket as _socket
import traceback

from simcore import world, simnet
from simcore.world import W
from simcore.simnet import NET, Peer, NoFaults, step, make_running
from simcore.runner import HarnessLimit

from circuits import Component, Event, handler
from circuits.core import Value
from circuits.core.pollers import EPoll, Poll, Select
from circuits.node import Node, remote
from circuits.node.protocol import DELIMITER, Protocol
from circuits.node.server import Server

ID = 'C19'
LEVEL = 'fault_enumeration'
ENGINE = 'SimNet'
LEVEL_TEXT = ('seeded enumeration of read segmentations (tiny / uniform / inside the delimiter / inside a multi-byte character / packets '
              'larger than the read buffer / coalesced packets), peer aborts and hostile packets from a grammar, over generated call '
              'workloads between two or three real Node objects ticked in a tape-chosen order; every run is judged against what the '
              'harness itself sent and against the interposer\'s byte streams; sampling, not proof')
LEVEL_NOTE = ('trusted: SimSocket/AF_UNIX delivery, the per-process swap of the three class-level dicts of circuits.node, the token in '
              'args[0] that identifies a call, json of the standard library for reading wire streams; liveness bound '
              '60 + 6*ceil(bytes/4096) fair rounds after the last fault')
RULE = ('each run = topology (one client / one client process with two peers / two client processes, optional raw peer) + firewalls + '
        '1..N calls with generated JSON payloads + schedule + read cuts + hostile packets, all from one tape; non-trivial = at least two '
        'legitimate calls were issued of which one was in flight together with another or larger than the read buffer, or a read was cut, or a '
        'hostile packet was sent, or a fire-and-forget event was sent; a completed event object may be sent again (same / other connection, '
        'different handler result); distinct = digest of the (call, dispatch, completion, hostile action) log')
STATE_MEASURE = ('(topology, calls in flight when a call was issued, packet size class, cut class of the read that carried it, hostile packet class; for a '
                 're-sent event object: handler behaviour of the first and of this execution, same or other connection)')
REAL = ['circuits.node.Node / Server / Client / Protocol / utils (dump/load event and value)', 'circuits.net.sockets.TCPServer / TCPClient',
        'circuits.core.pollers.Select / Poll / EPoll (real select/poll/epoll, timeout 0)', 'circuits.core.manager.Manager (tick, call/wait, tasks)',
        'kernel AF_UNIX stream sockets']
STUBBED = ['socket class -> SimSocket (AF_UNIX, simulated addresses, tape-driven short reads)', 'select module -> non-blocking shim',
           'time -> virtual clock', 'separate OS processes -> separate Managers with per-process copies of the class-level dicts of circuits.node',
           'the hostile / aborting peer is a harness object (simnet.Peer), never a circuits component']
ASSUMPTIONS = ['the `success` flag of a received event is forced to True by Protocol for result routing; only `failure` and `notify` are compared at the handler',
               'an error flag counts as returned if it is visible on the Value handed to the waiting handler, on the sent event or on its value',
               'what the sender obtains for a firewall-rejected event is not judged (the statement only forbids transmission / dispatch)',
               'calls on a connection whose peer aborted, or of a process that died, are not judged (only loop survival and the other connections are)',
               'hostile packets never use event names of the framework itself (close, stopped, ...): without a firewall a peer may fire any event by design',
               'a raw peer is owed executions / answers only for the plain valid calls (no meta keys) it sends before its first malformed packet; a call with hostile meta keys may '
               'be executed or dropped (only the attributes of the dispatched event are judged); afterwards the peer only must not harm the loop or other connections',
               'fire-and-forget events are sent from the server side only (Server.send(no_result=True) / send_to / send_all are the only public no-result API)',
               'when the raw peer answers one call twice (duplicate answer, or a value packet of its own with that id) the value the waiting handler obtains is not judged; '
               'free (non-dispatcher) meta keys of a result packet may or may not be copied to the waiting event',
               'the root component of a process is an empty Component with the drawn channel; every workload event is fired with explicit channels, so no idiom '
               'had to be excluded under a non-\'*\' root (all of them pass on the healthy tree)',
               'server -> client calls always carry explicit channels (an empty channel tuple is replaced by the receiver, which the statement does not cover)',
               'an event object is sent again only after its previous round trip has completed (the same object in flight twice at the same time is not '
               'generated), and never to or from the raw peer; the application renews the token in args[0] of the kept object in place (that is how the '
               'two executions are told apart at the peer), everything else on the object is as the first round trip left it; the first round trip is judged at '
               'the moment of the re-send']
PROBES = ['call:c2s', 'call:s2c', 'call:concurrent', 'call:big', 'completed', 'fault:short_read', 'cut:in-delimiter', 'cut:tiny', 'cut:uniform',
          'cut:in-multibyte', 'packet:split', 'fw:send-blocked', 'fw:recv-blocked', 'topo:B1', 'topo:B2', 'topo:BC', 'hostile:valid', 'hostile:mutated',
          'hostile:bytes', 'hostile:meta', 'hostile:value', 'hostile:oversized', 'fault:peer_abort', 'hostile:probe-call', 'behav:raise', 'behav:gen', 'behav:ret-fire',
          'mode:fire', 'mode:call', 'mode:fwd', 'junk-dispatch', 'note:send', 'note:send_to', 'note:send_all', 'no-result-event-in-flight-with-call',
          'root:*', 'root:app', 'root:svc', 'non-star-root-with-raising-handler', 'behav:gen-raise',
          'callee:plain', 'callee:meta', 'callee:error', 'callee:wrong-id', 'callee:duplicate', 'callee:pieces', 'hostile-result-meta', 'call:to-raw-peer',
          'resend:c2s', 'resend:s2c', 'resend:same-connection', 'resend:other-connection', 'resend:fwd', 'resend:concurrent', 'resend:after-raise', 'resend:completed']
TIERS = {
    'quick': dict(runs=24000, wall=30, chunk=50, cfg=dict(max_calls=6, max_ops=26, big=[3000, 4096, 5000, 9000], max_hostile=5, junk=[5000, 20000])),
    'thorough': dict(runs=400000, wall=600, chunk=200, cfg=dict(max_calls=12, max_ops=60, big=[3000, 4090, 4096, 5000, 9000, 20000, 70000],
                                                               max_hostile=10, junk=[5000, 20000, 70000, 300000])),
}

# finding keys of genuine defects (see findings/C19-*.py); the generator steers clear of a trigger when its key is in ctx.avoid
K_SPLIT = 'C19/segmentation/split-packet-dropped'
K_DELIM = 'C19/segmentation/delimiter-in-payload'
K_VALUEKEY = 'C19/exactly-once/call-with-value-key-dropped'
K_RAISE = 'C19/result/error-flag-never-returned'
K_BCAST = 'C19/mixup/result-broadcast-to-all-connections'
K_SHARED = 'C19/mixup/shared-call-table'
K_CAUSE = 'C19/hostile/dispatcher-attribute-overwritten/cause-effects'
K_CHAN = 'C19/loop-survives/tick-raised/_dispatcher'
K_RESENT = 'C19/result/resent-event-stale-result'

SHARED = [(Protocol, '_Protocol__events'), (Server, '_Server__protocols'), (Node, '_Node__peers')]
ADDR = ('10.0.0.1', 9000)
NAMES = ['alpha', 'beta', 'gamma', 'delta']
ATOMS = [0, 1, -1, 2 ** 40, 1.5, True, False, None, '', 'a', 'é', '€uro', '\U0001f600', 'x~y', 'q"uo\\te', 'line\nbreak', '~~', [], {},
         # text ABOUT the wire format: the six characters backslash-u-0-0-7-e (what a tilde looks like inside a packet), backslashes next to tildes
         '\\u007e', 'C:\\users\\u007e\\file', '\\', '\\~']
KW_KEYS = ['k', 'n', 'data', 'id', 'name', 'meta', 'ключ', '_name', 'cls']


def mk_event(name, args, kwargs):
    """Like Event.create(name, *args, **kwargs), for ANY keyword names (a sender is free to use `_name` or `cls` as a keyword)."""
    return type(Event)(name, (Event,), {})(*args, **kwargs)
POLLERS = [Select, Poll, EPoll]
# attributes of an Event the dispatcher reads; a peer must not be able to set them
PROTECTED_META = ['stopped', 'cancelled', 'complete', 'alert_done', 'waitingHandlers', 'failed', 'value', 'handler', 'args', 'kwargs', 'name',
                  'channels', 'success', 'failure', 'notify', 'parent', 'uid', 'success_channels', 'node_call_id', 'node_sock', 'node_without_result',
                  '__class__', '__dict__', '__init__', '__setattr__', 'child', 'create', 'stop', 'cancel']
CAUSE_META = ['cause', 'effects', 'complete_channels']
FREE_META = ['remote_finish', 'errors', 'task', 'lock', 'time_left', 'x', '_private', 'node_protocol']
# meta keys whose value must never show up on the dispatched event (the others in PROTECTED_META are legitimately set by Protocol / dispatcher)
CHECKED_META = ['stopped', 'cancelled', 'alert_done', 'waitingHandlers', 'failed', 'parent', 'uid', 'notify', 'failure', 'node_without_result'] + CAUSE_META
# attributes of the local event that waits for a result: a result packet must not change them (`value` is checked separately: it must stay
# a Value).  For an event that is forwarded while it is being dispatched locally the dispatcher's own bookkeeping attributes are left out.
WATCH_FWD = ['name', 'args', 'kwargs', 'channels', 'stopped', 'cancelled', 'complete', 'success', 'failure', 'notify', 'parent', 'success_channels',
             'complete_channels', 'cause', 'effects']
WATCH = WATCH_FWD + ['alert_done', 'waitingHandlers', 'failed', 'handler']
ABSENT = '<absent>'
RAISES = ('raise', 'gen-raise')      # the handler raises at once / as a coroutine after a yield
ROOT_CHANNELS = ['*', '*', '*', 'app', 'svc']
META_VALS = [True, False, 0, 1, -1, 'x', '', [], {}, None, ['node_result'], 'node', 5.5, [[1]]]


def J(x):
    """Canonical, type-aware text of a JSON value (True != 1, 1 != 1.0)."""
    try:
        return json.dumps(x, sort_keys=True)
    except (TypeError, ValueError):
        return 'UNSERIALISABLE:%s' % type(x).__name__


def short(x, n=40):
    s = J(x)
    return s if len(s) <= n else '%s..(%d)' % (s[:n], len(s))


class Proc:
    """One simulated OS process: a Manager plus its own copy of circuits.node's class-level tables."""

    def __init__(self, tag):
        self.tag = tag
        self.tables = [dict() for _ in SHARED]
        self.m = self.node = self.app = None
        self.alive = True
        self.conns = []
        self.connected = set()
        self.root_channel = '*'


class Conn:
    def __init__(self, k, name, cproc, raw=None):
        self.k, self.name, self.cproc, self.raw = k, name, cproc, raw
        self.csock = self.ssock = None
        self.dead = False


class Call:
    pass


def enter(proc):
    for (cls, name), t in zip(SHARED, proc.tables):
        if name in cls.__dict__:
            setattr(cls, name, t)


def reset_shared():
    for cls, name in SHARED:
        if name in cls.__dict__:
            setattr(cls, name, {})


def peek(sock, n):
    try:
        return _socket.socket.recv(sock, n, _socket.MSG_PEEK)
    except OSError:
        return b''


def packets_of(stream):
    """[(start, end_incl_delimiter_or_len, obj_or_None, complete)] of a byte stream."""
    out = []
    pos = 0
    stream = bytes(stream)
    while pos < len(stream):
        e = stream.find(DELIMITER, pos)
        complete = e >= 0
        end = e + len(DELIMITER) if complete else len(stream)
        raw = stream[pos:e] if complete else stream[pos:]
        try:
            obj = json.loads(raw.decode('utf-8'))
        except (ValueError, RecursionError):
            obj = None
        out.append((pos, end, obj, complete))
        pos = end
    return out


def is_value(obj):
    return isinstance(obj, dict) and 'value' in obj and 'name' not in obj


def is_call(obj):
    return isinstance(obj, dict) and 'name' in obj


class CutPolicy(NoFaults):
    """short_read faults on node sockets drawn from the tape; in `align` mode (avoiding the split-packet finding) reads are
    shortened / delayed so that they end on packet boundaries."""

    def __init__(self, sim):
        self.sim = sim
        self.stalls = {}

    def on_recv(self, sock, n):
        sim = self.sim
        if sock.sim_id not in sim.data_ids or n < 2:
            return None
        ch = sim.ctx.ch
        if sim.align:
            pend = peek(sock, n + 1)
            if not pend:
                return None
            w = pend[:n]
            p = w.rfind(DELIMITER)
            if p >= 0:
                self.stalls[sock.sim_id] = 0
                k = p + len(DELIMITER)
                return None if (k == len(w) and len(pend) <= n) else ('short', k)
            if len(pend) < n and self.stalls.get(sock.sim_id, 0) < 3 and not sim.quiescing:
                self.stalls[sock.sim_id] = self.stalls.get(sock.sim_id, 0) + 1
                return ('err', errno.EWOULDBLOCK)
            return None
        if not sim.cuts_on or not ch.chance(1, sim.cut_rate, 'cut?'):
            return None
        pend = peek(sock, min(n, 1 << 16))
        if len(pend) < 2:
            return None
        kind = ch.weighted([3, 3, 3, 2], 'cut-kind')
        mb = next((i for i in range(1, len(pend)) if pend[i] & 0xC0 == 0x80), -1) if kind == 3 else -1
        if kind == 3 and mb > 0:
            k = mb                                               # between the bytes of a multi-byte character
        elif kind == 0:
            k = 1 + ch.draw(min(len(pend) - 1, 8), 'cut-tiny')
            sim.ctx.stat('cut:tiny')
        elif kind in (1, 3):
            k = 1 + ch.draw(len(pend) - 1, 'cut-uniform')
            sim.ctx.stat('cut:uniform')
        else:
            p = pend.find(DELIMITER)
            if p < 0:
                k = 1 + ch.draw(len(pend) - 1, 'cut-uniform')
                sim.ctx.stat('cut:uniform')
            else:
                k = max(1, p + ch.draw(4, 'cut-delim-off'))      # before / inside / right after the delimiter
                if p < k < p + len(DELIMITER):
                    sim.ctx.stat('cut:in-delimiter')
        if k >= len(pend):
            return None
        if pend[k] & 0xC0 == 0x80:
            sim.ctx.stat('cut:in-multibyte')
        sim.ctx.stat('fault:short_read')
        sim.ctx.trace('    fault short_read: sock#%d gets %d of %d pending bytes' % (sock.sim_id, k, len(pend)))
        return ('short', k)


class Sim:
    def __init__(self, ctx):
        self.ctx = ctx
        self.ch = ctx.ch
        self.cfg = ctx.cfg
        self.procs = {}
        self.conns = []
        self.calls = []
        self.by_tok = {}
        self.hcalls = []            # valid calls of the raw peer that are owed an execution and an answer
        self.data_ids = set()
        self.rx = {}                # sim_id -> [bytearray stream, [chunk end offsets]]
        self.failed = False
        self.align = False
        self.cuts_on = False
        self.cut_rate = 3
        self.quiescing = False
        self.round = 0
        self.hostile_sent = 0
        self.raw_ids = {}
        self.raw_value_ids = []
        self.junk_dispatch = 0
        self.hp = None
        self.hconn = None
        self.notes = []             # fire-and-forget events (Server.send(no_result=True) / send_to / send_all)
        self.rawproc = Proc('R')    # stands for the raw peer where it is the callee of a server -> client call
        self.callee_on = False
        self.seq = 0                # order of handler executions and completions (which came first)

    # ------------------------------------------------------------------ reporting
    def fail(self, key, detail):
        if not self.failed:
            self.failed = True
            self.ctx.trace('VIOLATION %s: %s' % (key, detail))
            self.ctx.violation(key, detail)

    # ------------------------------------------------------------------ world
    def make_proc(self, tag, server=False, fw=None):
        sim = self
        p = Proc(tag)
        self.procs[tag] = p
        enter(p)
        # the application's root component and its channel: the manager fires `exception` events on it
        p.root_channel = self.ch.choice(ROOT_CHANNELS, 'root-channel')
        p.m = make_running(type('Root', (Component,), {'channel': p.root_channel})())
        self.ctx.stat('root:' + p.root_channel)
        self.ctx.log('root', tag, p.root_channel)
        self.ctx.trace('process %s: root component on channel %r' % (tag, p.root_channel))
        self.ch.choice(POLLERS, 'poller')().register(p.m)
        kw = {}
        if fw:
            kw = dict(fw)
        if server:
            p.node = Node(port=ADDR[1], server_ip=ADDR[0], **kw).register(p.m)
        else:
            p.node = Node().register(p.m)

        class Svc(Component):
            channel = 'svc'

            @handler(*NAMES)
            def on_call(self, event, *args, **kwargs):
                return sim.on_call(p, event, args, kwargs, self)

            @handler('relay')
            def relay(self, cid):
                return sim.calls[cid].result

        class App(Component):
            channel = 'app'

            @handler(*NAMES)
            def on_call(self, event, *args, **kwargs):
                return sim.on_call(p, event, args, kwargs, self)

            @handler('relay')
            def relay(self, cid):
                return sim.calls[cid].result

            @handler('go')
            def go(self, cid):
                c = sim.calls[cid]
                r = yield self.call(c.outer, *c.fire_chans)
                sim.completed(c, r)

            @handler('push')
            def push(self, cid):
                c = sim.calls[cid]
                return p.node.server.send(c.event, c.conn.ssock)

            @handler('note')
            def note(self, nid):
                # fire-and-forget events through the three public ways of node.Server; like an application, only to sockets still listed
                n = sim.notes[nid]
                srv = p.node.server
                known = srv.get_socks()
                if n.api == 'send_all':
                    n.targets = [cn for cn in p.conns if cn.ssock in known]
                else:
                    n.targets = [cn for cn in n.targets if cn.ssock in known]
                sim.ctx.trace('    [%s] %s of %s to connection(s) %r' % (p.tag, n.api, n.tok, [cn.k for cn in n.targets]))
                n.sent = True
                if not n.targets:
                    return
                if n.api == 'send':
                    srv.send(n.event, n.targets[0].ssock, no_result=True)
                elif n.api == 'send_to':
                    srv.send_to(n.event, [cn.ssock for cn in n.targets])
                else:
                    srv.send_all(n.event)

            @handler('remote_success', 'push_success')
            def outer_done(self, e, value):
                cid = getattr(e, 'sim_cid', None)
                if cid is not None and sim.calls[cid].mode == 'fire':
                    sim.completed(sim.calls[cid], sim.calls[cid].fv)

            @handler('connected_to', channel='*')
            def on_connected_to(self, name, host, port, chan, client):
                p.connected.add(name)

            @handler('exception', channel='*')
            def on_exception(self, etype, evalue, tb, handler=None, fevent=None):
                sim.ctx.stat('handler-exception')
                sim.ctx.trace('    [%s] exception event: %s in %s' % (p.tag, repr(evalue)[:100], getattr(fevent, 'name', '?')))

        class Fwd(Component):
            """server process only: forwards the event it is handling to a peer and waits for the result (what Node.add(auto_remote_event=...)
            does on the client side, here through Server.send)"""
            channel = 'app'

            @handler('job')
            def job(self, event, *args, **kwargs):
                c = sim.by_tok[args[0]]
                r = yield self.call(Event.create('push', c.cid), 'app')
                sim.completed(c, r)

            @handler('job_success')
            def job_success(self, e, value):
                c = sim.by_tok.get(e.args[0] if e.args else None)
                if c is not None and e is c.event:
                    c.local_success += 1

        class JobExec(Component):
            channel = 'app'

            @handler('job')
            def on_job(self, event, *args, **kwargs):
                return sim.on_call(p, event, args, kwargs, None)

        p.app = App().register(p.m)
        Svc().register(p.m)
        (Fwd if server else JobExec)().register(p.m)
        self.ticks(p, 3)
        return p

    def tick(self, p):
        """One tick(0) of process p; an escaping exception is the 'stops the local event loop' violation."""
        if not p.alive or self.failed:
            return
        enter(p)
        try:
            step(p.m)
        except Exception as e:  # noqa: BLE001 - precisely what must never happen
            site = 'unknown'
            for fr in reversed(traceback.extract_tb(e.__traceback__)):
                if '/circuits/' in fr.filename:
                    site = fr.name
                    break
            key = K_CAUSE if site == '_effectDone' else 'C19/loop-survives/tick-raised/%s' % site
            self.ctx.log('tick-raised', p.tag, site, type(e).__name__)
            self.fail(key, 'tick() of process %s raised %s: %s (innermost circuits frame: %s) - run() would end here'
                      % (p.tag, type(e).__name__, str(e)[:200], site))

    def ticks(self, p, n):
        for _ in range(n):
            self.tick(p)

    def pump_raw(self):
        hp = self.hp
        if hp is not None and not hp.closed:
            hp.pump()
            if self.hp_reads:
                hp.recv()
                if self.callee_on:
                    self.raw_answer()

    def fair_round(self):
        self.round += 1
        for tag in ('A', 'B', 'C'):
            p = self.procs.get(tag)
            if p is not None:
                self.tick(p)
        self.pump_raw()

    def oplog(self, kind, sock, data):
        if kind == 'recv' and data and sock.sim_id in self.data_ids:
            st = self.rx.setdefault(sock.sim_id, [bytearray(), []])
            st[0] += data
            st[1].append(len(st[0]))
            if not data.endswith(DELIMITER):
                self.ctx.stat('packet:split')

    def connect_client(self, p, name, fw=None):
        A = self.procs['A']
        n0 = len(NET.socks)
        enter(p)
        p.node.add(name, ADDR[0], ADDR[1], reconnect_delay=0, **(fw or {}))
        conn = Conn(len(self.conns), name, p)
        enter(A)
        before = list(A.node.server.get_socks())
        enter(p)
        for i in range(60):
            self.tick(p)
            self.tick(A)
            enter(A)
            if any(x not in before for x in A.node.server.get_socks()) and name in p.connected:
                break
        else:
            raise HarnessLimit('connection %s was not established' % name)
        new = [s for s in NET.socks[n0:] if not s.sim_listening]
        if len(new) != 2:
            raise RuntimeError('expected one client and one accepted socket, got %r' % (new,))
        conn.csock, conn.ssock = new[0], new[1]
        enter(A)
        if conn.ssock not in A.node.server.get_socks():
            raise RuntimeError('accepted socket is not in Server.get_socks()')
        self.conns.append(conn)
        p.conns.append(conn)
        A.conns.append(conn)
        self.data_ids.update((conn.csock.sim_id, conn.ssock.sim_id))
        self.ticks(p, 2)
        self.ticks(A, 2)
        self.ctx.trace('connection %d: process %s peer %r (sock#%d) <-> server A (sock#%d)' % (conn.k, p.tag, name, conn.csock.sim_id, conn.ssock.sim_id))
        return conn

    def connect_raw(self):
        A = self.procs['A']
        n0 = len(NET.socks)
        hp = Peer()
        if hp.connect(ADDR) != 0:
            raise RuntimeError('raw peer could not connect')
        for _ in range(8):
            self.tick(A)
        new = [s for s in NET.socks[n0:] if not s.sim_listening]
        if len(new) != 1:
            raise RuntimeError('expected one accepted socket for the raw peer, got %r' % (new,))
        conn = Conn(len(self.conns), 'raw', None, raw=hp)
        conn.ssock = new[0]
        self.conns.append(conn)
        A.conns.append(conn)
        self.data_ids.add(conn.ssock.sim_id)
        self.hp, self.hconn = hp, conn
        hp.clean = True          # everything sent so far ends on a packet boundary
        hp.owed = True           # valid calls are still owed answers (no undecodable bytes / free meta sent yet)
        self.ctx.trace('connection %d: raw peer <-> server A (sock#%d)' % (conn.k, conn.ssock.sim_id))
        return conn

    # ------------------------------------------------------------------ payloads
    def gen_value(self, allow_big, feats, what):
        ch = self.ch
        k = ch.weighted([6, 3, 3, 2 if allow_big else 0, 1 if self.allow_delim else 0, 1 if (self.allow_valuekey or what == 'result') else 0], 'val-kind')
        if k == 0:
            return ch.choice(ATOMS, 'atom')
        if k == 1:
            return [ch.choice(ATOMS, 'atom') for _ in range(ch.randint(1, 4, 'list-len'))]
        if k == 2:
            return {ch.choice(KW_KEYS, 'dict-key'): ch.choice(ATOMS, 'atom') for _ in range(ch.randint(1, 3, 'dict-len'))}
        if k == 3:
            feats.add('big')
            return ch.choice(['x', 'é', 'ab~'], 'big-unit') * ch.choice(self.cfg['big'], 'big-len')
        if k == 4:
            feats.add('delim:' + what)
            return ch.choice(['~~~', 'a~~~b', '~~~~'], 'delim-str')
        feats.add('valuekey:' + what)
        return {'value': ch.choice(ATOMS, 'atom')}

    # ------------------------------------------------------------------ issuing calls
    def in_flight(self, conn=None, proc=None):
        # (a call whose connection died stays in the sender's table for ever)
        return [c for c in self.calls if c.done is None and c.blocked != 'send' and (conn is None or c.conn is conn) and (proc is None or c.src is proc)]

    def snap(self, ev, fwd=False):
        d = vars(ev)
        return {k: (J(d[k]) if k in d else ABSENT) for k in (WATCH_FWD if fwd else WATCH)}

    def resendable(self):
        """calls whose event object has completed a round trip (handler ran, waiting handler resumed) and may be sent once more"""
        return [c for c in self.calls if c.done is not None and c.runs and not (c.void or c.blocked or c.probe or c.resent or c.conn.dead) and c.src.alive
                and c.dst is not self.rawproc and (c.mode != 'fwd' or c.local_success == 1)]

    def issue(self, probe=False, conn=None, s2c=None, again=None):
        """`again` = a completed call whose EVENT OBJECT is sent once more (a retry / a kept event / the same event for another peer): a send
        like any other - "executed exactly once on the peer and its result or error flag comes back to the sender's waiting handler"."""
        ch, ctx = self.ch, self.ctx
        live = [cn for cn in self.conns if cn.raw is None and not cn.dead]
        if not live:
            return None
        A = self.procs['A']
        if again is not None:
            # the first round trip is judged now, while the object still looks as that round trip left it
            again.judged = True
            self.judge_call(again)
            if self.failed:
                return None
            s2c = again.dirn == 's2c'
            others = [cn for cn in live if cn is not again.conn and (s2c or cn.cproc is again.src)]     # further connections of the sending process
            conn = ch.choice(others, 'resend-conn') if (others and ch.chance(1, 2, 'resend-other-conn')) else again.conn
        if conn is None:
            conn = live[0] if probe else ch.choice(live, 'call-conn')
        if s2c is None:
            s2c = (not probe) and self.s2c_on and ch.chance(1, 3, 's2c?')
            if s2c and self.callee_on and self.hconn is not None and not self.hconn.dead and not self.hp.closed and ch.chance(1, 2, 'to-raw?'):
                conn = self.hconn            # the raw peer is the callee
        to_raw = conn.raw is not None
        src, dst = (A, self.rawproc if to_raw else conn.cproc) if s2c else (conn.cproc, A)
        if K_SHARED in ctx.avoid and not probe:
            # two Protocols of one process must not have calls with equal ids in flight (ids restart at 0 per connection)
            if any(c.conn is not conn for c in self.in_flight(proc=src)):
                return None
        c = Call()
        c.cid = len(self.calls)
        c.tok = 'c%d#' % c.cid
        c.conn, c.src, c.dst, c.dirn = conn, src, dst, 's2c' if s2c else 'c2s'
        c.feats = set()
        c.probe = probe
        c.again, c.resent = again, False
        if again is not None:
            c.mode = 'fwd' if again.mode == 'fwd' else ch.choice(['call', 'fire'], 'mode')
            c.feats = {f for f in again.feats if not f.endswith(':result')}
        else:
            c.mode = 'call' if probe else ch.choice(['call', 'fire', 'fwd'] if s2c else ['call', 'fire'], 'mode')
        c.name = again.name if again else 'alpha' if probe else ('job' if c.mode == 'fwd' else ch.choice(NAMES, 'name'))
        allow_big = not probe and self.big_on
        if again is not None:
            c.args, c.kwargs = [c.tok] + again.args[1:], again.kwargs
        else:
            c.args = [c.tok] + ([] if probe else [self.gen_value(allow_big, c.feats, 'call') for _ in range(ch.weighted([3, 3, 1], 'nargs'))])
            c.kwargs = {}
        if not probe and again is None:
            for _ in range(ch.weighted([4, 2, 1], 'nkw')):
                key = 'value' if (self.allow_valuekey and ch.chance(1, 6, 'kw-value?')) else ch.choice(KW_KEYS, 'kw-key')
                if key == 'value':
                    c.feats.add('valuekey:call')
                c.kwargs[key] = self.gen_value(allow_big, c.feats, 'call')
        c.behav = 'ret' if probe else ['ret', 'ret', 'none', 'gen', 'raise', 'gen-raise', 'ret-fire'][
            ch.weighted([5, 3, 2, 2] + ([2, 1] if self.allow_raise else [0, 0]) + [2], 'behav')]
        c.result = None
        if c.behav in ('ret', 'gen', 'ret-fire'):
            c.result = 'pong' if probe else self.gen_value(allow_big, c.feats, 'result')
            if c.result is None:
                c.behav = 'none'
        if again is not None and c.behav not in RAISES and again.behav not in RAISES and J(c.result) == J(again.result):
            # the two executions of a re-sent event give different results, so that a stale one is recognisable
            c.behav, c.result = ('ret' if c.behav == 'none' else c.behav), ['again', c.tok]
        c.plan = None
        if to_raw:
            c.behav, c.result, c.plan = 'raw', None, self.callee_plan(c)
        if again is not None:
            c.failure, c.notify, c.success = again.failure, again.notify, again.success
        else:
            c.failure = (not probe) and ch.chance(1, 4, 'failure-flag')
            c.notify = (not probe) and ch.chance(1, 5, 'notify-flag')
            c.success = c.mode == 'fwd' or ((not probe) and ch.chance(1, 4, 'success-flag'))
        c.size = len(J(c.args)) + len(J(c.kwargs)) + 190
        c.rsize = len(J(c.result)) + 60
        if self.align and max(c.size, c.rsize) > 3600:
            return None
        if again is not None:
            # the very same object, left as its first round trip left it; only the token in its first argument is renewed (in place), so
            # that the two executions can be told apart at the peer
            again.resent = True
            c.event = again.event
            c.event.args[0] = c.tok
            ctx.stat('resend:' + c.dirn)
            ctx.stat('resend:same-connection' if conn is again.conn else 'resend:other-connection')
            for probe_name, hit in (('fwd', c.mode == 'fwd'), ('concurrent', self.in_flight(proc=src)), ('after-raise', again.behav in RAISES)):
                if hit:
                    ctx.stat('resend:' + probe_name)
        else:
            c.event = mk_event(c.name, c.args, c.kwargs)
            c.event.failure, c.event.notify, c.event.success = c.failure, c.notify, c.success
        if not probe and again is None and c.mode != 'fwd' and ch.chance(1, 6, 'custom-meta'):
            c.event.trace_meta = 'm%d' % c.cid            # an application attribute: travels as meta
        if s2c and again is not None:
            c.chans = again.chans
            c.fire_chans = ('app',)
            c.outer = Event.create('push', c.cid)
        elif s2c:
            # ('app', 'void'): nobody listens on the second channel (a handler on both would legitimately run twice)
            c.chans = ('app', 'void') if (c.mode != 'fwd' and ch.chance(1, 5, 'two-channels')) else ('app',)
            c.event.channels = c.chans
            c.fire_chans = ('app',)
            c.outer = Event.create('push', c.cid)
        else:
            rchan = None if probe else ch.choice([None, None, 'svc'], 'remote-channel')
            c.fire_chans = ('app',)
            c.chans = (rchan,) if rchan is not None else c.fire_chans
            c.outer = remote(c.event, conn.name, channel=rchan) if rchan is not None else remote(c.event, conn.name)
        c.outer.sim_cid = c.cid
        blocked = self.blocked_names
        c.blocked = None
        if c.name in blocked.get((src.tag, 'send'), ()):
            c.blocked = 'send'
        elif c.name in blocked.get((dst.tag, 'recv'), ()):
            c.blocked = 'recv'
        c.runs, c.done, c.fv, c.void, c.local_success, c.answered, c.judged, c.ran_at, c.done_at = [], None, None, False, 0, None, False, None, None
        c.concurrent = len(self.in_flight(conn=conn))
        c.issued_round = self.round
        self.calls.append(c)
        self.by_tok[c.tok] = c
        ctx.stat('call:' + c.dirn)
        ctx.stat('mode:' + c.mode)
        if c.behav in RAISES or c.behav in ('gen', 'ret-fire'):
            ctx.stat('behav:' + c.behav)
        if c.concurrent:
            ctx.stat('call:concurrent')
        if 'big' in c.feats:
            ctx.stat('call:big')
        if c.blocked:
            ctx.stat('fw:%s-blocked' % c.blocked)
        if probe:
            ctx.stat('hostile:probe-call')
        if to_raw:
            ctx.stat('call:to-raw-peer')
        if s2c and not c.blocked and any(conn in n.targets and not n.blocked and not self.note_satisfied(n) for n in self.notes):
            # a fire-and-forget event and an awaited call are under way on the same connection
            ctx.stat('no-result-event-in-flight-with-call')
        ctx.state((self.topo, min(c.concurrent, 3), min(max(c.size, c.rsize) // 2048, 4), c.dirn, c.blocked or '-', c.mode, to_raw)
                  + ((again.behav, c.behav, conn is again.conn) if again else ()))
        ctx.log('call', c.cid, c.dirn, conn.k, c.name, c.size, c.rsize, c.behav, c.mode, c.failure, c.notify, c.blocked or '-', short(c.args[1:]), short(c.kwargs),
                again.cid if again else -1)
        ctx.trace('%s %s: process %s -> %s over connection %d (%s): %s(%s, %s) channels=%r flags(s/f/n)=%d%d%d %s%s' % (
            'PROBE call' if probe else 'call' if again is None else 'RE-SEND of the event object of %s (sent over connection %d, obtained %s) as call' % (
                again.tok, again.conn.k, again.done[0][:40]),
            c.tok, src.tag, 'raw peer' if to_raw else dst.tag, conn.k, c.mode, c.name, short(c.args), short(c.kwargs), c.chans,
            c.success, c.failure, c.notify,
            'raw peer will answer: %s' % self.plan_text(c.plan) if to_raw else
            'handler will %s%s' % (c.behav, '' if c.behav in ('none',) + RAISES else ' ' + short(c.result)),
            ' [blocked by %s firewall]' % c.blocked if c.blocked else ''))
        # "the event attributes the dispatcher relies on": what the local event looks like before any peer had a say
        c.before = self.snap(c.event, fwd=c.mode == 'fwd')
        enter(src)
        if c.mode == 'call':
            src.app.fire(Event.create('go', c.cid), 'app')
        elif c.mode == 'fwd':
            src.app.fire(c.event, 'app')        # dispatched locally; its handler forwards it (Fwd.job)
        else:
            c.outer.success = True
            c.fv = src.app.fire(c.outer, *c.fire_chans)
        return c

    # ---- fire-and-forget events
    def note_needed(self, n):
        need = {}
        for cn in n.targets:
            if cn.raw is None and not cn.dead:
                need[cn.cproc.tag] = need.get(cn.cproc.tag, 0) + 1
        return need

    def note_satisfied(self, n):
        if n.blocked:
            return True
        if not n.sent:
            return False
        return all(n.runs.count(tag) >= k for tag, k in self.note_needed(n).items())

    def issue_note(self, conn=None):
        """Server.send(event, sock, no_result=True) / send_to(event, socks) / send_all(event): "an event sent to a peer node is executed exactly
        once on the peer"; nobody waits for a result (the peer answers all the same, which must not disturb the awaited calls)."""
        ch, ctx = self.ch, self.ctx
        A = self.procs['A']
        live = [cn for cn in self.conns if not cn.dead and (cn.raw is None or (self.callee_on and not self.hp.closed))]
        if not [cn for cn in live if cn.raw is None]:
            return None
        n = Call()
        n.cid = len(self.notes)
        n.tok = 'n%d#' % n.cid
        n.api = 'send' if conn is not None else ch.choice(['send', 'send', 'send_to', 'send_all'], 'note-api')
        if conn is not None:
            n.targets = [conn]
        elif n.api == 'send':
            n.targets = [ch.choice(live, 'note-conn')]
        elif n.api == 'send_to':
            n.targets = ch.subset(live, 'note-conns') or [live[0]]
        else:
            n.targets = list(live)                # (recomputed from Server.get_socks() when the handler runs)
        n.mode, n.dirn, n.src, n.dst, n.conn, n.probe, n.plan = 'note', 's2c', A, None, n.targets[0], False, None
        n.feats = set()
        n.name = ch.choice(NAMES, 'note-name')
        n.args = [n.tok] + [self.gen_value(False, n.feats, 'call') for _ in range(ch.weighted([3, 2], 'note-nargs'))]
        n.kwargs = {}
        if ch.chance(1, 3, 'note-kw'):
            n.kwargs[ch.choice(KW_KEYS, 'note-kw-key')] = self.gen_value(False, n.feats, 'call')
        n.behav = ['ret', 'none', 'gen', 'raise', 'gen-raise'][ch.weighted([5, 2, 2] + ([2, 1] if self.allow_raise else [0, 0]), 'note-behav')]
        n.result = ['note-result', n.tok]        # never equal to the result of an awaited call
        n.failure, n.notify, n.success = ch.chance(1, 4, 'failure-flag'), ch.chance(1, 5, 'notify-flag'), ch.chance(1, 4, 'success-flag')
        n.chans = ('app',)
        n.event = mk_event(n.name, n.args, n.kwargs)
        n.event.failure, n.event.notify, n.event.success, n.event.channels = n.failure, n.notify, n.success, n.chans
        n.size = len(J(n.args)) + len(J(n.kwargs)) + 190
        n.rsize = 100
        n.blocked = None
        if n.name in self.blocked_names.get(('A', 'send'), ()):
            n.blocked = 'send'
        elif n.name in self.blocked_names.get(('B', 'recv'), ()):      # (B and C use the same predicate)
            n.blocked = 'recv'
        n.runs, n.sent, n.void, n.done = [], False, False, None
        self.notes.append(n)
        self.by_tok[n.tok] = n
        ctx.stat('note:' + n.api)
        ctx.log('note', n.cid, n.api, [cn.k for cn in n.targets], n.name, n.behav, n.blocked or '-', short(n.args[1:]), short(n.kwargs))
        ctx.trace('no-result event %s: process A %s -> connection(s) %r: %s(%s, %s) handler will %s%s' % (
            n.tok, n.api, [cn.k for cn in n.targets], n.name, short(n.args), short(n.kwargs), n.behav, ' [blocked by %s firewall]' % n.blocked if n.blocked else ''))
        enter(A)
        A.app.fire(Event.create('note', n.cid), 'app')
        return n

    # ---- the raw peer as callee
    def callee_plan(self, c):
        ch = self.ch
        kind = ['plain', 'meta', 'error', 'wrong-id', 'duplicate', 'never'][ch.weighted([3, 6, 1, 2, 2, 1], 'callee-kind')]
        plan = dict(kind=kind, value=['raw-result', c.tok] if ch.chance(1, 2, 'callee-val') else ch.choice(ATOMS[:10], 'callee-atom'), meta={},
                    pieces=ch.chance(1, 3, 'callee-pieces'))
        if plan['value'] is None:
            plan['value'] = 'r'
        if kind == 'meta':
            pool = PROTECTED_META * 2 + CAUSE_META + FREE_META
            for _ in range(ch.randint(1, 4, 'callee-n-meta')):
                k = ch.choice(pool, 'meta-key')
                plan['meta'][k] = 'forged' if (k == 'value' and ch.chance(1, 2, 'forged')) else ch.choice(META_VALS, 'meta-val')
        elif kind == 'wrong-id':
            plan['wrong'] = ch.choice(['+1000', 'list', 'str', 'null', '-1'], 'callee-wrong')
        return plan

    def plan_text(self, plan):
        return '%s value=%s%s%s' % (plan['kind'], short(plan['value']), ' meta=%s' % short(plan['meta'], 90) if plan['meta'] else '', ' in pieces' if plan['pieces'] else '')

    def raw_answer(self):
        """The raw peer reads the call packets the server sent it and answers the awaited ones with result packets from the grammar."""
        hp = self.hp
        done = getattr(hp, 'parsed', 0)
        for s, e, obj, complete in packets_of(bytes(hp.inp[done:])):
            if not complete:
                break
            hp.parsed = done + e
            if not is_call(obj) or not isinstance(obj.get('args'), list) or not obj['args'] or self.failed:
                continue
            c = self.by_tok.get(obj['args'][0] if isinstance(obj['args'][0], str) else None)
            if c is None or c.mode == 'note' or c.dst is not self.rawproc or c.answered is not None:
                continue
            plan, wid = c.plan, obj.get('id')
            c.answered, c.wire_id = self.round, wid
            if plan['kind'] == 'never':
                self.ctx.trace('raw peer received %s (id %s) and does not answer' % (c.tok, wid))
                continue
            good = {'id': wid, 'errors': plan['kind'] == 'error', 'value': plan['value'], 'meta': plan['meta']}
            packets = [good]
            if plan['kind'] == 'wrong-id':
                w = plan['wrong']
                bad_id = {'+1000': (wid + 1000 if isinstance(wid, int) else 1000), 'list': [wid], 'str': str(wid), 'null': None, '-1': -1}[w]
                packets = [dict(good, id=bad_id, value='WRONG-ID'), good]
            elif plan['kind'] == 'duplicate':
                packets = [good, dict(good, value='DUPLICATE')]
            data = b''.join(json.dumps(d).encode() + DELIMITER for d in packets)
            self.hostile_sent += 1
            self.ctx.stat('callee:' + plan['kind'])
            if plan['meta']:
                self.ctx.stat('hostile-result-meta')
            if plan['pieces']:
                self.ctx.stat('callee:pieces')
            self.ctx.state(('callee', plan['kind'], plan['pieces'], tuple(sorted(plan['meta']))[:3]))
            self.ctx.log('callee', c.cid, plan['kind'], short(plan['meta'], 100), plan['pieces'])
            self.ctx.trace('raw peer answers %s (id %s): %s' % (c.tok, wid, ' + '.join(short(d, 200) for d in packets)))
            if not hp.clean:
                self.h_send(b'x' + DELIMITER)
            self.h_send(data, plan['pieces'])

    # ------------------------------------------------------------------ observation points
    def attr_problem(self, event, c):
        """"...or overwrite the event attributes the dispatcher relies on": invariants of any dispatched event, plus, for a tracked call of
        the raw peer, no dispatcher attribute may show the value the peer put into `meta` (unless that is the default anyway)."""
        v = event.value
        checks = (('args', type(event.args) is list), ('kwargs', type(event.kwargs) is dict), ('stopped', event.stopped is False),
                  ('cancelled', event.cancelled is False), ('complete', type(event.complete) is bool), ('alert_done', type(event.alert_done) is bool),
                  ('waitingHandlers', type(event.waitingHandlers) is int), ('failed', event.failed is False),
                  ('value', isinstance(v, Value) and v.event is event), ('handler', callable(event.handler)), ('success', type(event.success) is bool),
                  ('success_channels', type(getattr(event, 'success_channels', ())) is tuple), ('notify', type(event.notify) in (bool, str)),
                  ('failure', type(event.failure) is bool), ('channels', type(event.channels) is tuple), ('name', type(event.name) is str))
        for name, ok in checks:
            if not ok:
                return name
        meta = getattr(c, 'meta', None)
        if meta:
            fresh = Event()
            for k in meta:
                if k in CHECKED_META and hasattr(event, k) and J(getattr(event, k)) == J(meta[k]) and (not hasattr(fresh, k) or J(getattr(fresh, k)) != J(meta[k])):
                    return 'cause-effects' if k in CAUSE_META else k
        return None

    def on_call(self, p, event, args, kwargs, comp=None):
        ctx = self.ctx
        tok = args[0] if args and isinstance(args[0], str) else None
        c = self.by_tok.get(tok)
        bad = self.attr_problem(event, c)
        if bad is not None:
            key = K_CAUSE if bad == 'cause-effects' else 'C19/hostile/dispatcher-attribute-overwritten/%s' % bad
            self.fail(key, 'event %s delivered in process %s carries a peer-controlled dispatcher attribute (%s)' % (event.name, p.tag, bad))
        if c is None:
            self.junk_dispatch += 1
            ctx.stat('junk-dispatch')
            ctx.log('junk-dispatch', p.tag, event.name)
            ctx.trace('    [%s] handler ran for a packet that is not a tracked call: %s' % (p.tag, event.name))
            return 'junk'
        c.runs.append(p.tag)
        self.seq += 1
        if len(c.runs) == 1:
            c.ran_at = self.seq
        ctx.log('run', p.tag, tok, len(c.runs))
        ctx.trace('    [%s] handler %s ran for %s (run #%d)' % (p.tag, event.name, tok, len(c.runs)))
        if c.blocked:
            which = 'send' if c.blocked == 'send' else 'receive'
            self.fail('C19/firewall/%s/dispatched' % which, '%s was rejected by the %s firewall but its handler ran in process %s' % (tok, which, p.tag))
        elif c.mode == 'note' and c.runs.count(p.tag) > len([cn for cn in c.targets if cn.cproc is p]):
            # one execution per connection the event was sent on
            self.fail('C19/exactly-once/no-result-event-ran-twice' if any(cn.cproc is p for cn in c.targets) else 'C19/exactly-once/ran-in-wrong-process',
                      'no-result event %s (%s to connections %r) ran %d times in process %s' % (tok, c.api, [cn.k for cn in c.targets], c.runs.count(p.tag), p.tag))
        elif c.mode != 'note' and len(c.runs) > 1:
            self.fail('C19/exactly-once/ran-twice', 'handler of %s ran %d times (%r)' % (tok, len(c.runs), c.runs))
        elif c.mode != 'note' and p is not c.dst:
            self.fail('C19/exactly-once/ran-in-wrong-process', '%s was sent to process %s but ran in %s' % (tok, c.dst.tag, p.tag))
        else:
            # "event/value serialisation preserves name, arguments, keyword arguments, channels and feedback flags"
            for what, got, exp in (('name', event.name, c.name), ('args', list(args), c.args), ('kwargs', kwargs, c.kwargs),
                                   ('channels', list(event.channels), list(c.chans)), ('failure-flag', event.failure, c.failure),
                                   ('notify-flag', event.notify, c.notify)):
                if J(got) != J(exp):
                    self.fail('C19/serialisation/%s-changed' % what, '%s: handler saw %s %s, sent %s' % (tok, what, short(got, 200), short(exp, 200)))
                    break
        if c.behav in RAISES and p.root_channel != '*':
            ctx.stat('non-star-root-with-raising-handler')
        if c.behav == 'raise':
            raise RuntimeError('handler of %s fails' % tok)
        if c.behav == 'gen-raise':
            def gr():
                yield None
                raise RuntimeError('coroutine handler of %s fails after a yield' % tok)
            return gr()
        if c.behav == 'gen':
            def g():
                yield None
                yield c.result
            return g()
        if c.behav == 'ret-fire' and comp is not None:
            # the usual way to delegate: the handler returns the (future) Value of another event, whose handler produces the result
            return comp.fire(Event.create('relay', c.cid), comp.channel)
        return c.result

    def completed(self, c, r):
        if c.done is not None:
            if c.mode == 'call':
                self.fail('C19/result/waiting-handler-resumed-twice', '%s: the waiting handler was resumed twice' % c.tok)
            return
        val = r.value if isinstance(r, Value) else r
        ev = c.event
        err = bool(getattr(r, 'errors', False)) or bool(getattr(ev, 'errors', False)) or bool(getattr(getattr(ev, 'value', None), 'errors', False))
        c.done = (J(val), err, self.round)
        self.seq += 1
        c.done_at = self.seq
        if c.again is not None:
            self.ctx.stat('resend:completed')
        self.ctx.stat('completed')
        self.ctx.log('done', c.cid, short(val, 60), err)
        self.ctx.trace('    [%s] sender of %s obtained %s errors=%s' % (c.src.tag, c.tok, short(val, 80), err))

    # ------------------------------------------------------------------ hostile raw peer
    def h_send(self, data, pieces=False):
        hp = self.hp
        if pieces and len(data) > 2 and not self.align:
            k = 1 + self.ch.draw(len(data) - 1, 'piece-cut')
            mb = next((i for i in range(k, len(data)) if data[i] & 0xC0 == 0x80), -1)
            if mb > 0 and self.ch.chance(1, 2, 'piece-in-multibyte'):
                k = mb
                self.ctx.stat('cut:in-multibyte')
            hp.send(data[:k])
            self.ticks(self.procs['A'], 1 + self.ch.draw(3, 'piece-gap'))
            hp.send(data[k:])
            self.ctx.trace('    (raw peer sent it in two pieces: %d + %d bytes)' % (k, len(data) - k))
        else:
            hp.send(data)
        # cleanly framed = ends with a delimiter that is not preceded by a further tilde (which would shift the split)
        hp.clean = bytes(hp.sent[-3:]) == DELIMITER and bytes(hp.sent[-4:-3]) != b'~' and not hp.out

    def h_valid_packet(self, extra_meta=None, big=0):
        ch = self.ch
        n = len(self.hcalls)
        tok = 'h%d#' % n
        feats = set()
        args = [tok] + [self.gen_value(False, feats, 'call') for _ in range(ch.weighted([3, 3, 1], 'h-nargs'))]
        if big:
            args.append('y' * big)
        kwargs = {}
        if ch.chance(1, 3, 'h-kw'):
            kwargs[ch.choice(KW_KEYS, 'h-kw-key')] = self.gen_value(False, feats, 'call')
        hid = ch.choice([0, 0, 1, 2, 7], 'h-id') if K_SHARED not in self.ctx.avoid else 1000 + n
        self.raw_ids[J(hid)] = self.raw_ids.get(J(hid), 0) + 1
        d = {'id': hid, 'name': ch.choice(NAMES, 'h-name'), 'args': args, 'kwargs': kwargs, 'success': ch.chance(1, 2, 'h-success'),
             'failure': False, 'channels': ['app'], 'notify': False, 'meta': dict(extra_meta or {})}
        return d, tok, feats

    def h_register(self, d, tok, feats, owed):
        c = Call()
        c.cid = None
        c.tok, c.name, c.args, c.kwargs, c.chans = tok, d['name'], d['args'], d['kwargs'], tuple(d['channels'])
        c.failure, c.notify = bool(d['failure']), bool(d['notify'])
        c.hid = d['id']
        c.behav, c.result, c.blocked = 'ret', ['ok', tok], None
        if d['name'] in self.blocked_names.get(('A', 'recv'), ()):
            c.blocked = 'recv'
        c.runs, c.dst, c.feats, c.owed = [], self.procs['A'], feats, owed
        c.conn, c.src, c.probe, c.dirn, c.mode, c.done = self.hconn, None, False, 'raw', 'raw', None
        c.issued_round = self.round
        self.hcalls.append(c)
        self.by_tok[tok] = c
        return c

    def hostile_action(self):
        ch, ctx, hp = self.ch, self.ctx, self.hp
        avoid = ctx.avoid
        kind = ch.weighted([4, 4, 3, 4, 2, 2], 'hostile-kind')
        pieces = ch.chance(1, 4, 'pieces?')
        self.hostile_sent += 1
        if kind not in (0, 3):
            # the statement promises a misbehaving peer nothing for its own later packets (a malformed packet may e.g. take the rest
            # of its read with it); only the loop, the dispatcher attributes and the other connections are protected
            hp.owed = False
        if kind in (0, 3):
            # a well-formed call, optionally with meta keys from the grammar
            meta = {}
            free = False
            if kind == 3:
                pool = PROTECTED_META * 2 + FREE_META + ([] if K_CAUSE in avoid else CAUSE_META * 3)
                if not self.allow_valuekey:
                    pool = [k for k in pool if k != 'value']     # '"value":' anywhere in a call packet makes it a result packet
                for _ in range(ch.randint(1, 3, 'n-meta')):
                    k = ch.choice(pool, 'meta-key')
                    meta[k] = ch.choice(META_VALS, 'meta-val')
                    if k in FREE_META or k in CAUSE_META:
                        free = True
            raw_utf8 = ch.chance(1, 3, 'raw-utf8')
            big = ch.choice(self.cfg['big'], 'h-big') if (self.big_on and ch.chance(1, 8, 'h-big?')) else 0
            if not hp.clean:
                self.h_send(b'x' + DELIMITER)     # resynchronise after junk without delimiter (a filler: stray tildes must not eat the delimiter)
            d, tok, feats = self.h_valid_packet(meta, big)
            valuekey_meta = 'value' in meta
            # payloads with the delimiter or a "value" key are judged on node-to-node calls only
            # and a call that carries hostile meta keys may be executed or dropped: only its effect on the attributes is judged
            owed = hp.owed and not meta and not any(f.startswith(('delim', 'valuekey')) for f in feats)
            if free:
                hp.owed = hp.owed and not any(k in CAUSE_META for k in meta)
            if valuekey_meta:
                feats.add('valuekey:call')
            self.h_register(d, tok, feats, owed).meta = dict(meta)
            data = json.dumps(d, ensure_ascii=not raw_utf8).encode('utf-8') + DELIMITER
            ctx.stat('hostile:meta' if kind == 3 else 'hostile:valid')
            ctx.state(('hostile', 'meta' if kind == 3 else 'valid', bool(big), raw_utf8))
            ctx.log('hostile', 'call', tok, d['id'], d['name'], short(d['args'][1:]), short(d['kwargs']), short(meta), len(data), owed)
            ctx.trace('raw peer sends valid call %s id=%s %s(%s, %s) meta=%s (%d bytes)%s' % (tok, d['id'], d['name'], short(d['args']), short(d['kwargs']),
                                                                                       short(meta, 80), len(data), '' if owed else ' [no answer owed]'))
            self.h_send(data, pieces and not big)
        elif kind == 1:
            data, desc = self.mutated_json()
            ctx.stat('hostile:mutated')
            ctx.state(('hostile', 'mutated', desc.split(':')[0]))
            ctx.log('hostile', 'mutated', desc, len(data))
            ctx.trace('raw peer sends mutated JSON [%s] (%d bytes)' % (desc, len(data)))
            self.h_send(data + DELIMITER, pieces)
        elif kind == 2:
            data, desc, poison = self.junk_bytes()
            ctx.stat('hostile:bytes')
            ctx.state(('hostile', 'bytes', desc.split(':')[0]))
            ctx.log('hostile', 'bytes', desc, len(data))
            ctx.trace('raw peer sends bytes [%s] (%d bytes)' % (desc, len(data)))
            self.h_send(data, pieces)
        elif kind == 4:
            hid = ch.choice([0, 0, 1, 2, 3], 'v-id') if K_SHARED not in avoid else 1000 + ch.draw(5, 'v-id')
            meta = {}
            for _ in range(ch.randint(0, 2, 'v-n-meta')):
                meta[ch.choice(PROTECTED_META + FREE_META + CAUSE_META, 'meta-key')] = ch.choice(META_VALS, 'meta-val')
            d = {'id': hid, 'errors': ch.choice([False, True, 'x'], 'v-err'), 'value': ch.choice(ATOMS + ['HOSTILE'], 'v-val'), 'meta': meta}
            mut = ch.weighted([6, 1, 1, 1], 'v-mut')
            if mut == 1:
                d['meta'] = ch.choice([5, [], 'x', None], 'v-meta-type')
            elif mut == 2:
                d['id'] = ch.choice([[0], {'a': 1}, None, 'x'], 'v-id-type')
            elif mut == 3:
                del d[ch.choice(['id', 'errors', 'meta'], 'v-del')]
            if not hp.clean:
                self.h_send(b'x' + DELIMITER)
            self.raw_value_ids.append(J(d.get('id')))
            ctx.stat('hostile:value')
            ctx.state(('hostile', 'value', mut))
            ctx.log('hostile', 'value', short(d, 120))
            ctx.trace('raw peer sends value packet %s' % short(d, 160))
            self.h_send(json.dumps(d).encode() + DELIMITER, pieces)
        else:
            n = ch.choice(self.cfg['junk'], 'junk-len')
            with_delim = ch.chance(1, 2, 'junk-delim')
            ctx.stat('hostile:oversized')
            ctx.state(('hostile', 'oversized', n, with_delim))
            ctx.log('hostile', 'oversized', n, with_delim)
            ctx.trace('raw peer sends %d bytes of oversized junk %s delimiter' % (n, 'with' if with_delim else 'without'))
            self.h_send(b'{"id": 0, "name": "' + b'A' * n + (DELIMITER if with_delim else b''))

    def mutated_json(self):
        ch = self.ch
        d, tok, feats = self.h_valid_packet()
        d['args'][0] = 'mut#'           # not a tracked call: whatever happens to it, nothing is owed
        unhash = [] if K_CHAN in self.ctx.avoid else [[['x']], [{}], [['app'], 'app']]
        k = ch.draw(11, 'mutation')
        if k == 0:
            d['name'] = ch.choice([5, None, ['a'], {'a': 1}, '', 'no_such_handler', 'a b', 'év', True, 'a\x00b', '\ud800'], 'm-name')
            return json.dumps(d).encode(), 'name:%s' % short(d['name'], 20)
        if k == 1:
            d['args'] = ch.choice(['abc', 5, None, {'a': 1}, [[[[[]]]]], True], 'm-args')
            return json.dumps(d).encode(), 'args:%s' % short(d['args'], 20)
        if k == 2:
            d['kwargs'] = ch.choice([[], [['a', 1]], 'x', None, {'event': 1}, {'self': 1}, {'': 1}, {'_name': 1}, 5], 'm-kwargs')
            return json.dumps(d).encode(), 'kwargs:%s' % short(d['kwargs'], 20)
        if k == 3:
            d['channels'] = ch.choice([5, None, 'app', [], [None], [5], ['*'], ['app', 'app'], [1.5], [True]] + unhash, 'm-channels')
            return json.dumps(d).encode(), 'channels:%s' % short(d['channels'], 20)
        if k == 4:
            d['id'] = ch.choice([None, 'x', [1], {'a': 1}, -1, 2 ** 70, 1.5], 'm-id')
            self.raw_ids[J(d['id'])] = self.raw_ids.get(J(d['id']), 0) + 1
            return json.dumps(d).encode(), 'id:%s' % short(d['id'], 20)
        if k == 5:
            key = ch.choice(sorted(d), 'm-del')
            del d[key]
            return json.dumps(d).encode(), 'missing:%s' % key
        if k == 6:
            d['meta'] = ch.choice([[], 5, 'x', None, [['a', 1]], {'': 1}], 'm-meta')
            return json.dumps(d).encode(), 'meta:%s' % short(d['meta'], 20)
        if k == 7:
            key = ch.choice(['success', 'failure', 'notify'], 'm-flag')
            d[key] = ch.choice(['no', [], {}, 'evt', 0, None, [0], 'a\x00b', '\ud800', 'x' * 300], 'm-flag-val')
            return json.dumps(d).encode(), '%s:%s' % (key, short(d[key], 20))
        if k == 8:
            whole = ch.choice(['[]', '5', '"str"', 'null', 'true', '{}', '[{}]', '{"value": 1}', '{"value": 1, "id": 0, "errors": 0, "meta": 5}',
                               '{"id": 0, "id": 1}', 'NaN', '[NaN, Infinity]', '1' * 5000, '{"name": "alpha"}', ''], 'm-whole')
            return whole.encode(), 'whole:%s' % whole[:24]
        if k == 9:
            depth = ch.choice([50, 900, 1900], 'm-depth')
            d['args'] = [json.loads('[' * 5 + ']' * 5)]
            s = json.dumps(d).replace('[[[[[]]]]]', '[' * depth + ']' * depth)
            return s.encode(), 'deep:%d' % depth
        s = json.dumps(d)
        cut = 1 + ch.draw(len(s) - 1, 'm-trunc')
        return s[:cut].encode(), 'truncated:%d/%d' % (cut, len(s))

    def junk_bytes(self):
        ch = self.ch
        k = ch.draw(7, 'junk-kind')
        if k == 0:
            d, tok, _ = self.h_valid_packet()
            d['args'][0] = 'junk#'
            return b'\xff\xfe' + json.dumps(d).encode() + DELIMITER, 'invalid-utf8-prefix', True
        if k == 1:
            return ch.choice([b'\xc3', b'\xe2\x82', b'\xf0\x9f\x98', b'\x80', b'\xc0\xaf'], 'bad-utf8') + DELIMITER, 'truncated-utf8', True
        if k == 2:
            return ch.bytes(1 + ch.draw(24, 'rand-len'), 'rand-bytes') + DELIMITER, 'random-bytes', True
        if k == 3:
            return b'\x00' * (1 + ch.draw(8, 'nul-len')) + DELIMITER, 'nul-bytes', False
        if k == 4:
            return b'~' * (1 + ch.draw(8, 'tilde-len')), 'tildes', True      # framing after stray tildes is ambiguous
        if k == 5:
            d, tok, _ = self.h_valid_packet()
            d['args'][0] = 'junk#'
            return json.dumps(d).encode(), 'valid-json-without-delimiter', False
        return b'{"id": 1, "name": "alpha", "args": ["junk#", "\xe2\x82', 'cut-inside-multibyte-without-delimiter', True

    def abort_raw(self):
        hp = self.hp
        self.ctx.stat('fault:peer_abort')
        self.ctx.log('hostile', 'abort', bool(hp.out))
        self.ctx.trace('fault peer_abort: raw peer closes its socket%s' % (' with unread data pending' if not self.hp_reads else ''))
        hp.close()
        self.hconn.dead = True
        for c in self.hcalls:
            if not c.runs:
                c.owed = False
            c.answer_owed = False
        for c in self.calls:
            if c.dst is self.rawproc and c.done is None:
                c.void = True

    def kill_proc(self, p):
        """peer abort of a whole client process: its sockets vanish (reset if data is unread), it is never ticked again."""
        self.ctx.stat('fault:peer_abort')
        self.ctx.log('kill', p.tag)
        self.ctx.trace('fault peer_abort: process %s dies (its connections are reset)' % p.tag)
        p.alive = False
        for cn in p.conns:
            cn.dead = True
            _socket.socket.close(cn.csock)
        for c in self.calls:
            if c.conn.dead and c.done is None:
                c.void = True

    # ------------------------------------------------------------------ judgement
    def tx_stream(self, conn, sender):
        """bytes `sender` ('c' or 's') put on the wire of this connection (interposer ground truth)."""
        if sender == 's':
            return bytes(conn.ssock.sim_sent)
        return bytes(conn.raw.sent) if conn.raw is not None else bytes(conn.csock.sim_sent)

    def rx_bounds(self, conn, receiver):
        sock = conn.ssock if receiver == 's' else conn.csock
        st = self.rx.get(sock.sim_id) if sock is not None else None
        return (len(st[0]), st[1]) if st else (0, [])

    def packet_cut(self, conn, sender, s, e):
        """was the packet [s, e) of sender's stream handed to the receiving component in more than one read (or not fully)?"""
        total, bounds = self.rx_bounds(conn, 'c' if sender == 's' else 's')
        if e > total:
            return 'undelivered'
        # a boundary inside the packet, or inside the delimiter in front of it (the stray tildes then stick to this packet)
        return 'split' if any(s - len(DELIMITER) < b < e and b != s for b in bounds) else None

    def locate(self, stream, needle):
        i = stream.find(needle)
        if i < 0:
            return None
        s = stream.rfind(DELIMITER, 0, i)
        s = 0 if s < 0 else s + len(DELIMITER)
        e = stream.find(DELIMITER, i)
        e = len(stream) if e < 0 else e + len(DELIMITER)
        return s, e

    def diagnose(self, c, clause):
        """Refine a failed call into a root-cause key from ground truth; None = no known shape."""
        feats = c.feats
        snd, rcv = ('s', 'c') if c.dirn == 's2c' else ('c', 's')
        tx = self.tx_stream(c.conn, snd)
        back = self.tx_stream(c.conn, rcv)
        loc = self.locate(tx, c.tok.encode())
        wire_id = None
        if loc is not None:
            try:
                wire_id = json.loads(tx[loc[0]:loc[1] - len(DELIMITER)].decode())['id']
            except (ValueError, KeyError, TypeError):
                m = re.match(rb'\{"id": (\d+), "name"', tx[loc[0]:loc[0] + 40])       # packet not complete / not parsable: read the id off its head
                wire_id = int(m.group(1)) if m else None
        if wire_id is not None and clause != 'never-ran':
            same = [o for _, _, o, _ in packets_of(tx) if is_call(o) and J(o.get('id')) == J(wire_id)]
            if len(same) > 1:
                return 'C19/result/call-id-reused-on-connection', 'ids must tell the calls of a connection apart, but %d call packets on connection %d carry id %s (%s)' % (
                    len(same), c.conn.k, wire_id, ', '.join(str((o.get('args') or ['?'])[0]) for o in same[:3]))
        prev = getattr(c, 'again', None)
        if prev is not None and c.done is not None and len(c.runs) == 1:
            # the event object had completed a round trip before.  Evidence that the earlier answer was taken for this call's: the waiting
            # handler was resumed before the peer's handler had run, or with exactly what the earlier send of the object had obtained
            early, stale = c.done_at < c.ran_at, c.done[:2] == prev.done[:2]
            if early or stale:
                return K_RESENT, ('the event object had been sent before (%s over connection %d, which obtained %s); this second send was transmitted and executed, '
                                  'but the sender %s' % (prev.tok, prev.conn.k, prev.done[0][:60],
                                                         'was resumed before the peer had even run the handler' if early else 'obtained the result of the earlier send'))
            first = json.loads(prev.done[0])
            if c.behav not in RAISES and c.done[0] in (J([first, c.result]), J((first if isinstance(first, list) else [first]) + [c.result])):
                return 'C19/result/resent-event-results-accumulated', (
                    'the event object had been sent before (%s, which obtained %s): the sender obtained the list of both results' % (prev.tok, prev.done[0][:60]))
        # (each guess needs its evidence on the wire, so that another defect is not filed under a known key)
        if 'delim:call' in feats and loc is not None and tx[loc[1] - len(DELIMITER):loc[1]] == DELIMITER and packets_of(tx[loc[0]:loc[1]])[0][2] is None:
            return K_DELIM, 'its payload contains the packet delimiter ~~~, which cuts the call packet in two'
        if clause != 'never-ran' and 'delim:result' in feats and any(o is None and done for _, _, o, done in packets_of(back)):
            return K_DELIM, 'its result contains the packet delimiter ~~~, which cuts the result packet in two'
        answered = wire_id is not None and any(is_value(o) and J(o.get('id')) == J(wire_id) for _, _, o, _ in packets_of(back))
        if clause == 'never-arrived' and c.behav == 'ret-fire' and len(c.runs) == 1 and not answered:
            return 'C19/result/handler-returned-value-of-fire', (
                'the handler returned the Value of another event (return self.fire(...)): no result packet is ever sent for a nested Value')
        if clause == 'never-arrived' and c.behav in RAISES and len(c.runs) == 1 and not answered:
            return K_RAISE, 'the handler raised: no result packet is ever sent for a failed event'
        if clause == 'never-ran' and any(k in ('_name', 'cls') for k in (c.kwargs or {})):
            return 'C19/exactly-once/keyword-named-like-create-parameter', (
                'the call carries the keyword %r, which collides with a parameter of Event.create() when the receiver rebuilds the event' % (
                    [k for k in c.kwargs if k in ('_name', 'cls')][0],))
        # (a cut is harmless once reassembly works, the "value" heuristic is not: it goes first)
        if clause == 'never-ran' and 'valuekey:call' in feats:
            return K_VALUEKEY, 'the call carries a dict key "value", so the packet is taken for a result packet'
        if clause == 'never-ran' and loc is not None and self.packet_cut(c.conn, snd, *loc) == 'split':
            return K_SPLIT, 'its call packet (%d bytes) reached the receiving Protocol in more than one read' % (loc[1] - loc[0])
        if wire_id is not None and c.src is not None:
            # more value packets with this id on the call's own connection than calls with this id: the far end answered somebody else's call here
            vals = [o for _, _, o, _ in packets_of(self.tx_stream(c.conn, rcv)) if is_value(o) and J(o.get('id')) == J(wire_id)]
            nc = len([1 for _, _, o, _ in packets_of(tx) if is_call(o) and J(o.get('id')) == J(wire_id)])
            foreign = [o for o in vals if (not o.get('errors') if c.behav in RAISES else J(o.get('value')) != J(c.result))]
            sent_ids = {J(o.get('id')) for _, _, o, _ in packets_of(tx) if is_call(o)} | {J(wire_id)}
            stray = [o for _, _, o, done in packets_of(back) if done and is_value(o) and J(o.get('id')) not in sent_ids]
            if (len(vals) > nc or foreign or stray) and len(c.dst.conns) > 1:
                return K_BCAST, 'process %s wrote %d result packet(s) with id %s on connection %d (%d of them not this call\'s result), which carried %d such call(s)%s' % (
                    c.dst.tag, len(vals), wire_id, c.conn.k, len(foreign), nc, '; and %d result(s) with ids never used on it' % len(stray) if stray else '')
            # the same in the other direction: results among the sender's own packets that answer no call of this connection (such a
            # packet can take the rest of its read - this call - with it)
            got_ids = {J(o.get('id')) for _, _, o, _ in packets_of(back) if is_call(o)}
            stray = [o for _, _, o, done in packets_of(tx) if done and is_value(o) and J(o.get('id')) not in got_ids]
            if stray and len(c.src.conns) > 1:
                return K_BCAST, 'process %s wrote %d result packet(s) on connection %d with ids (%s) that no call on it used' % (
                    c.src.tag, len(stray), c.conn.k, ', '.join(J(o.get('id')) for o in stray[:3]))
            # a value packet with this id that arrived in the sender's process on another connection
            for other in c.src.conns:
                if other is c.conn:
                    continue
                o_snd = 's' if c.src is not self.procs['A'] else 'c'      # the far end of `other` as seen from c.src
                if other.raw is not None:      # the raw peer's framing is its own business: go by the value packets it built
                    theirs = [v for v in self.raw_value_ids if v == J(wire_id)]
                else:
                    theirs = [o for _, _, o, _ in packets_of(self.tx_stream(other, o_snd)) if is_value(o) and J(o.get('id')) == J(wire_id)]
                if theirs:
                    mine = [o for _, _, o, _ in packets_of(self.tx_stream(other, 'c' if o_snd == 's' else 's')) if is_call(o) and J(o.get('id')) == J(wire_id)]
                    if other.raw is None and len(theirs) > len(mine):
                        return K_BCAST, 'the far end wrote %d result(s) with id %s on connection %d, which carried %d such call(s)' % (len(theirs), wire_id, other.k, len(mine))
                    return K_SHARED, 'a value packet with the same id %s arrived on connection %d of the same process' % (wire_id, other.k)
        if wire_id is not None and clause != 'never-ran':
            for s, e, obj, complete in packets_of(back):
                if is_value(obj) and obj.get('id') == wire_id and self.packet_cut(c.conn, rcv, s, e) == 'split':
                    return K_SPLIT, 'its result packet (%d bytes) reached the sending Protocol in more than one read' % (e - s)
        if wire_id is not None and c.src is not None:
            for o in self.calls:
                if o is not c and o.src is c.src and o.conn is not c.conn and o.blocked != 'send' and self.overlap(c, o):
                    return K_SHARED, 'calls %s and %s of process %s were in flight on two connections; ids restart at 0 per connection but the table is shared' % (
                        c.tok, o.tok, c.src.tag)
        # last resort: results demonstrably went to connections they do not belong to in this run; what that does to the receiving
        # Protocols (a foreign id completes a call, an unhashable one takes the rest of the read with it, ...) has many shapes
        v = self.wire_violation()
        if v is not None and v[0] == K_BCAST:
            return K_BCAST, v[1]
        return None, ''

    def overlap(self, a, b):
        ea = a.done[2] if a.done else 1 << 30
        eb = b.done[2] if b.done else 1 << 30
        return a.issued_round <= eb and b.issued_round <= ea

    def judge_call(self, c):
        """clauses 1-3 for one legitimate call (or a valid call of the raw peer)."""
        tag = c.tok
        if c.blocked == 'send':
            # "Events rejected by a send ... firewall are never transmitted"
            for cn in self.conns:
                for snd in ('c', 's'):
                    if cn.raw is not None and snd == 'c':
                        continue
                    if tag.encode() in self.tx_stream(cn, snd):
                        return self.fail('C19/firewall/send/transmitted', '%s was rejected by the send firewall of process %s but its packet is on the wire of connection %d'
                                         % (tag, c.src.tag, cn.k))
            return None
        if c.blocked:
            return None     # receive firewall: "never dispatched" is checked online in on_call
        if c.dst is self.rawproc:
            return self.judge_callee(c)
        if not c.runs:
            key, why = self.diagnose(c, 'never-ran')
            return self.fail(key or ('C19/hostile/valid-call-not-executed' if c.dirn == 'raw' else 'C19/exactly-once/never-ran'),
                             '%s (%s, %d bytes) was sent but its handler never ran within the bound%s' % (tag, c.dirn, getattr(c, 'size', 0), '; ' + why if why else ''))
        if c.dirn == 'raw':
            return self.judge_raw_answer(c)
        if c.done is None:
            key, why = self.diagnose(c, 'never-arrived')
            if key is None and c.probe:
                key = 'C19/hostile/legit-call-after-hostile-traffic-not-completed'
            return self.fail(key or 'C19/result/never-arrived', '%s: handler ran in %s but the sender\'s waiting handler (%s) was not resumed with a result within the bound%s'
                             % (tag, c.dst.tag, c.mode, '; ' + why if why else ''))
        val, err, _ = c.done
        if c.behav in RAISES:
            if not err:
                key, why = self.diagnose(c, 'wrong-value')
                return self.fail(key or 'C19/result/error-flag-lost', '%s: the handler raised but the sender obtained %s without an error flag%s' % (tag, val[:100], '; ' + why if why else ''))
            return None
        if val != J(c.result):
            key, why = self.diagnose(c, 'wrong-value')
            return self.fail(key or 'C19/result/wrong-value', '%s: handler returned %s but the sender obtained %s%s' % (tag, short(c.result, 120), val[:160], '; ' + why if why else ''))
        return self.judge_waiting_event(c)

    def judge_waiting_event(self, c):
        """"nothing a peer sends can ... overwrite the event attributes the dispatcher relies on": the local event that waited for the result
        looks as it did before it was sent (c2s: Node itself sets its channels), its value is still a Value, and an event that was forwarded
        while being handled locally has completed normally (its <name>_success fired once)."""
        ev = c.event
        now = self.snap(ev, fwd=c.mode == 'fwd')
        for k, was in c.before.items():
            if now[k] != was and not (k == 'channels' and c.dirn == 'c2s'):
                return self.fail('C19/hostile/waiting-event-attribute-overwritten/%s' % ('cause-effects' if k in CAUSE_META else k),
                                 '%s: attribute %s of the local event that waited for the result was %s before the call and is %s after the answer of %s'
                                 % (c.tok, k, was[:80], now[k][:80], 'the raw peer' if c.dst is self.rawproc else 'process ' + c.dst.tag))
        if c.done is not None and not isinstance(getattr(ev, 'value', None), Value):
            return self.fail('C19/hostile/waiting-event-attribute-overwritten/value', '%s: event.value of the waiting event is %r, not a Value' % (c.tok, type(ev.value).__name__))
        if c.mode == 'fwd' and c.done is not None and c.local_success != 1:
            return self.fail('C19/hostile/forwarded-event-not-completed', '%s: the forwarding handler was resumed but %s_success of the locally dispatched event fired %d times'
                             % (c.tok, c.name, c.local_success))
        return None

    def judge_callee(self, c):
        """a server -> client call whose callee is the raw peer: the waiting handler obtains the plain value of the result packet (or its error
        flag); nothing in the packet's meta reaches the dispatcher attributes of the waiting event."""
        plan = c.plan
        if c.answered is None or plan['kind'] == 'never' or self.hp.closed:
            return self.judge_waiting_event(c)
        if c.done is None:
            return self.fail('C19/hostile/call-answered-by-raw-peer-not-completed', '%s: the raw peer answered (%s) but the waiting handler (%s) was not resumed within the bound'
                             % (c.tok, self.plan_text(plan), c.mode))
        val, err, _ = c.done
        if J(c.wire_id) in self.raw_value_ids:
            pass        # the peer also sent a value packet of its own with this id: it answered twice, either value may arrive
        elif plan['kind'] == 'error':
            if not err:
                return self.fail('C19/result/error-flag-lost', '%s: the raw peer answered with errors=true but the sender obtained %s without an error flag' % (c.tok, val[:100]))
        elif plan['kind'] != 'duplicate' and val != J(plan['value']):
            return self.fail('C19/hostile/result-value-forged', '%s: the result packet carried value %s (meta %s) but the waiting handler obtained %s'
                             % (c.tok, short(plan['value'], 80), short(plan['meta'], 120), val[:120]))
        return self.judge_waiting_event(c)

    def judge_note(self, n):
        if n.blocked == 'send':
            for cn in self.conns:
                if n.tok.encode() in self.tx_stream(cn, 's'):
                    return self.fail('C19/firewall/send/transmitted', 'no-result event %s was rejected by the send firewall of process A but its packet is on the wire of connection %d'
                                     % (n.tok, cn.k))
            return None
        if n.blocked or not n.sent:
            return None
        for tag, k in sorted(self.note_needed(n).items()):
            if n.runs.count(tag) < k:
                return self.fail('C19/exactly-once/no-result-event-never-ran', 'no-result event %s (%s to connections %r) ran %d time(s) in process %s, %d connection(s) to it carried it'
                                 % (n.tok, n.api, [cn.k for cn in n.targets], n.runs.count(tag), tag, k))
        return None

    def judge_raw_answer(self, c):
        if not getattr(c, 'answer_owed', True) or self.hp.closed:
            return None
        answers = [o for _, _, o, complete in packets_of(self.hp.inp) if complete and is_value(o) and J(o.get('id')) == J(c.hid)]
        mine = [o for o in answers if J(o.get('value')) == J(c.result)]
        if not mine:
            key, why = self.diagnose(c, 'never-arrived')
            return self.fail(key or 'C19/hostile/valid-call-not-answered', 'raw peer call %s (id %s) ran but no value packet with its result came back on its connection%s'
                             % (c.tok, c.hid, '; ' + why if why else ''))
        if len(mine) > 1:
            return self.fail('C19/mixup/duplicate-result', 'raw peer call %s was answered %d times' % (c.tok, len(mine)))
        return None

    def wire_violation(self):
        """"results are not mixed up between connections": every value packet a node writes on a connection answers a call received there."""
        for cn in self.conns:
            for snd in ('c', 's'):
                if snd == 'c' and cn.raw is not None:
                    continue
                got = {}
                if cn.raw is not None:
                    # the raw peer's framing is its own business: count every call-like packet it ever built, by id
                    got = dict(self.raw_ids)
                else:
                    for _, _, o, complete in packets_of(self.tx_stream(cn, 'c' if snd == 's' else 's')):
                        if is_call(o):
                            got[J(o.get('id'))] = got.get(J(o.get('id')), 0) + 1
                for _, _, o, complete in packets_of(self.tx_stream(cn, snd)):
                    if complete and is_value(o):
                        k = J(o.get('id'))
                        if got.get(k, 0) <= 0:
                            who = 'A' if snd == 's' else cn.cproc.tag
                            multi = len([x for x in self.procs[who].conns]) > 1
                            return (K_BCAST if multi else 'C19/mixup/unsolicited-result',
                                    'process %s wrote a result packet with id %s on connection %d, which did not carry an unanswered call with that id' % (who, k, cn.k))
                        got[k] -= 1
        return None

    def judge_wire(self):
        v = self.wire_violation()
        if v is not None:
            self.fail(*v)

    # ------------------------------------------------------------------ the run
    def run(self):
        ctx, ch, cfg = self.ctx, self.ch, self.cfg
        avoid = ctx.avoid
        reset_shared()
        single = K_BCAST in avoid
        self.align = K_SPLIT in avoid
        self.allow_delim = K_DELIM not in avoid
        self.allow_valuekey = K_VALUEKEY not in avoid
        self.allow_raise = K_RAISE not in avoid
        self.topo = 'B1' if single else ch.choice(['B1', 'B2', 'BC', 'B1'], 'topology')
        ctx.stat('topo:' + self.topo)
        hostile = ch.chance(1, 2, 'hostile?')
        self.hp_reads = ch.chance(3, 4, 'raw-peer-reads')
        self.s2c_on = ch.chance(1, 2, 's2c-on')
        self.callee_on = hostile and ch.chance(1, 2, 'raw-peer-is-callee')       # the raw peer also answers calls the server sends it
        if self.callee_on:
            self.s2c_on = self.hp_reads = True
        self.big_on = ch.chance(1, 2, 'big-on') and not self.align
        fault_cuts = ch.chance(2, 3, 'cuts-on') and not self.align
        self.cut_rate = ch.choice([2, 3, 6], 'cut-rate')
        # firewalls: predicates on the event name
        self.blocked_names = {}
        fwA, fwB = {}, {}

        def make_fw(tag, which):
            names = tuple(ch.subset(NAMES[1:], 'fw-names')) or ('delta',)
            self.blocked_names[(tag, which)] = names
            ctx.trace('%s firewall of process %s rejects %r' % ('send' if which == 'send' else 'receive', tag, names))
            return lambda event, sock: event.name not in names

        if ch.chance(1, 3, 'fw-A-recv'):
            fwA['receive_event_firewall'] = make_fw('A', 'recv')
        if ch.chance(1, 4, 'fw-A-send'):
            fwA['send_event_firewall'] = make_fw('A', 'send')
        if ch.chance(1, 3, 'fw-B-send'):
            fwB['send_event_firewall'] = make_fw('B', 'send')
        if ch.chance(1, 4, 'fw-B-recv'):
            fwB['receive_event_firewall'] = make_fw('B', 'recv')
        ctx.log('cfg', self.topo, hostile, self.s2c_on, self.big_on, fault_cuts, self.cut_rate, self.align, sorted((k[0], k[1], v) for k, v in self.blocked_names.items()))

        A = self.make_proc('A', server=True, fw=fwA)
        B = self.make_proc('B')
        hostile_first = hostile and single       # keep one live connection per process: raw peer session first, then the client
        n_hostile = ch.randint(1, cfg['max_hostile'], 'n-hostile') if hostile else 0
        NET.oplog = self.oplog
        NET.policy = CutPolicy(self)
        if hostile_first:
            self.connect_raw()
            self.cuts_on = fault_cuts
            while n_hostile > 0 and not self.failed:
                self.hostile_action()
                n_hostile -= 1
                self.ticks(A, 1 + ch.draw(4, 'A-ticks'))
                self.pump_raw()
            self.cuts_on = False
            self.settle_raw()
            if not self.failed:
                if ch.chance(1, 2, 'abort?'):
                    self.abort_raw()
                else:
                    self.hp.recv()
                    self.judge_raw_calls()
                    ctx.trace('raw peer closes')
                    self.hp.close()
                    self.hconn.dead = True
                for _ in range(6):
                    self.tick(A)
            if self.failed:
                return
        self.cuts_on = False
        self.connect_client(B, 'p1', fwB)
        if self.topo == 'B2':
            self.connect_client(B, 'p2', fwB)
        elif self.topo == 'BC':
            C = self.make_proc('C')
            self.blocked_names.update({('C', k[1]): v for k, v in self.blocked_names.items() if k[0] == 'B'})
            self.connect_client(C, 'p1', fwB)
        if hostile and not hostile_first:
            self.connect_raw()
        self.cuts_on = fault_cuts

        # ---- main phase: the tape interleaves calls, ticks, hostile packets and aborts
        ncalls = ch.randint(1, cfg['max_calls'], 'n-calls')
        nnotes = ch.randint(0, 3, 'n-notes') if self.s2c_on else 0
        nops = ch.randint(ncalls, cfg['max_ops'], 'n-ops')
        for _ in range(nops):
            if self.failed:
                break
            live_raw = self.hp is not None and not self.hp.closed
            op = ch.weighted([5, 5 if ncalls > 0 else 0, 2, 4 if (live_raw and n_hostile > 0) else 0,
                              1 if (live_raw and self.hostile_sent and not hostile_first) else 0,
                              1 if (self.topo == 'BC' and self.procs['C'].alive and self.calls) else 0,
                              3 if nnotes > 0 else 0, 3 if (nnotes > 0 and ncalls > 0) else 0,
                              3 if (ncalls > 0 and K_RESENT not in avoid and self.resendable()) else 0], 'op')
            if op == 0:
                p = ch.choice([q for q in self.procs.values() if q.alive], 'tick-who')
                n = 1 + ch.draw(3, 'tick-n')
                ctx.trace('  tick %s x%d' % (p.tag, n))
                self.ticks(p, n)
                self.pump_raw()
            elif op == 1:
                if self.issue() is not None:
                    ncalls -= 1
            elif op == 2:
                ctx.trace('  fair round')
                self.fair_round()
            elif op == 3:
                self.hostile_action()
                n_hostile -= 1
            elif op == 4:
                self.abort_raw()
            elif op == 5:
                self.kill_proc(self.procs['C'])
            elif op == 6:
                if self.issue_note() is not None:
                    nnotes -= 1
            elif op == 8:
                # the event object of a completed call is sent once more (same connection, or another one of the sending process)
                if self.issue(again=ch.choice(self.resendable(), 'resend-which')) is not None:
                    ncalls -= 1
            else:
                # a fire-and-forget event directly followed by an awaited call on the same connection, both under way together
                live = [cn for cn in self.conns if cn.raw is None and not cn.dead]
                if live:
                    cn = ch.choice(live, 'burst-conn')
                    self.issue_note(conn=cn)
                    nnotes -= 1
                    if self.issue(conn=cn, s2c=True) is not None:
                        ncalls -= 1
        if self.failed:
            return

        # ---- faults stop; everything legitimate must complete within the bound
        self.cuts_on = False
        self.quiescing = True
        ctx.trace('-- faults stop; fair rounds --')
        self.drain('main')
        if self.failed:
            return
        # ---- second phase: event objects that have completed their round trip are sent once more (retry / kept event / another peer)
        nres = ch.draw(3, 'n-resend') if K_RESENT not in avoid else 0
        if nres and self.resendable():
            ctx.trace('-- second phase: completed event objects are sent again --')
            self.cuts_on, self.quiescing = fault_cuts, False
            for _ in range(nres):
                again = self.resendable()
                if self.failed or not again:
                    break
                self.issue(again=ch.choice(again, 'resend-which'))
                for _ in range(ch.draw(4, 'resend-rounds')):
                    self.fair_round()
            self.cuts_on, self.quiescing = False, True
            if not self.failed:
                self.drain('resend')
            if self.failed:
                return
        if self.hostile_sent and B.alive:
            # "a subsequent legitimate call still completes"
            self.issue(probe=True)
            self.drain('probe')
            if self.failed:
                return
        self.judge_all()

    def pending(self):
        n = 0
        for c in self.calls:
            if c.void or c.blocked or c.conn.dead:
                continue
            if c.dst is self.rawproc:
                if c.done is None and c.plan['kind'] != 'never':
                    n += 1
            elif c.done is None or not c.runs:        # (completed without having run: keep going, its packet may still be under way)
                n += 1
        for x in self.notes:
            if not self.note_satisfied(x):
                n += 1
        if self.hp is not None and not self.hp.closed:
            for c in self.hcalls:
                if c.owed and not c.blocked and not c.runs:
                    n += 1
        return n

    def bytes_to_move(self):
        n = 0
        for c in self.calls:
            # everything that may still be on its way (an event rejected by the receive firewall travels too, and `done` proves nothing
            # when results can be mixed up): counted until the handler is known to have run and the sender to have been resumed
            if c.blocked != 'send' and (c.done is None or (not c.runs and c.dst is not self.rawproc)):
                n += c.size + c.rsize
        for x in self.notes:
            if not self.note_satisfied(x):
                n += (x.size + x.rsize) * max(1, len(x.targets))
        if self.hp is not None:
            n += len(self.hp.out) + sum(len(J(c.args)) for c in self.hcalls if not c.runs)
            if self.hconn is not None and self.hconn.ssock is not None:
                n += len(self.hp.sent) - self.rx_bounds(self.hconn, 's')[0]
        return n

    def drain(self, what):
        bound = 60 + 6 * (self.bytes_to_move() // 4096 + 1)
        extra = 6
        used = 0
        while used < bound:
            self.fair_round()
            used += 1
            if self.failed:
                return
            if self.pending() == 0:
                extra -= 1
                if extra <= 0:
                    break
        self.ctx.trace('-- %s: %d fair rounds (bound %d), %d call(s) still pending --' % (what, used, bound, self.pending()))
        self.ctx.log('drain', what, self.pending())

    def settle_raw(self):
        bound = 40 + 6 * (self.bytes_to_move() // 4096 + 1)
        A = self.procs['A']
        quiet = 0
        for _ in range(bound):
            self.tick(A)
            self.pump_raw()
            if self.failed:
                return
            owed = [c for c in self.hcalls if c.owed and not c.blocked and not c.runs]
            quiet = quiet + 1 if (not owed and not self.hp.out) else 0
            if quiet > 8:
                break

    def judge_raw_calls(self):
        for c in self.hcalls:
            if self.failed:
                return
            if c.owed and not getattr(c, 'judged', False):
                c.judged = True
                self.judge_call(c)

    def judge_all(self):
        if any('Unhandled ERROR' in s for s in W.stderr):
            return self.fail('C19/loop-survives/unhandled-error-on-stderr', ''.join(W.stderr)[:300])
        for c in self.calls:
            if self.failed:
                return None
            if c.void or c.conn.dead or c.judged:        # (judged: when its event object was sent again)
                continue
            self.judge_call(c)
        for n in self.notes:
            if not self.failed:
                self.judge_note(n)
        if self.hp is not None and not self.hp.closed:
            self.hp.recv()
            self.judge_raw_calls()
        if not self.failed:
            self.judge_wire()
        return None


def run_one(ctx):
    world.reset(ctx)
    simnet.reset(ctx)
    sim = Sim(ctx)
    try:
        sim.run()
        legit = [c for c in sim.calls if not c.probe]
        ctx.nontrivial = (len(legit) >= 2 and any(c.concurrent or 'big' in c.feats for c in legit)) or ctx.stats.get('fault:short_read', 0) > 0 \
            or sim.hostile_sent > 0 or bool(sim.notes)
        ctx.sim_time = W.now - world.EPOCH
        # seam sanity: the per-process tables must be what Protocol instances actually use
        for cls, name in SHARED:
            if name not in cls.__dict__:
                probe = [x for p in sim.procs.values() for x in _walk(p.m) if isinstance(x, cls)]
                if probe and not all(hasattr(x, name) for x in probe):
                    raise RuntimeError('seam lost: %s.%s is neither a class-level nor an instance attribute any more' % (cls.__name__, name))
    finally:
        NET.close_all()
        reset_shared()


def _walk(m):
    out = [m]
    for c in m.components:
        out += _walk(c)
    return out
