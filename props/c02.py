"""C02 — dispatch order: priority then FIFO per pass; handler priority; stop(); fire() never re-entrant.

Engine: SimLoop (single thread, harness calls flush()/tick()).  Oracle: a pass model written from the
statement (a pass = the events queued when it began, sorted by (priority, fire order); everything fired
meanwhile waits for the next pass) checked in lock-step against the real dispatch-begin stream.
"""
from simcore import world
from simcore.world import W
from simcore.runner import HarnessLimit

from circuits import BaseComponent, Event, handler

ID = 'C02'
LEVEL = 'exploration'
ENGINE = 'SimLoop'
LEVEL_TEXT = ('seeded exploration of generated programs x histories on the real Manager: every run is checked event by event against a '
              'pass model written from the statement; sampling, not proof - evidence states how many distinct programs/logs were explored')
LEVEL_NOTE = ('trusted: the pass model (30 lines), the observer handler at priority 1e18 as dispatch-begin marker, CPython; '
              'assumes handlers that do not suspend and channel "*" everywhere')
RULE = ('each run = generated program (1-4 components in a tree, handlers with priorities incl. ties/negative/float, scripts that '
        'fire(priority=p) / stop() / flush() re-entrantly) + external fires + flush()/tick() passes, all drawn from one seeded tape; '
        'non-trivial = at least one event was fired from inside a handler while a pass was running and >= 2 distinct priorities were queued; '
        'distinct = distinct digest of the full fire/dispatch/handler log')
STATE_MEASURE = '(events in pass snapshot, distinct priorities in snapshot, nesting depth of flush, stop used) per pass'
REAL = ['circuits.core.manager.Manager (fire/_fire/flush/tick/_dispatcher/_EventQueue)', 'circuits.core.components.BaseComponent',
        'circuits.core.handlers.handler', 'circuits.core.events.Event']
STUBBED = ['handler tie-break order and task order (decided by the tape through Manager.getHandlers / _tasks seams)']
ASSUMPTIONS = ['all components use channel "*"; handlers may override their channel (a/b) and events may be fired on explicit channels, also two at once: for those only the order and stop() clauses are judged (matching is C01\'s subject)', 'handlers are not generators; a handler may raise (after firing/stopping): the order and stop() clauses hold regardless']
PROBES = ['assembled-elsewhere', 'fired-in-handler', 'nested-flush', 'nested-flush-new-pass', 'stop', 'mixed-priority-pass', 'tie-priority-handlers', 'fault:handler-raise', 'stop-then-raise', 'multi-channel-event', 'stop-then-refire-same-object', 'large-run', 'burst>256', 'handler-without-event-parameter', 'stop-by-handler-without-event-parameter']
TIERS = {
    'quick': dict(runs=60000, wall=35, chunk=250, cfg=dict(max_events=40, max_ops=12)),
    'thorough': dict(runs=600000, wall=600, chunk=500, cfg=dict(max_events=120, max_ops=30)),
}

PRIOS = [0, 0, 0, 1, -1, 0.5, 3, -2, 2.5]
HPRIOS = [0, 0, 1, 1, -1, 2, 0.5, 10, -3]
NAMES = ['e0', 'e1', 'e2', 'e3', 'e4', 'e5']


class PassModel:
    """Reference: written from the statement, used as a checker of the observed dispatch stream."""

    def __init__(self):
        self.pending = []     # (prio, seq, eid) fired, not yet part of a pass
        self.cur = []         # current pass in dispatch order
        self.idx = 0
        self.seq = 0
        self.prio = {}

    def fire(self, eid, prio):
        self.seq += 1
        self.prio[eid] = prio
        self.pending.append((prio, self.seq, eid))

    def flush_enter(self):
        """returns True iff a new pass begins"""
        if self.idx >= len(self.cur):
            self.cur = sorted(self.pending)
            self.pending = []
            self.idx = 0
            return True
        return False

    def expect_next(self):
        if self.idx < len(self.cur):
            e = self.cur[self.idx]
            self.idx += 1
            return e[2]
        return None

    def exhausted(self):
        return self.idx >= len(self.cur)


def run_one(ctx):
    ch = ctx.ch
    world.reset(ctx)
    cfg = ctx.cfg
    model = PassModel()
    # one run in 150 is LARGE: several hundred events queued before one pass (a pass that only takes part of the queue, or an order that
    # degrades with the queue length, cannot show with a handful of events)
    big = ch.chance(1, 150, 'large-run')
    if big:
        ctx.stat('large-run')
    st = dict(next_eid=0, budget=ch.randint(300, 700, 'event-budget-large') if big else ch.randint(4, cfg['max_events'], 'event-budget'),
              inv=0, depth=0, flush_depth=0, xmap={}, obs_seen=set(), cur_event=None)
    handled = {}   # eid -> list of (hid, prio, stopped_here)
    dispatched = []
    meta = {}      # eid -> dict(name, prio)
    all_handlers = {}   # name -> list of (hid, prio)
    hchans = {}         # name -> {hid: channel override or None}

    def new_event(name, prio, origin):
        st['next_eid'] += 1
        eid = st['next_eid']
        e = Event.create(name)
        e.sim_id = eid
        meta[eid] = dict(name=name, prio=prio, origin=origin)
        return e, eid

    def do_fire(comp, name, prio, origin):
        if st['budget'] <= 0:
            return
        st['budget'] -= 1
        e, eid = new_event(name, prio, origin)
        before = st['inv']
        ctx.log('F', eid, name, prio, origin)
        ctx.trace('fire e%d %s prio=%r from %s' % (eid, name, prio, origin))
        model.fire(eid, prio)
        # mostly the default channel ('*': every handler matches); sometimes explicit channels, also two of them - then the handlers
        # come from several channels (and a handler listening on both is invoked once per channel: not judged)
        chans = [(), (), (), (), (), ('a',), ('b',), ('a', 'b'), ('b', 'a')][ch.draw(9, 'fire-channels')]
        meta[eid]['channels'] = chans
        if len(chans) > 1:
            ctx.stat('multi-channel-event')
        if prio == 0 and not chans and ch.draw(2, 'fire-kw') == 0:
            comp.fire(e)
        else:
            comp.fire(e, *chans, priority=prio)
        if st['inv'] != before:
            ctx.violation('C02/fire-reentrant', 'fire() of e%d ran %d handler invocation(s) before returning' % (eid, st['inv'] - before))

    def do_flush(comp, how, origin):
        st['flush_depth'] += 1
        if st['flush_depth'] > 6 or (st['flush_depth'] > 1 and st.get('no_nested')):
            st['flush_depth'] -= 1
            return
        newpass = model.flush_enter()
        ctx.log('P', how, origin, newpass)
        ctx.trace('%s() from %s%s' % (how, origin, ' [new pass: %s]' % [e[2] for e in model.cur] if newpass else ''))
        if newpass and model.cur:
            ps = {p for p, _, _ in model.cur}
            ctx.state((min(len(model.cur), 8), min(len(ps), 4), st['flush_depth']))
            if len(ps) > 1:
                ctx.stat('mixed-priority-pass')
                st['mixed'] = True
        if st['flush_depth'] > 1:
            ctx.stat('nested-flush')
            if newpass:
                ctx.stat('nested-flush-new-pass')
        outer = st['cur_event']
        if how == 'tick':
            comp.tick()
        else:
            comp.flush()
        st['cur_event'] = outer          # a nested flush dispatched other events: the handlers of the outer event are still to come
        st['flush_depth'] -= 1
        if st['flush_depth'] == 0 and not model.exhausted():
            ctx.violation('C02/pass-incomplete', 'flush returned with events of the pass undispatched: %r' % (model.cur[model.idx:],))

    # ---- program generation
    ncomp = ch.randint(1, 4, 'ncomp')
    hid_counter = [0]
    comps = []

    def make_handler(names, prio, script):
        hid_counter[0] += 1
        hid = hid_counter[0]
        hchan = [None, None, None, 'a', 'b'][ch.draw(5, 'handler-channel')]

        # one handler in four does not declare the `event` parameter (the dispatcher then does not pass the event); it reaches the event
        # object it is handling another way - here through the reference the catch-all observer noted when the dispatch began
        noev = ch.chance(1, 4, 'handler-without-event-parameter')

        def body(self, event):
            eid = getattr(event, 'sim_id', None)
            if eid is None:
                return
            k = getattr(event, 'sim_seen', 1)
            if k > 1:
                eid = event.sim_more[k - 2]      # a later dispatch of an event object that was fired again
            st['inv'] += 1
            st['depth'] += 1
            ctx.log('H', eid, hid)
            ctx.trace('  ' * st['depth'] + 'handler h%d(prio %r) <- e%d' % (hid, prio, eid))
            rec = [hid, prio, False]
            handled.setdefault(eid, []).append(rec)
            try:
                for act in script:
                    if act[0] == 'fire':
                        if st['flush_depth'] > 0:
                            ctx.stat('fired-in-handler')
                            st['fih'] = True
                        do_fire(self, act[1], act[2], 'h%d' % hid)
                    elif act[0] == 'stop':
                        event.stop()
                        rec[2] = True
                        ctx.stat('stop')
                        if noev:
                            ctx.stat('stop-by-handler-without-event-parameter')
                    elif act[0] == 'flush':
                        do_flush(self, 'flush', 'h%d' % hid)
                    elif act[0] == 'stop-refire':
                        # "not now, try again in a later pass": stop this dispatch and fire the SAME event object again
                        if st['budget'] > 0 and len(meta[eid].get('channels', ())) <= 1 and getattr(event, 'sim_more', None) is None:
                            st['budget'] -= 1
                            event.stop()
                            rec[2] = True
                            ctx.stat('stop')
                            ctx.stat('stop-then-refire-same-object')
                            st['next_eid'] += 1
                            e2 = st['next_eid']
                            event.sim_more = [e2]
                            event.sim_seen = 1
                            meta[e2] = dict(name=meta[eid]['name'], prio=act[1], origin='h%d' % hid, prestopped=True, channels=meta[eid].get('channels', ()))
                            st['no_nested'] = True      # keeps "which dispatch of the object is this" unambiguous for the handlers
                            ctx.log('F', e2, meta[eid]['name'], act[1], 'refire-h%d' % hid)
                            ctx.trace('  ' * st['depth'] + '  h%d stops e%d and fires the same object again as e%d prio=%r' % (hid, eid, e2, act[1]))
                            model.fire(e2, act[1])
                            self.fire(event, *meta[eid].get('channels', ()), priority=act[1])
                    elif act[0] == 'raise':
                        # the handler fails after what it did so far (a stop() it made still holds)
                        ctx.stat('fault:handler-raise')
                        if rec[2]:
                            ctx.stat('stop-then-raise')
                        ctx.trace('  ' * st['depth'] + '  h%d raises' % hid)
                        # the dispatcher fires an `exception` event (priority 0) right after the raise: it takes part in the passes
                        st['next_eid'] += 1
                        xid = st['next_eid']
                        st['xmap'].setdefault((eid, hid), []).append(xid)
                        meta[xid] = dict(name='exception', prio=0, origin='h%d' % hid)
                        ctx.log('F', xid, 'exception', 0, 'h%d' % hid)
                        model.fire(xid, 0)
                        raise RuntimeError('sim: handler h%d fails' % hid)
            finally:
                st['depth'] -= 1

        if noev:
            ctx.stat('handler-without-event-parameter')

            def h(self, *args, **kwargs):
                return body(self, st['cur_event'])
        else:
            def h(self, event, *args, **kwargs):
                return body(self, event)
        h.__name__ = 'h%d' % hid
        for n in names:
            all_handlers.setdefault(n, []).append((hid, prio))
        for n in names:
            hchans.setdefault(n, {})[hid] = hchan
        return (handler(*names, priority=prio, channel=hchan)(h) if hchan else handler(*names, priority=prio)(h)), hid

    def gen_script():
        script = []
        for _ in range(ch.weighted([3, 4, 2, 1], 'script-len')):
            k = ch.weighted([24, 4, 4, 2, 1], 'act')
            if k == 4:
                script.append(('stop-refire', ch.choice(PRIOS, 'refire-prio')))
                break
            if k == 0:
                script.append(('fire', ch.choice(NAMES, 'fire-name'), ch.choice(PRIOS, 'fire-prio')))
            elif k == 1:
                script.append(('stop',))
            elif k == 2:
                script.append(('flush',))
            else:
                script.append(('raise',))
                break
        return script

    class Obs(BaseComponent):
        @handler(priority=1e18, channel='*')
        def _sim_obs(self, event, *args, **kwargs):
            eid = getattr(event, 'sim_id', None)
            if eid is not None:
                st['cur_event'] = event
            if eid is not None and getattr(event, 'sim_more', None) is not None:
                event.sim_seen = k = getattr(event, 'sim_seen', 0) + 1
                if k > 1:
                    eid = event.sim_more[k - 2]
            if eid is None and event.name == 'exception':
                fe, fh = kwargs.get('fevent'), kwargs.get('handler')
                pend = st['xmap'].get((getattr(fe, 'sim_id', None), int(fh.__name__[1:]) if fh is not None and fh.__name__[1:].isdigit() else None))
                eid = pend.pop(0) if pend else None
            if eid is None:
                return
            if len(meta[eid].get('channels', ())) > 1 and eid in st['obs_seen']:
                return      # an event fired on two channels reaches this catch-all once per channel within the one dispatch
            st['obs_seen'].add(eid)
            exp = model.expect_next()
            dispatched.append(eid)
            ctx.log('D', eid)
            ctx.trace('  ' * st['depth'] + 'dispatch e%d (%s, prio %r)' % (eid, meta[eid]['name'], meta[eid]['prio']))
            if exp != eid:
                if exp is None:
                    ctx.violation('C02/dispatched-outside-pass',
                                  'e%d dispatched although it was fired after the current pass began (pass exhausted)' % eid)
                else:
                    ctx.violation('C02/event-order', 'dispatched e%d (prio %r) but the pass order requires e%d (prio %r) next'
                                  % (eid, meta[eid]['prio'], exp, meta[exp]['prio']))

    for ci in range(ncomp):
        ns = {}
        for _ in range(ch.randint(1, 4, 'nhandlers')):
            names = ch.subset(NAMES[:ch.randint(2, 6, 'name-span')], 'hnames') or [ch.choice(NAMES, 'hname1')]
            f, hid = make_handler(names, ch.choice(HPRIOS, 'hprio'), gen_script())
            ns[f.__name__] = f
        comps.append(type('C%d' % ci, (BaseComponent,), ns)())
    root = comps[0]
    moved = ch.chance(1, 5, 'assembled-elsewhere')
    if moved:
        # the tree under test is put together while it is part of ANOTHER tree and detached as a whole before the experiment: an empty top
        # component joins a host, the generated components are registered below it there, then the top is unregistered and runs as its own
        # root.  Whatever the dispatcher keeps per root (caches, flags about the handlers in the tree) must describe the detached tree.
        ctx.stat('assembled-elsewhere')
        host = BaseComponent()
        root = BaseComponent()
        root.register(host)
        while len(host):
            host.flush()
        comps[0].register(root)
    for i, c in enumerate(comps[1:], 1):
        c.register(comps[ch.draw(i, 'parent')])
    Obs().register(root)
    if moved:
        while len(host):
            host.flush()
        root.unregister()
        for _ in range(6):
            host.flush()
        if root.parent is not root:
            raise HarnessLimit('the assembled tree did not detach from its host')
    while len(root):          # drain the `registered` events before the experiment
        root.flush()

    for name, hs in all_handlers.items():
        ps = [p for _, p in hs]
        if len(ps) != len(set(ps)):
            ctx.stat('tie-priority-handlers')
            break

    # ---- history of external operations
    nops = ch.randint(2, cfg['max_ops'], 'nops')
    for _ in range(nops):
        if ctx.violations:
            break
        k = ch.weighted([5, 3, 1], 'op')
        if k == 0:
            n = ch.randint(1, 4, 'burst')
            if big and not st.get('big_done') and ch.chance(1, 2, 'large-burst-now'):
                st['big_done'] = True
                n = ch.randint(260, 600, 'large-burst')
                ctx.stat('burst>256')
            for _ in range(n):
                do_fire(ch.choice(comps, 'firer'), ch.choice(NAMES, 'ext-name'), ch.choice(PRIOS, 'ext-prio'), 'ext')
        elif k == 1:
            do_flush(root, 'flush', 'ext')
        else:
            do_flush(root, 'tick', 'ext')
    # drain
    guard = 0
    while len(root) and not ctx.violations:
        do_flush(root, 'flush', 'drain')
        guard += 1
        if guard > (3000 if big else 400):
            raise HarnessLimit('drain did not terminate')

    if not ctx.violations:
        if model.pending or not model.exhausted():
            ctx.violation('C02/lost-event', 'queue reports empty but the model still holds %r' % (model.pending + model.cur[model.idx:],))
        if sorted(dispatched) != sorted(meta):
            missing = sorted(set(meta) - set(dispatched))
            dup = sorted({e for e in dispatched if dispatched.count(e) > 1})
            ctx.violation('C02/dispatch-count', 'events never dispatched: %r; dispatched more than once: %r' % (missing, dup))
    if not ctx.violations:
        for eid in dispatched:
            recs = handled.get(eid, [])
            prios = [p for _, p, _ in recs]
            if any(a < b for a, b in zip(prios, prios[1:])):
                ctx.violation('C02/handler-order', 'handlers of e%d ran with priorities %r (must be non-increasing)' % (eid, prios))
                break
            hids = [h for h, _, _ in recs]
            chans = meta[eid].get('channels', ())
            if meta[eid].get('prestopped'):
                continue        # second dispatch of an object that carries stopped=True from its first dispatch: only the order is judged
            if len(chans) > 1:
                # several channels: only the order and stop() clauses are judged (which handlers match, and how often, is C01's subject)
                stops = [i for i, r in enumerate(recs) if r[2]]
                if stops and any(p < recs[stops[0]][1] for _, p, _ in recs[stops[0] + 1:]):
                    ctx.violation('C02/stop-ignored', 'e%d (channels %r): handler after stop() with lower priority ran: %r' % (eid, chans, recs))
                    break
                continue
            if len(set(hids)) != len(hids):
                ctx.violation('C02/handler-twice', 'a handler ran twice for e%d: %r' % (eid, hids))
                break
            stops = [i for i, r in enumerate(recs) if r[2]]
            expect = [(h, p) for h, p in all_handlers.get(meta[eid]['name'], [])
                      if not chans or hchans[meta[eid]['name']][h] is None or hchans[meta[eid]['name']][h] == chans[0]]
            if stops:
                sp = recs[stops[0]][1]
                if stops[0] != len(recs) - 1 and any(p < sp for _, p, _ in recs[stops[0] + 1:]):
                    ctx.violation('C02/stop-ignored', 'e%d: handler after stop() with lower priority ran: %r' % (eid, recs))
                    break
                must = {h for h, p in expect if p > sp}
                if not must <= set(hids):
                    ctx.violation('C02/handler-skipped', 'e%d: handlers %r with priority above the stopping one did not run' % (eid, sorted(must - set(hids))))
                    break
            else:
                if set(hids) != {h for h, _ in expect}:
                    ctx.violation('C02/handler-set', 'e%d (%s): ran %r, declared %r' % (eid, meta[eid]['name'], sorted(hids), sorted(h for h, _ in expect)))
                    break
    ctx.nontrivial = bool(st.get('fih') and st.get('mixed'))
