"""C08 — run()/stop(): started once, everything queued is drained, stopped once, exit code propagates, re-runnable.

Two engines in one module (drawn per run):
  * SimLoop: run() executes in the checking thread; the idle wait is virtual (timed waits move the clock; an unlimited wait with
    nothing left delivers KeyboardInterrupt to the idle handler = Ctrl-C at an idle prompt, one of the stop paths of the statement).
    Programs: handlers (plain and generator) that fire chains of events around ONE stop action placed in `started`, mid-chain, in a
    generator step, or behind a Timer; forms stop(), stop(code), raise SystemExit(code), raise KeyboardInterrupt; 1-3 run/stop cycles on
    the same manager; stop() on a manager that is not running.
  * SimThreads: run() in one sim thread, stop() called from a second thread at a pre-emption-chosen instant.

Oracle per run() cycle (from the statement): `started` dispatched exactly once and `stopped` exactly once before run() returns; every
event fired before stop took effect, or fired by plain handlers as a consequence (transitively) of events queued by then - in
particular by `stopped` handlers - has been dispatched when run() returns; an exit code given to stop()/SystemExit reaches the caller
of run() as SystemExit(code); stop() on a non-running manager does nothing; the next cycle satisfies the same.
Not judged (statement silent): events fired by code of generator handlers (which runs as a task in later iterations) after the stop
took effect, and their descendants.
"""
import random

from simcore import world, simnet, simthreads
from simcore.world import W
from simcore.simnet import NET
from simcore.runner import HarnessLimit

from circuits import BaseComponent, Component, Event, Timer, handler

ID = 'C08'
LEVEL = 'exploration'
ENGINE = 'SimLoop'
LEVEL_TEXT = ('seeded exploration of generated handler programs x placement and form of the stop x exit code x run/stop cycles with run() '
              'executing for real (single-threaded, virtual idle wait), plus thread interleavings of a foreign stop() under the baton scheduler; '
              'each cycle is judged on its complete fire/dispatch log')
LEVEL_NOTE = ('trusted: virtual idle wait / clock doubles, baton scheduler and lock/event doubles for the threaded part, the priority-1e18 '
              'observer handler as dispatch marker; exit codes through a foreign-thread stop(code) are not generated (SystemExit is then raised in the '
              'calling thread by construction)')
RULE = ('each run = program (events c0..c5, 1-2 handlers each, plain or generator, scripts that fire further events) + one stop action (place, form, '
        'code) + timers + 1-3 cycles, or a threaded scenario with a pre-emption plan; non-trivial = the stop happened while >= 1 other event was '
        'queued or a task was suspended; distinct = digest of the fire/dispatch log')
STATE_MEASURE = '(mode, stop place, stop form, exit code class, queued events at stop, suspended tasks at stop, cycle)'
REAL = ['circuits.core.manager.Manager.run/stop/tick/_dispatcher/processTask/_fire', 'circuits.core.helpers.FallBackGenerator',
        'circuits.core.timers.Timer', 'circuits.core.components.Component']
STUBBED = ['threading.Event -> virtual idle wait', 'time -> virtual clock', 'atexit/signal registration -> no-ops',
           'threaded part: RLock/Event/Thread doubles + baton scheduler']
ASSUMPTIONS = ['exactly one exit code per cycle (given by the stop action, or - if that carries none - by a SystemExit raised in the `stopped` handler)', 'a foreign-thread stop() happens after `started` was dispatched', 'events fired from generator steps after the stop took effect are not judged']
PROBES = ['codeless-exit-while-stopping', 'stop:started', 'stop:chain', 'stop:genstep', 'stop:timer', 'stop:idle-ctrl-c', 'form:stop()', 'form:stop(code)', 'form:SystemExit',
          'form:KeyboardInterrupt', 'cycle>1', 'stop-when-not-running', 'queued-at-stop', 'task-at-stop', 'threaded', 'stopped-handler-fires', 'exit-code-while-stopping']
TIERS = {
    'quick': dict(runs=32000, wall=35, chunk=100, cfg=dict(max_events=30, threaded_share=3)),
    'thorough': dict(runs=400000, wall=600, chunk=200, cfg=dict(max_events=80, threaded_share=3)),
}

NAMES = ['c0', 'c1', 'c2', 'c3', 'c4', 'c5']
CODES = [None, 0, 3, 'text']


class Stop:
    """the single stop action of a program"""

    def __init__(self, form, code):
        self.form = form
        self.code = code


def run_one(ctx):
    ch = ctx.ch
    world.reset(ctx)
    if ch.draw(ctx.cfg['threaded_share'], 'mode') == 0:
        simnet.reset(ctx)
        sched = simthreads.begin(ctx)
        try:
            _threaded(ctx, sched)
        finally:
            simthreads.end()
            NET.close_all()
    else:
        _single(ctx)


# ----------------------------------------------------------------------------------------------------------------------
def _program(ctx, st, on_stop):
    """Generate the app class. Returns (app, fire_ext)."""
    ch = ctx.ch
    cfg = ctx.cfg
    place = ch.weighted([2, 4, 3, 2, 1], 'stop-place')          # started | chain | genstep | timer | none (Ctrl-C at idle)
    form = ch.weighted([3, 3, 3, 1], 'stop-form')               # stop() | stop(code) | raise SystemExit(code) | raise KeyboardInterrupt
    code = ch.choice(CODES, 'code') if form in (1, 2) else None
    st['place'] = ['started', 'chain', 'genstep', 'timer', 'idle-ctrl-c'][place]
    st['form'] = ['stop()', 'stop(code)', 'SystemExit', 'KeyboardInterrupt'][form]
    st['code'] = code
    st['budget'] = ch.randint(3, cfg['max_events'], 'event-budget')
    stop_name = ch.choice(NAMES, 'stop-event')     # the event whose (first) handler carries the stop for chain/genstep/timer
    meta = st['meta']

    def do_stop(comp):
        if st['stop_done'] == st['cycle']:
            return
        st['stop_done'] = st['cycle']
        st['eff'] = (st['place'], st['form'], code)
        on_stop(comp)
        ctx.stat('form:' + st['form'])
        ctx.trace('    >>> %s %r in %s' % (st['form'], code, st['where']))
        if form == 0:
            comp.stop()
        elif form == 1:
            comp.stop(code)
        elif form == 2:
            raise SystemExit(code) if code is not None else SystemExit()
        else:
            raise KeyboardInterrupt()

    def fire(comp, name, tainted, origin):
        if st['budget'] <= 0:
            return
        st['budget'] -= 1
        st['eid'] += 1
        eid = st['eid']
        e = Event.create(name)
        e.sim_id = eid
        meta[eid] = dict(name=name, tainted=tainted, cycle=st['cycle'], origin=origin)
        ctx.log('F', eid, name, origin, tainted)
        ctx.trace('    fire e%d %s from %s%s' % (eid, name, origin, ' [not judged]' if tainted else ''))
        comp.fire(e)

    def run_segment(comp, seg, eid, hname, step, in_gen=False):
        st['where'] = '%s step %d (e%s)' % (hname, step, eid)
        tainted_src = meta[eid]['tainted'] if eid in meta else False
        for act in seg:
            if act[0] == 'fire':
                # code of a generator handler runs as a task in later loop iterations (even its first segment); what it fires after
                # the stop took effect is neither "queued before" nor clearly "a consequence of stopping": statement silent -> not judged
                t = tainted_src or (in_gen and not st['app'].running)
                fire(comp, act[1], t, hname)
            elif act[0] == 'stop':
                do_stop(comp)
            elif act[0] == 'late-exit':
                if st['stop_done'] == st['cycle'] and st['eff'][2] is None:
                    ctx.stat('exit-code-while-stopping')
                    st['eff'] = (st['eff'][0], st['eff'][1] + '+SystemExit-in-stopped', act[1])
                    ctx.trace('    >>> raise SystemExit(%r) in %s (the manager is stopping already)' % (act[1], st['where']))
                    raise SystemExit(act[1])
            elif act[0] == 'late-exit-nocode':
                if st['stop_done'] == st['cycle'] and st['eff'][2] is not None and st.get('nocode_exit') != st['cycle']:
                    st['nocode_exit'] = st['cycle']          # once per cycle: a `stopped` dispatched again (itself a violation) must not make this a loop
                    # a second, code-less exit while the manager is stopping (a clean-up handler ending with sys.exit()): it carries no code,
                    # the code the stop action gave is still the one exit code of the cycle
                    ctx.stat('codeless-exit-while-stopping')
                    ctx.trace('    >>> raise SystemExit() in %s (the manager is stopping already, with exit code %r)' % (st['where'], st['eff'][2]))
                    raise SystemExit()

    def gen_segments(allow_stop, force_gen):
        nseg = 1 + (ch.weighted([5, 2, 1], 'nseg') if not force_gen else 1 + ch.draw(2, 'nseg2'))
        segs = []
        for _ in range(nseg):
            seg = [('fire', ch.choice(NAMES, 'fire-name')) for _ in range(ch.weighted([3, 4, 2, 1], 'nfire'))]
            segs.append(seg)
        if allow_stop:
            si = ch.draw(len(segs), 'stop-seg') if place == 2 else 0
            if place == 2 and len(segs) > 1:
                si = 1 + ch.draw(len(segs) - 1, 'stop-seg')
            segs[si].insert(ch.draw(len(segs[si]) + 1, 'stop-pos'), ('stop',))
        return segs

    ns = {}
    hcount = [0]

    def add_handler(name, segs):
        hcount[0] += 1
        hname = 'h%d_%s' % (hcount[0], name)
        if len(segs) == 1:
            def h(self, event, *a, **k):
                eid = getattr(event, 'sim_id', 's')
                ctx.log('H', eid, hname)
                run_segment(self, segs[0], eid, hname, 0)
        else:
            def h(self, event, *a, **k):
                eid = getattr(event, 'sim_id', 's')
                ctx.log('H', eid, hname)
                for i, seg in enumerate(segs):
                    if i:
                        yield None
                        ctx.log('S', eid, hname, i)
                    run_segment(self, seg, eid, hname, i, in_gen=True)
        h.__name__ = hname
        ns[hname] = handler(name)(h)

    carried = False
    for name in NAMES:
        for k in range(ch.weighted([1, 5, 2], 'nh')):
            allow = (not carried) and name == stop_name and place in (1, 2, 3)
            segs = gen_segments(allow, force_gen=(allow and place == 2))
            carried = carried or allow
            add_handler(name, segs)
    if place in (1, 2, 3) and not carried:
        add_handler(stop_name, gen_segments(True, place == 2))
    # started / stopped handlers
    started_seg = [('fire', ch.choice(NAMES, 'st-fire')) for _ in range(ch.randint(1, 3, 'st-n'))]
    if place == 3:
        started_seg = [a for a in started_seg if a[1] != stop_name]     # only the timer reaches the stop
    if place == 0:
        started_seg.insert(ch.draw(len(started_seg) + 1, 'st-stop-pos'), ('stop',))
    stopped_seg = [('fire', ch.choice(NAMES, 'sp-fire')) for _ in range(ch.weighted([2, 2, 1], 'sp-n'))]
    # "an exit code ... carried by SystemExit propagates to the caller of run()" also when the manager is stopping already: if the stop action
    # itself carries no code, the `stopped` handler may end with `raise SystemExit(code)` (the one exit code of the cycle)
    if code is None and ch.chance(1, 4, 'late-exit'):
        stopped_seg.append(('late-exit', ch.choice([3, 'text', 0], 'late-code')))
    elif code is not None and ch.chance(1, 4, 'late-exit-nocode'):
        stopped_seg.append(('late-exit-nocode',))

    def on_started(self, event, component):
        if component is not self:
            return
        ctx.log('H', 'started')
        st['eidx'] = 's'
        run_segment(self, started_seg, 'started', 'on_started', 0)

    def on_stopped(self, event, component):
        if component is not self:
            return
        ctx.log('H', 'stopped')
        if stopped_seg:
            ctx.stat('stopped-handler-fires')
        run_segment(self, stopped_seg, 'stopped', 'on_stopped', 0)
    ns['on_started'] = handler('started')(on_started)
    ns['on_stopped'] = handler('stopped')(on_stopped)
    App = type('App', (BaseComponent,), ns)
    app = App()
    st['app'] = app
    st['stop_name'] = stop_name
    return app


class _Obs(BaseComponent):
    def __init__(self, ctx, st):
        super().__init__()
        self.ctx = ctx
        self.st = st

    @handler(priority=1e18, channel='*')
    def _sim_obs(self, event, *a, **k):
        st = self.st
        eid = getattr(event, 'sim_id', None)
        if eid is not None:
            st['dispatched'].append(eid)
            self.ctx.log('D', eid)
            self.ctx.trace('  dispatch e%d %s' % (eid, event.name))
        elif event.name in ('started', 'stopped') and event.args and event.args[0] is st['app']:
            st[event.name].append(st['cycle'])
            self.ctx.log('D', event.name)
            self.ctx.trace('  dispatch %s' % event.name)


def _judge_cycle(ctx, st, outcome, fail):
    cyc = st['cycle']
    app = st['app']
    place, form, code = st['eff'] if st['stop_done'] == cyc else ('none', 'none', None)
    ns, np_ = st['started'].count(cyc), st['stopped'].count(cyc)
    if ns != 1:
        return fail('C08/started-count', 'cycle %d: `started` dispatched %d times before run() returned' % (cyc, ns))
    if np_ != 1:
        return fail('C08/stopped-count/%s/%s' % (place, form),
                    'cycle %d: `stopped` dispatched %d times before run() returned (stop by %s in %s)' % (cyc, np_, form, place))
    lost = [e for e, m in st['meta'].items() if m['cycle'] == cyc and not m['tainted'] and e not in st['dispatched']]
    if lost:
        return fail('C08/undispatched-at-return/%s/%s' % (place, form),
                    'cycle %d: run() returned with events fired before/because of the stop never dispatched: %r (queue length %d)' % (
                        cyc, [(e, st['meta'][e]['name'], st['meta'][e]['origin']) for e in lost], len(app)))
    dup = sorted({e for e in st['dispatched'] if st['dispatched'].count(e) > 1})
    if dup:
        return fail('C08/dispatched-twice', 'events dispatched twice: %r' % dup)
    if app.running:
        return fail('C08/still-running', 'run() returned but manager.running is True')
    if code is not None:
        if outcome != ('exit', code):
            return fail('C08/exit-code-lost/%s/%s' % (place, form),
                        'cycle %d: %s with code %r in %s, but run() ended with %r' % (cyc, form, code, place, outcome))
    elif outcome[0] != 'return':
        return fail('C08/unexpected-exit', 'cycle %d: no exit code was given but run() ended with %r' % (cyc, outcome))
    return None


def _single(ctx):
    ch = ctx.ch
    st = dict(meta={}, dispatched=[], started=[], stopped=[], cycle=0, eid=0, stop_done=-1, where='', viol=False)

    def fail(key, detail):
        if not st['viol']:
            st['viol'] = True
            ctx.trace('VIOLATION %s: %s' % (key, detail))
            ctx.violation(key, detail)

    def on_stop(comp):
        app = st['app']
        q, t = len(app), len(app._tasks)
        if q:
            ctx.stat('queued-at-stop')
        if t:
            ctx.stat('task-at-stop')
        st['nontrivial'] = st.get('nontrivial') or bool(q or t)
        ctx.stat('stop:' + st['place'])
        ctx.state(('single', st['place'], st['form'], repr(st['code']), min(q, 3), min(t, 2), st['cycle']))

    app = _program(ctx, st, on_stop)
    _Obs(ctx, st).register(app)
    ncycles = ch.weighted([5, 2, 1], 'cycles') + 1
    timer_at = ch.choice([0.05, 0.5, 3.0], 'timer-at') if st['place'] == 'timer' else None
    extra_timer = ch.chance(1, 4, 'extra-timer')

    def idle(ev, timeout):
        if st['stop_done'] == st['cycle'] and st['app'].running:
            # "keeps processing until stop() is called ... or via SystemExit/KeyboardInterrupt raised in a handler"
            fail('C08/stop-ignored/%s/%s' % st['eff'][:2], 'the loop went back to its idle wait, still running, after %s in %s' % (st['eff'][1], st['eff'][0]))
            raise KeyboardInterrupt()
        if timeout is None or timeout >= 10000:
            st['where'] = 'idle wait'
            ctx.stat('stop:idle-ctrl-c')
            ctx.trace('    >>> Ctrl-C while idle')
            if st['stop_done'] != st['cycle']:
                st['stop_done'] = st['cycle']
                st['eff'] = ('idle-ctrl-c', 'KeyboardInterrupt', None)
            raise KeyboardInterrupt()
        W.now += max(0.0, timeout)
        return False

    T0 = W.now
    for cyc in range(ncycles):
        if st['viol']:
            break
        st['cycle'] = cyc
        if cyc:
            ctx.stat('cycle>1')
        # stop() on a manager that is not running has no effect
        if ch.chance(1, 3, 'stop-idle-manager'):
            ctx.stat('stop-when-not-running')
            before = (len(app), len(st['dispatched']), len(st['stopped']))
            try:
                app.stop(ch.choice([None, 5], 'idle-code'))
                exc = None
            except BaseException as e:  # noqa: B036
                exc = e
            if exc is not None or (len(app), len(st['dispatched']), len(st['stopped'])) != before:
                fail('C08/stop-when-not-running', 'stop() on a manager that is not running: exception %r, (queued, dispatched, stopped) %r -> %r' % (
                    exc, before, (len(app), len(st['dispatched']), len(st['stopped']))))
                break
        if timer_at is not None:
            e = Event.create(st['stop_name'])
            st['eid'] += 1
            e.sim_id = st['eid']
            st['meta'][e.sim_id] = dict(name=st['stop_name'], tainted=True, cycle=cyc, origin='timer')   # fired by the timer, not judged as lost
            Timer(timer_at, e).register(app)
        if extra_timer:
            e = Event.create(ch.choice(NAMES, 'xt-name'))
            st['eid'] += 1
            e.sim_id = st['eid']
            st['meta'][e.sim_id] = dict(name=e.name, tainted=True, cycle=cyc, origin='timer')
            Timer(ch.choice([0.01, 1.0], 'xt-at'), e).register(app)
        W.idle_hook = idle
        ctx.log('run', cyc)
        ctx.trace('cycle %d: run()' % cyc)
        try:
            app.run()
            outcome = ('return',)
        except SystemExit as e:
            outcome = ('exit', e.code)
        except KeyboardInterrupt:
            outcome = ('kbd',)
        ctx.log('ret', cyc, repr(outcome))
        ctx.trace('cycle %d: run() -> %r' % (cyc, outcome))
        if W.stderr:
            if any('Unhandled ERROR' in s for s in W.stderr):
                fail('C08/loop-crashed', 'run() reported an unhandled error: %s' % ''.join(W.stderr)[:300])
                break
            W.stderr.clear()
        _judge_cycle(ctx, st, outcome, fail)
        # leftovers of an aborted cycle must not leak into the judgement of the next one
        st['budget'] = max(st['budget'], 3)
    ctx.sim_time = W.now - T0
    ctx.nontrivial = bool(st.get('nontrivial'))


# ----------------------------------------------------------------------------------------------------------------------
def _threaded(ctx, sched):
    ch = ctx.ch
    ctx.stat('threaded')
    st = dict(meta={}, dispatched=[], started=[], stopped=[], cycle=0, eid=0, stop_done=-1, where='', viol=False,
              place='thread', form='stop()', code=None)

    def fail(key, detail):
        if not st['viol']:
            st['viol'] = True
            ctx.trace('VIOLATION %s: %s' % (key, detail))
            ctx.violation(key, detail)

    chain = ch.randint(0, 4, 'chain')
    with_task = ch.chance(1, 3, 'task')

    class App(Component):
        def started(self, component):
            ctx.log('H', 'started')
            if chain:
                fire(self, 'c0')
            if with_task:
                fire(self, 'gen')

        def stopped(self, component):
            ctx.log('H', 'stopped')
            if ch_stopped_fires:
                fire(self, 'c9')

        def gen(self):
            yield None
            yield None

    def mk(i):
        def h(self):
            if i + 1 < chain:
                fire(self, 'c%d' % (i + 1))
        h.__name__ = 'c%d' % i
        return h
    for i in range(chain):
        setattr(App, 'c%d' % i, handler('c%d' % i)(mk(i)))
    ch_stopped_fires = ch.chance(1, 2, 'stopped-fires')

    def fire(comp, name):
        st['eid'] += 1
        e = Event.create(name)
        e.sim_id = st['eid']
        # events of the chain fired after the stop took effect are consequences of events queued before it: judged
        st['meta'][e.sim_id] = dict(name=name, tainted=False, cycle=0, origin='loop')
        ctx.log('F', e.sim_id, name)
        comp.fire(e)

    app = App()
    st['app'] = app
    _Obs(ctx, st).register(app)
    out = {}

    def loop():
        try:
            app.run()
            out['outcome'] = ('return',)
        except SystemExit as e:
            out['outcome'] = ('exit', e.code)
        # what had been dispatched when run() returned (stop() in the other thread may tick the manager itself afterwards)
        out['snap'] = (list(st['started']), list(st['stopped']), list(st['dispatched']))
        ctx.log('ret')
        ctx.trace('run() -> %r' % (out['outcome'],))

    def stopper():
        # the foreign stop() is placed anywhere after `started` has been dispatched (the start-up window of run() before the
        # executing thread is recorded is not explored: there stop() ticks the manager from the calling thread as well)
        sched.wait_until(lambda: app.running and bool(st['started']), 'running')
        lt = sched.threads['loop']
        q = len(app)
        ctx.state(('threaded', 'asleep' if (lt.state == 'blocked' and lt.idle_wait) else 'busy', min(q, 3)))
        st['nontrivial'] = True
        st['stop_done'] = 0
        st['eff'] = ('thread', 'stop()', None)
        app.stop()
        ctx.log('stop-returned')

    def on_idle(timeout, kind, ready_fn):
        sched.block(('poll', kind, timeout), timeout, ready_fn=ready_fn, idle_wait=True)
    NET.on_idle = on_idle
    sched.spawn('loop', loop)
    sched.spawn('stopper', stopper)
    prios = ch.permute([0, 1], 'prio')
    sched.threads['loop'].prio, sched.threads['stopper'].prio = prios
    fam = ch.weighted([1, 3, 3, 2], 'family')
    hl = 260 + 60 * chain
    if fam == 0:
        sched.plan = simthreads.make_plan(ch, {'loop': hl, 'stopper': 40}, ch.randint(0, 3, 'd'), ['loop', 'stopper'])
    elif fam == 1:
        sched.plan[('loop', 1 + ch.draw(hl, 'pair-loop-step'))] = 'stopper'
        sched.plan[('stopper', 1 + ch.draw(40, 'pair-stopper-step'))] = 'loop'
    elif fam == 2:
        # the loop is stopped somewhere after `started`; the stopper is stopped at the n-th line inside stop() itself
        sched.plan[('loop', 100 + ch.draw(hl, 'site-loop-step'))] = 'stopper'
        sched.site_plan[('stopper', 'stop', 1 + ch.draw(10, 'site-stop-line'))] = 'loop'
    else:
        sched.walk = (random.Random(ch.draw(1 << 30, 'walk-seed')), ch.choice([0.02, 0.1, 0.5], 'walk-p'))
    ok = sched.start()
    if not ok or sched.limit_hit:
        raise HarnessLimit('C08 threaded: wall timeout or step limit')
    if sched.stuck:
        lt = sched.threads['loop']
        if lt.state == 'blocked' and lt.idle_wait and st['stop_done'] == 0:
            fail('C08/thread-stop/loop-never-woke', 'stop() from a second thread returned but run() stays blocked in its idle wait: %r' % (sched.stuck,))
            return
        raise HarnessLimit('C08 threaded: global stop %r' % (sched.stuck,))
    errs = {n: repr(t.error) for n, t in sched.threads.items() if t.error is not None}
    if errs:
        fail('C08/thread-died', repr(errs))
        return
    if sched.preemptions:
        ctx.stat('preempted', sched.preemptions)
    st['eff'] = ('thread', 'stop()', None)
    if 'snap' in out:
        st['started'], st['stopped'], st['dispatched'] = out['snap']
    _judge_cycle(ctx, st, out.get('outcome', ('none',)), fail)
    ctx.nontrivial = True
