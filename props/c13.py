"""C13 - HTTP messages are parsed identically however the stream is segmented.

Engine: SimNet.  Differential oracle, exactly as the statement puts it: a stream of 1-3 well-formed keep-alive requests (each sent only
after the previous exchange went quiet; no pipelining) is executed twice in a fresh world with the same seeds - once with every
message arriving in one read event, once cut into read events by a drawn plan - and the two executions must show, exchange by
exchange, the same `request` events (method, path, query string, protocol, header set, body), the same response bytes and the same
connection fate.  Client side: the real `circuits.web.client.Client` talks to a simulated server (harness object) that answers with
generated responses; the `response` events (status, header set, body) are compared in the same way.

Segmentation is produced either at the component's own `recv()` (scripted `short_read`: arbitrary recv sizes while all bytes are already
in the kernel) or by the peer sending piece by piece with the loop run to quiescence in between (arbitrary arrival); drawn per run.

The clock is frozen for the web layer (Date headers) - nothing in the statement depends on time.

When the two executions differ the harness localises the cause before reporting, so that one root cause keeps one key:
  1. a same-length spelling variant of the message (e.g. `Transfer-Encoding: Chunked`) whose canonical spelling removes the difference
     -> `C13/<side>/variant=<name>`;
  2. else the first cut class, in message order, whose first offset alone reproduces a difference -> `C13/<side>/cut=<class>`;
  3. else a minimised subset of the plan's cuts -> `C13/<side>/cuts=<class>+<class>...`.
`ctx.avoid` keys of form 1 switch the variant off in the grammar, keys of form 2 remove every cut of that class from the plans.
"""
import email.utils
import zlib

from simcore import world, simnet
from simcore.world import W
from simcore.simnet import NET, Peer, PeerListener, settle, make_running
from simcore.runner import HarnessLimit

from circuits import Manager, Component
from circuits.core.pollers import Select, Poll, EPoll
from circuits.web import BaseServer
from circuits.web.client import Client, request as client_request
import circuits.web.wrappers as _wrappers
import circuits.web.servers as _servers

from refs import http_req as G

ID = 'C13'
LEVEL = 'exploration'
ENGINE = 'SimNet'
LEVEL_TEXT = ('seeded exploration of (well-formed message stream from a grammar) x (segmentation plan) on the real web server stack and the real '
              'HTTP client over simulated sockets; each stream is executed with whole delivery and with the plan, and the two observable histories '
              '(request/response events, bytes written, connection closed) must be equal; sampling, not proof')
LEVEL_NOTE = ('trusted: the grammar and its labelling of bytes (refs/http_req.py, every generated message is validated by the strict reference '
              'parser in the same run), the socket interposer, AF_UNIX delivery; the reference for a run is circuits itself under whole delivery, '
              'so a message that is mis-parsed identically under every segmentation is not this property\'s business')
RULE = ('each run = one side (server / client) + 1-3 generated messages + one segmentation plan per message + delivery mode + poller, all from '
        'one tape; non-trivial = whole delivery produced at least one request/response event and at least one cut actually split a read; '
        'distinct = digest of (side, mode, poller, message bytes, cut offsets, observed events and response checksums)')
STATE_MEASURE = '(message kind, part label before the cut, part label after the cut, byte class before, byte class after) for every cut applied'
REAL = ['circuits.web.servers.BaseServer', 'circuits.web.http.HTTP', 'circuits.web.parsers.http.HttpParser', 'circuits.web.wrappers.Request/Response',
        'circuits.web.errors', 'circuits.net.sockets.TCPServer/TCPClient', 'circuits.web.client.Client', 'circuits.protocols.http.HTTP',
        'circuits.core.pollers.Select/Poll/EPoll', 'circuits.core.manager.Manager']
STUBBED = ['socket -> SimSocket over AF_UNIX (recv sizes scripted)', 'select module -> non-blocking shim', 'remote ends are harness Peers',
           'circuits.web.wrappers.formatdate/time -> frozen clock', 'circuits.web.servers.stderr -> sink']
ASSUMPTIONS = ['no pipelining: a message is sent only after the previous exchange went quiet (as the statement says)',
               'requests are well-formed per RFC 7230 as checked by refs.http_req.parse_request; obs-fold header lines are included',
               'the connection being closed or kept open after an exchange is part of "the response sent"',
               'bufsize is 65536 so that "one piece" really is one read event']
PROBES = ['side:server', 'side:client', 'mode:recv', 'mode:arrival', 'fault:short_read', 'fault:piecewise_arrival', 'plan:one-uniform', 'plan:one-boundary',
          'plan:k-cuts', 'plan:all-boundaries', 'plan:byte-at-a-time', 'plan:stride', 'framing:none', 'framing:clen', 'framing:chunked', 'keepalive-followup',
          'whole-event-seen', 'cut:firstline', 'cut:headers', 'cut:body', 'cut:chunked-body', 'client-response-seen', 'client:framing:close']
TIERS = {
    'quick': dict(runs=60000, wall=33, chunk=60, cfg=dict(max_msgs=3, max_segments=300)),
    'thorough': dict(runs=1500000, wall=600, chunk=200, cfg=dict(max_msgs=3, max_segments=1200)),
}

SRV = ('10.0.0.1', 80)
PEERSRV = ('10.0.0.2', 8080)
BODY = 'probe-body'
FROZEN = email.utils.formatdate(world.EPOCH, usegmt=True)
POLLERS = [Select, Poll, EPoll]


class _Sink:
    def write(self, s):
        W.stderr.append(s)

    def flush(self):
        pass


def _rebind():
    """frozen clock for the web layer (idempotent): the Date header must not depend on how many loop iterations a delivery took."""
    _wrappers.formatdate = lambda *a, **k: FROZEN
    _wrappers.time = lambda: world.EPOCH
    _servers.stderr = _Sink()


class CutPolicy(simnet.NoFaults):
    """scripted short_read: the component's recv() on the connection under test returns exactly up to the next cut of the armed message."""

    def __init__(self, ctx):
        self.ctx = ctx
        self.cuts = []
        self.pos = 0
        self.applied = []

    def arm(self, cuts):
        self.cuts = list(cuts)
        self.pos = 0

    def on_recv(self, sock, n):
        if sock.sim_listening:
            return None
        while self.cuts and self.cuts[0] <= self.pos:
            self.cuts.pop(0)
        if self.cuts:
            return ('short', self.cuts[0] - self.pos)
        return None

    def oplog(self, kind, sock, data):
        if kind == 'recv' and not sock.sim_listening and data:
            self.pos += len(data)
            if self.cuts and self.cuts[0] == self.pos:
                self.applied.append(self.pos)


class Setup:
    """what stays the same between the two executions of a run"""

    def __init__(self, ctx):
        ch = ctx.ch
        self.ctx = ctx
        self.salt = W.salt
        self.task_mode = ch.draw(2, 'task-mode')
        self.side = ['server', 'client'][ch.weighted([2, 1], 'side')]
        self.mode = ['recv', 'arrival'][ch.weighted([3, 1], 'mode')]
        self.poller = ch.choice(POLLERS, 'poller')
        self.sim = 0.0      # simulated seconds covered by all executions of this run

    def fresh_world(self):
        world.reset(None)                      # clock, serials, handler identities: identical start for both executions
        W.ctx, W.salt, W.task_mode = self.ctx, self.salt, self.task_mode
        simnet.reset(self.ctx)


def _pump(p):
    return lambda: bool(p.pump()) | bool(p.recv())


def exec_server(su, stream, plans, applied=None):
    """One execution on the server side. Returns [(request events, response bytes, closed)] per exchange."""
    ctx = su.ctx
    su.fresh_world()
    try:
        pol = CutPolicy(ctx)
        NET.policy, NET.oplog = pol, pol.oplog
        seen = []

        class Probe(Component):
            channel = 'web'

            def request(self, req, res):
                seen.append((req.method, req.path, req.qs, 'HTTP/%d.%d' % tuple(req.protocol), tuple(sorted(req.headers.items())), req.body.read()))
                return BODY

        m = make_running(Manager())
        su.poller().register(m)
        BaseServer(SRV, bufsize=65536, display_banner=False).register(m)
        Probe().register(m)
        settle([m])
        p = Peer()
        if p.connect(SRV) != 0:
            raise HarnessLimit('peer could not connect')
        settle([m])
        obs = []
        for msg, cuts in zip(stream, plans):
            if p.eof or p.reset:
                obs.append(('connection-gone',))
                break
            n0, i0 = len(seen), len(p.inp)
            cap = 2000 + 6 * len(cuts)
            if su.mode == 'recv':
                pol.arm(cuts)
                pol.applied = []
                p.send(msg.raw)
                if p.out:
                    raise HarnessLimit('kernel did not take the whole message')
                settle([m], each=_pump(p), cap=cap)
                if applied is not None:
                    applied.append(list(pol.applied))
            else:
                last = 0
                for c in list(cuts) + [len(msg.raw)]:
                    p.send(msg.raw[last:c])
                    last = c
                    settle([m], each=_pump(p), cap=cap)
                if applied is not None:
                    applied.append(list(cuts))
            obs.append((tuple(seen[n0:]), bytes(p.inp[i0:]), bool(p.eof or p.reset)))
        return obs
    finally:
        su.sim += W.now - world.EPOCH
        NET.oplog = None
        NET.close_all()


def exec_client(su, stream, plans, applied=None):
    """One execution on the client side: the real Client against a simulated server that answers request i with stream[i].
    Returns [(response events,)] per exchange."""
    ctx = su.ctx
    su.fresh_world()
    try:
        pol = CutPolicy(ctx)
        NET.policy, NET.oplog = pol, pol.oplog
        seen = []

        class Probe(Component):
            channel = 'client'

            def response(self, response):
                seen.append((response.status, tuple(sorted(response.headers.items())), response.body.getvalue()))

        m = make_running(Manager())
        su.poller().register(m)
        Client().register(m)
        Probe().register(m)
        lst = PeerListener(PEERSRV)
        settle([m])
        st = dict(conn=None, done=0)
        conns = []

        def serve():
            did = False
            c = lst.accept()
            if c is not None:
                st['conn'], st['done'] = c, 0
                conns.append(c)
                did = True
            for c in conns:
                if c.recv():
                    did = True
            return did

        obs = []
        for i, (msg, cuts) in enumerate(zip(stream, plans)):
            n0 = len(seen)
            body = None if i % 2 == 0 else b'x=%d' % i
            m.fire(client_request('GET' if body is None else 'POST', 'http://%s:%d/r%d?i=%d' % (PEERSRV[0], PEERSRV[1], i, i), body), 'client')
            req = None
            for _ in range(400):
                settle([m], each=serve, cap=2000)
                c = st['conn']
                if c is not None and not c.closed:
                    req = G.parse_request(bytes(c.inp[st['done']:]))      # strict: the client's own request must be well-formed
                    if req is not None:
                        st['done'] += req.consumed
                        break
                if c is not None and (c.eof or c.reset):
                    break
            if req is None:
                obs.append(('client-sent-no-request',))
                break
            c = st['conn']
            cap = 2000 + 6 * len(cuts)
            closing = msg.until_close or not msg.info['keepalive']
            if su.mode == 'recv':
                pol.arm(cuts)
                pol.applied = []
                c.send(msg.raw)
                if c.out:
                    raise HarnessLimit('kernel did not take the whole message')
                if closing:
                    c.close()                   # all request bytes were read, so this is an orderly FIN behind the response
                settle([m], each=serve, cap=cap)
                if applied is not None:
                    applied.append(list(pol.applied))
            else:
                last = 0
                for k in list(cuts) + [len(msg.raw)]:
                    c.send(msg.raw[last:k])
                    last = k
                    settle([m], each=serve, cap=cap)
                if closing:
                    c.close()
                    settle([m], each=serve, cap=cap)
                if applied is not None:
                    applied.append(list(cuts))
            obs.append((tuple(seen[n0:]),))
        return obs
    finally:
        su.sim += W.now - world.EPOCH
        NET.oplog = None
        NET.close_all()


EXEC = {'server': exec_server, 'client': exec_client}
REQ_FIELDS = ['method', 'path', 'query string', 'protocol', 'header set', 'body']
RES_FIELDS = ['status', 'header set', 'body']


def first_difference(side, a, b):
    """(exchange index, text) of the first difference between two observation lists, or None."""
    for i in range(max(len(a), len(b))):
        if i >= len(a) or i >= len(b):
            return i, 'exchange %d happened in only one of the two executions' % i
        x, y = a[i], b[i]
        if x == y:
            continue
        if isinstance(x[0], str) or isinstance(y[0], str):          # a marker such as ('connection-gone',) instead of an observation
            return i, 'exchange %d: whole delivery %r, segmented %r' % (i, x[0] if isinstance(x[0], str) else 'took place', y[0] if isinstance(y[0], str) else 'took place')
        if len(x[0]) != len(y[0]):
            return i, 'exchange %d: %d %s event(s) with whole delivery, %d when segmented' % (
                i, len(x[0]), 'request' if side == 'server' else 'response', len(y[0]))
        for ea, eb in zip(x[0], y[0]):
            for f, (va, vb) in zip(REQ_FIELDS if side == 'server' else RES_FIELDS, zip(ea, eb)):
                if va != vb:
                    return i, 'exchange %d: %s differs: whole %r, segmented %r' % (i, f, _short(va), _short(vb))
        if side == 'server':
            if x[1] != y[1]:
                return i, 'exchange %d: bytes written differ: whole %s, segmented %s' % (i, _heads(x[1]), _heads(y[1]))
            if x[2] != y[2]:
                return i, 'exchange %d: connection closed by the server: whole %s, segmented %s' % (i, x[2], y[2])
        return i, 'exchange %d differs' % i
    return None


def _short(v, n=90):
    r = repr(v)
    return r if len(r) <= n else r[:n // 2] + '...' + r[-n // 3:] + ' (len %d)' % (len(v) if hasattr(v, '__len__') else 0)


def _heads(b):
    """status lines of the responses in a byte string (for messages)"""
    rs, rest, err = G.parse_responses(b, eof=True)
    return '%d bytes %r' % (len(b), ['%d' % r.first[1] for r in rs] + (['+%d unparsed' % len(rest)] if rest else []))


def localise(su, stream, plans, idx, avoid_classes, budget=90):
    """Name the cause of a difference (see module docstring). Returns (key suffix, explanation)."""
    side = su.side
    run = EXEC[side]
    runs = [0]

    wholes = {}

    def differs(s, pl):
        runs[0] += 1
        k = tuple(x.raw for x in s)
        if k not in wholes:
            wholes[k] = run(su, s, [[] for _ in s])
        return first_difference(side, wholes[k], run(su, s, pl)) is not None

    upto = min(idx, len(stream) - 1)
    # exchanges follow each other (no pipelining): what comes after the first differing exchange cannot have caused it, and may differ for
    # reasons of its own - localise on the stream up to that exchange only
    stream, plans = list(stream[:upto + 1]), [list(p) for p in plans[:upto + 1]]
    # 1. spelling variants: does the difference go away when every variant in the stream is spelt canonically?
    names = sorted({v[0] for j in range(upto + 1) for v in stream[j].variants})
    if names:
        canon = list(stream)
        for name in names:
            canon = [s.normalised(name) for s in canon]
        if not differs(canon, plans):
            for name in names:
                if not differs([s.normalised(name) for s in stream], plans):
                    return 'variant=%s' % name, 'with the canonical spelling of %r the same plan shows no difference' % name
            return 'variant=%s' % '+'.join(names), 'with canonical spellings the same plan shows no difference'
        stream = canon        # the difference does not need the variant: localise it on the canonical spelling
    # 2. one cut of the plan alone: the first cut of each class, in message order
    for j in range(upto + 1):
        tried = set()
        for off in plans[j]:
            cls = stream[j].cut_class(off)
            if cls in tried or runs[0] > budget:
                continue
            tried.add(cls)
            pl = [[] for _ in stream]
            pl[j] = [off]
            if differs(stream, pl):
                return 'cut=%s' % cls, 'the single cut at offset %d of message %d (%s) reproduces a difference' % (off, j, cls)
    # 3. minimise the plan's own cuts
    cuts = [(j, c) for j in range(upto + 1) for c in plans[j]]

    def as_plans(cs):
        pl = [[] for _ in stream]
        for j, c in cs:
            pl[j].append(c)
        return pl

    size = max(1, len(cuts) // 2)
    while size >= 1 and runs[0] <= budget:
        i = 0
        while i < len(cuts) and runs[0] <= budget:
            cand = cuts[:i] + cuts[i + size:]
            if cand and differs(stream, as_plans(cand)):
                cuts = cand
            else:
                i += size
        size //= 2
    classes = sorted({stream[j].cut_class(c) for j, c in cuts})
    if len(classes) > 4:
        classes = classes[:4] + ['...']
    return 'cuts=' + '+'.join(classes), 'needs the cuts %r together' % (cuts[:12],)


def run_one(ctx):
    world.reset(ctx, task_mode=0)
    _rebind()
    su = Setup(ctx)
    try:
        _run(ctx, su)
    finally:
        NET.oplog = None
        NET.close_all()


def _run(ctx, su):
    ch, cfg, side = ctx.ch, ctx.cfg, su.side
    pre = 'C13/%s/' % side
    avoid_classes = frozenset(k[len(pre) + 4:] for k in ctx.avoid if k.startswith(pre + 'cut='))
    variants = not any(k.startswith(pre + 'variant=') for k in ctx.avoid)
    ctx.stat('side:' + side)
    ctx.stat('mode:' + su.mode)
    nmsg = 1 + ch.weighted([3, 2, 1], 'nmsgs')
    nmsg = min(nmsg, cfg['max_msgs'])
    stream, plans, kinds = [], [], []
    for i in range(nmsg):
        last = i == nmsg - 1
        if side == 'server':
            msg = G.gen_request(ch, keepalive=None if last else True, allow_head=last, variants=variants)
            chk = G.parse_request(msg.raw)
            ok = chk is not None and chk.consumed == len(msg.raw) and chk.body == msg.info['body'] and chk.first[0] == msg.info['method']
        else:
            msg = G.gen_response(ch, keepalive=None if last else True, variants=variants)
            chk = G.parse_response(msg.raw, eof=True)
            ok = chk is not None and chk.consumed == len(msg.raw) and chk.body == msg.info['body'] and chk.first[1] == msg.info['status']
        if not ok:
            raise AssertionError('grammar produced a message the strict reference parser does not accept as intended: %r' % msg.raw[:200])
        kind, cuts = G.cut_plan(ch, msg, avoid_classes, cfg['max_segments'])
        stream.append(msg)
        plans.append(cuts)
        kinds.append(kind)
        ctx.stat('plan:' + kind)
        ctx.stat(('client:' if side == 'client' else '') + 'framing:' + msg.info['framing'])
        ctx.log('msg', i, msg.raw.decode('latin1'), kind, ','.join(map(str, cuts)))
        ctx.trace('%s message %d (%s): %s' % (side, i, msg.info['framing'], _short(msg.raw, 300)))
        ctx.trace('   plan %s: %d cut(s)%s' % (kind, len(cuts), '' if len(cuts) > 12 else ' ' + ', '.join(
            '%d[%s]' % (c, msg.cut_class(c)) for c in cuts)))
    if nmsg > 1:
        ctx.stat('keepalive-followup')
    ctx.log('setup', side, su.mode, su.poller.__name__, su.task_mode)
    ctx.trace('side=%s delivery=%s poller=%s' % (side, su.mode, su.poller.__name__))

    run = EXEC[side]
    whole = run(su, stream, [[] for _ in stream])
    applied = []
    seg = run(su, stream, plans, applied)

    nev = 0
    for i, o in enumerate(whole):
        evs = o[0] if isinstance(o[0], tuple) else ()
        nev += len(evs)
        ctx.log('whole', i, len(evs), zlib.crc32(repr(o).encode('latin1', 'backslashreplace')))
        ctx.trace('   whole delivery, exchange %d: %s' % (i, _describe(side, o)))
    for i, o in enumerate(seg):
        ctx.log('seg', i, zlib.crc32(repr(o).encode('latin1', 'backslashreplace')))
    if nev:
        ctx.stat('whole-event-seen')
        if side == 'client':
            ctx.stat('client-response-seen')
    napplied = 0
    for msg, cs in zip(stream, applied):
        for c in cs:
            if 0 < c < len(msg.raw):
                napplied += 1
                ctx.state(msg.cut_state(c))
                ph = G.PHASE[msg.labels[c]]
                ctx.stat('cut:' + ('firstline' if ph == 'firstline' else 'headers' if ph.startswith('headers') else 'body' if ph == 'body' else 'chunked-body'))
    if napplied:
        ctx.stat('fault:short_read' if su.mode == 'recv' else 'fault:piecewise_arrival', napplied)
    ctx.nontrivial = bool(nev and napplied)
    ctx.sim_time = su.sim

    # "every segmentation ... yields the same single request event as delivering it in one piece" (and the same response sent)
    d = first_difference(side, whole, seg)
    if d is not None:
        idx, text = d
        for i, o in enumerate(seg):
            ctx.trace('   segmented delivery, exchange %d: %s' % (i, _describe(side, o)))
        ctx.sim_time = su.sim
        suffix, why = localise(su, stream, plans, idx, avoid_classes)
        ctx.trace('DIFFERENCE %s  [%s]' % (text, why))
        ctx.violation(pre + suffix, '%s delivery by %s: %s; %s. Message %d: %s' % (
            side, su.mode, text, why, min(idx, len(stream) - 1), _short(stream[min(idx, len(stream) - 1)].raw, 400)))


def _describe(side, o):
    if not isinstance(o[0], tuple):
        return repr(o[0])
    if side == 'server':
        return '%d request event(s) %s; wrote %s; closed=%s' % (
            len(o[0]), [(e[0], e[1], e[2], e[3], len(e[4]), len(e[5])) for e in o[0]], _heads(o[1]), o[2])
    return '%d response event(s) %s' % (len(o[0]), [(e[0], len(e[1]), len(e[2])) for e in o[0]])
