"""C09 — timers on a virtual clock: never early, as often as specified, the idle sleep is bounded by the earliest expiry.

Engine: SimLoop with the REAL idle path.  The manager is marked running and the harness calls tick() (unlimited budget), so the
generate_events hand-shake, Timer._on_generate_events, FallBackGenerator / Select / Poll / EPoll and reduce_time_left all run unchanged;
their wait (circuits.core.helpers.Event / the select shim) is virtual: it moves the clock.  External actions (create / reset /
unregister a timer, fire an event) happen at drawn virtual times, either between iterations or *inside* the idle wait as a foreign
thread would (through the locked branch of _fire, which must wake the loop).

Faults: `oversleep` (the wait returns late), `early_wakeup` (it returns before its timeout without being set), `slow_handler`
(virtual time passes while a handler runs), `clock_jump` (forward jump of the clock between iterations).

Oracle (expected deadlines are computed by the harness from creation/reset time + interval, not read from the Timer):
  * never early: a timer event is fired only when now >= deadline - 1e-9;
  * one-shot: exactly one firing, and the timer has left the tree at quiescence;
  * persistent: consecutive firings >= interval apart; no firing once unregister() has been called on it (nor, of course, after the
    unregistration completed);
  * reset() restarts the countdown (deadline = time of reset + interval);
  * sleep bound: an idle wait entered at t with budget d satisfies t + d <= earliest pending deadline (+1e-9) and is never unlimited
    while a timer is pending;
  * promptness: in a loop iteration whose timer handlers run at time t every pending timer with deadline <= t fires in that iteration.
"""
import datetime

from simcore import world, simnet
from simcore.world import W
from simcore.simnet import NET
from simcore.runner import HarnessLimit

from circuits import BaseComponent, Component, Event, Timer, handler
from circuits.core.manager import sleep
from circuits.core.pollers import Select, Poll, EPoll

ID = 'C09'
LEVEL = 'exploration'
ENGINE = 'SimLoop'
LEVEL_TEXT = ('seeded exploration of timer programs (intervals from a grid incl. 0 and equal values, persistent or not, datetime deadlines, '
              'created / reset / unregistered at drawn virtual times from outside, from handlers and from tasks) x idle implementation x '
              'wake-up faults, on a discrete-event clock; every firing and every idle wait is judged against deadlines the harness computes itself')
LEVEL_NOTE = ('trusted: the virtual clock and the Event/select doubles (simcore/world.py, simnet.py); fire time is observed through an instance-level '
              'wrapper of Timer.fire; deadlines use the same float arithmetic as a correct Timer (tolerance 1e-9)')
RULE = ('each run = 1-6 timers + a script of timed external actions + handler-driven actions + fault settings, all from one tape; non-trivial = '
        'at least two timer firings and one idle wait that was bounded by a timer deadline; distinct = digest of the (time, timer, action) log')
STATE_MEASURE = '(idle implementation, number of pending timers at an idle wait, wait kind bounded/unbounded/zero, how it ended)'
REAL = ['circuits.core.timers.Timer', 'circuits.core.manager.Manager.tick/_dispatcher/_fire/processTask', 'circuits.core.events.generate_events',
        'circuits.core.helpers.FallBackGenerator', 'circuits.core.pollers.Select/Poll/EPoll (real pipe and select/poll/epoll, timeout 0)',
        'circuits.core.components (register/unregister)']
STUBBED = ['time() -> virtual clock', 'threading.Event -> VEvent (waiting moves the clock)', 'select module -> non-blocking shim',
           'thread identity during an injected foreign-thread action']
ASSUMPTIONS = ['timers are not created from inside a generate_events handler', '"until it is unregistered" is read as: until unregister() has been called on the timer (the Timer guards on its pending unregistration for exactly that)']
PROBES = ['threaded', 'timer-fired', 'bounded-wait', 'unbounded-wait', 'action-in-idle', 'reset', 'unregister', 'fault:oversleep', 'fault:early_wakeup',
          'fault:slow_handler', 'fault:clock_jump', 'datetime-timer', 'cfg:fallback', 'cfg:Select', 'cfg:Poll', 'cfg:EPoll', 'equal-deadlines',
          'timer-from-handler']
TIERS = {
    'quick': dict(runs=36000, wall=32, chunk=200, cfg=dict(max_timers=4, max_actions=8, max_iters=1500, soft_iters=150, threaded_share=6)),
    'thorough': dict(runs=400000, wall=600, chunk=400, cfg=dict(max_timers=6, max_actions=20, max_iters=5000, soft_iters=600, threaded_share=5)),
}

INTERVALS = [0, 0.05, 0.1, 0.1, 0.25, 1, 7, 0.1, 3600]
GAPS = [0, 0.01, 0.05, 0.1, 0.1, 0.3, 1, 10]
EPS = 1e-6
GENS = ['fallback', 'Select', 'Poll', 'EPoll']


class tev(Event):
    """fired by a timer"""


class work(Event):
    """ordinary event"""


def run_one(ctx):
    world.reset(ctx)
    simnet.reset(ctx)
    try:
        if ctx.ch.draw(ctx.cfg.get('threaded_share', 6), 'mode') == 0:
            _threaded(ctx)
        else:
            _run(ctx)
    finally:
        NET.close_all()


def _threaded(ctx):
    """reset()/unregister() issued by a second thread while the loop runs (SimThreads; every source line of circuits/core incl. timers.py is a
    pre-emption point).  A fast persistent timer keeps the loop iterating so that loop and actor are due at the same virtual instants.
    Oracle: a firing at time t is legitimate iff t >= some deadline the timer had during the virtual instant t (the loop may test against the
    old deadline and fire after a concurrent reset() returned; what must never happen is a firing that neither the old nor the new deadline
    justifies).  No firing at a later instant than the one in which unregister() returned."""
    import random
    from simcore import simthreads
    ch = ctx.ch
    ctx.stat('threaded')
    simthreads.install(extra_modules=(world.T,))
    sched = simthreads.begin(ctx)
    try:
        gen = ch.choice(GENS, 'idle-impl')
        ctx.stat('cfg:' + gen)
        T0 = W.now
        st = dict(viol=False, nfired=0)

        def rel(t):
            return round(t - T0, 9)

        def fail(key, detail):
            if not st['viol']:
                st['viol'] = True
                ctx.trace('VIOLATION %s: %s' % (key, detail))
                ctx.violation(key, detail)

        class App(Component):
            def tev(self, tid):
                ctx.log('tev', tid, rel(W.now))

        app = App()
        if gen != 'fallback':
            {'Select': Select, 'Poll': Poll, 'EPoll': EPoll}[gen]().register(app)
        recs = []

        def add_timer(interval, persist):
            tid = len(recs) + 1
            ev = tev(tid)
            t = Timer(interval, ev, persist=persist)
            rec = dict(obj=t, tid=tid, interval=interval, persist=persist, deadline=W.now + interval, fires=[], window=None, unreg=None, unreg_window=False, hist=[])
            recs.append(rec)
            real_fire = t.fire

            def spy_fire(event, *channels, **kw):
                if event is ev:
                    now = W.now
                    rec['fires'].append(now)
                    st['nfired'] += 1
                    ctx.stat('timer-fired')
                    ctx.log('fire', tid, rel(now))
                    ctx.trace('t=%s Timer #%d fires (deadline %s%s)' % (rel(now), tid, rel(rec['deadline']),
                                                                       ', reset() in progress: new deadline %s' % rel(rec['window']) if rec['window'] is not None else ''))
                    # Two threads: the loop may have tested the timer against the deadline in force a moment ago and fire after a reset()
                    # by the other thread has returned.  Virtual time only moves when every thread is blocked, so everything that
                    # happens at one virtual instant is concurrent: every deadline the timer had during this instant counts.
                    due = min([rec['deadline']] + ([rec['window']] if rec['window'] is not None else []) + [d for at, d in rec['hist'] if at == now])
                    if now < due - EPS:
                        fail('C09/early-fire/%s' % ('during-foreign-reset' if rec['window'] is not None else ('persistent' if persist else 'one-shot')),
                             'Timer #%d fired at t=%r, %.6g s before its deadline t=%r%s' % (
                                 tid, rel(now), due - now, rel(due), ' (a reset() by another thread was in progress; neither the old nor the new deadline was due)' if rec['window'] is not None else ''))
                    if not persist and len(rec['fires']) > 1:
                        fail('C09/one-shot-fired-twice', 'one-shot Timer #%d fired at %r' % (tid, [rel(x) for x in rec['fires']]))
                    if rec['unreg'] is not None and not rec['unreg_window'] and rec['unreg'] != now:
                        fail('C09/fired-after-unregister/%s' % ('persistent' if persist else 'one-shot'),
                             'Timer #%d fired at t=%r although unregister() (other thread) had returned at t=%r' % (tid, rel(now), rel(rec['unreg'])))
                    if persist:
                        rec['hist'].append((now, rec['deadline']))
                        rec['deadline'] = now + rec['interval']
                        if rec['window'] is not None:
                            rec['window'] = max(rec['window'], rec['deadline'])
                return real_fire(event, *channels, **kw)
            t.fire = spy_fire
            t.register(app)
            ctx.trace('Timer #%d interval=%r persist=%s' % (tid, interval, persist))
            return rec

        add_timer(ch.choice([0.1, 0.05], 'tick-int'), True)                      # keeps the loop iterating
        for _ in range(ch.randint(1, 2, 'ntimers')):
            add_timer(ch.choice([0.1, 0.25, 1, 7], 'interval'), ch.chance(1, 2, 'persist'))

        nact = ch.randint(1, 4, 'nactions')
        acts = [(ch.choice([0.05, 0.1, 0.1, 0.2, 0.3, 1.0], 'gap'), ch.weighted([4, 1], 'act'), 1 + ch.draw(len(recs) - 1, 'which')) for _ in range(nact)]

        def on_idle(timeout, kind, ready_fn):
            sched.block(('poll', kind, timeout), timeout, ready_fn=ready_fn, idle_wait=True)
        NET.on_idle = on_idle

        def loop():
            app.run()

        def actor():
            sched.wait_until(lambda: app.running, 'running')
            for gap, act, which in acts:
                sched.block(('sleep', gap), gap)
                rec = recs[which]
                if rec['unreg'] is not None or rec['obj'].parent is rec['obj'] or (not rec['persist'] and rec['fires']):
                    continue
                if act == 0:
                    ctx.stat('reset')
                    ctx.log('reset', rec['tid'], rel(W.now))
                    ctx.trace('t=%s actor: Timer #%d.reset()' % (rel(W.now), rec['tid']))
                    rec['hist'].append((W.now, rec['deadline']))
                    rec['window'] = W.now + rec['interval']
                    rec['obj'].reset()
                    rec['deadline'], rec['window'] = W.now + rec['interval'], None
                else:
                    ctx.stat('unregister')
                    ctx.log('unreg', rec['tid'], rel(W.now))
                    ctx.trace('t=%s actor: Timer #%d.unregister()' % (rel(W.now), rec['tid']))
                    rec['unreg_window'] = True
                    rec['unreg'] = W.now
                    rec['obj'].unregister()
                    rec['unreg_window'] = False
            sched.block(('sleep', 'tail'), ch.choice([0.3, 1.2], 'tail'))
            ctx.trace('t=%s actor: stop()' % rel(W.now))
            app.stop()

        sched.spawn('loop', loop)
        sched.spawn('actor', actor)
        prios = ch.permute([0, 1], 'prio')
        sched.threads['loop'].prio, sched.threads['actor'].prio = prios
        fam = ch.weighted([3, 2, 1], 'family')
        if fam == 0:
            for _ in range(ch.randint(1, 2, 'd')):
                fn = ch.choice(['reset', 'unregister', 'expiry', 'fireEvent', '_fire'], 'site-fn')
                sched.site_plan[('actor', fn, 1 + ch.draw(8, 'site-nth'))] = 'loop'
            if ch.chance(1, 2, 'loop-too'):
                sched.site_plan[('loop', '_on_generate_events', 1 + ch.draw(60, 'loop-nth'))] = 'actor'
        elif fam == 1:
            sched.walk = (random.Random(ch.draw(1 << 30, 'walk-seed')), ch.choice([0.05, 0.2, 0.5], 'walk-p'))
        ok = sched.start()
        ctx.sim_time = W.now - T0
        if not ok or sched.limit_hit:
            raise HarnessLimit('C09 threaded: wall timeout or step limit')
        if sched.stuck and not st['viol']:
            raise HarnessLimit('C09 threaded: global stop %r' % ({k: v[0] for k, v in sched.stuck.items()},))
        errs = {n: repr(t.error) for n, t in sched.threads.items() if t.error is not None}
        if errs and not st['viol']:
            fail('C09/thread-died', repr(errs))
        if sched.preemptions:
            ctx.stat('preempted', sched.preemptions)
        ctx.nontrivial = st['nfired'] >= 2 and bool(sched.preemptions or len(acts))
    finally:
        simthreads.end()


def _run(ctx):
    ch = ctx.ch
    cfg = ctx.cfg
    gen = ch.choice(GENS, 'idle-impl')
    ctx.stat('cfg:' + gen)
    faults = set(ch.subset(['oversleep', 'early_wakeup', 'slow_handler', 'clock_jump'], 'faults')) if ch.chance(1, 2, 'faulty') else set()
    T0 = W.now
    st = dict(iter=0, in_tick=False, fired_this_tick=set(), viol=False, nfired=0, bounded=0, tid=0)
    timers = {}   # tid -> dict(obj, interval, persist, deadline, fires=[times], created, unreg_called, detached_at, dt)

    def rel(t):
        return round(t - T0, 9)

    def fail(key, detail):
        if not st['viol']:
            st['viol'] = True
            ctx.trace('VIOLATION %s: %s' % (key, detail))
            ctx.violation(key, detail)

    class App(Component):
        def tev(self, tid, script):
            ctx.log('tev', tid, rel(W.now))
            run_script(self, script, 'tev%d' % tid)

        def work(self, script):
            ctx.log('work', rel(W.now))
            run_script(self, script, 'work')

        def gwork(self, d):
            ctx.log('gwork', rel(W.now))
            yield sleep(d)
            ctx.log('gwork-done', rel(W.now))

    app = App()
    if gen != 'fallback':
        {'Select': Select, 'Poll': Poll, 'EPoll': EPoll}[gen]().register(app)
    app._running = True

    # ---- timers
    def gen_script(depth):
        out = []
        if depth > 1:
            return out
        for _ in range(ch.weighted([6, 3, 1], 'script-len')):
            k = ch.weighted([2, 2, 1, 1, 2, 1], 'script-act')
            if k == 0:
                out.append(('slow', ch.choice([0.01, 0.06, 0.3, 2.0], 'slow-d')))
            elif k == 1:
                out.append(('new', ch.choice(INTERVALS, 'interval'), ch.chance(1, 3, 'persist'), gen_script(depth + 1)))
            elif k == 2:
                out.append(('reset', ch.draw(6, 'which')))
            elif k == 3:
                out.append(('unreg', ch.draw(6, 'which')))
            elif k == 4:
                out.append(('fire', gen_script(depth + 1)))
            else:
                out.append(('task', ch.choice([0.0, 0.05, 0.2], 'sleep-d')))
        return out

    def new_timer(interval, persist, script, origin, as_datetime=False):
        if len(timers) >= cfg['max_timers'] + 2:
            return
        if persist and interval == 0:
            interval = 0.05       # a persistent timer with interval 0 is a busy loop on a clock that only the idle wait moves
        st['tid'] += 1
        tid = st['tid']
        ev = tev(tid, script)
        now = W.now
        if as_datetime:
            persist = False                     # an absolute deadline only makes sense once
            interval = max(interval, 1.5)       # whole-second resolution must not put the deadline in the past
            when = datetime.datetime.fromtimestamp(now + interval)
            t = Timer(when, ev, persist=persist)
            import time as _time
            deadline_abs = _time.mktime(when.timetuple())     # whole-second resolution, as the statement says
            eff_interval = deadline_abs - now
            ctx.stat('datetime-timer')
        else:
            t = Timer(interval, ev, persist=persist)
            eff_interval = interval
            deadline_abs = now + interval
        rec = dict(obj=t, interval=eff_interval, persist=persist, deadline=deadline_abs, fires=[], created=now, unreg=None, tid=tid)
        timers[tid] = rec
        real_fire = t.fire

        def spy_fire(event, *channels, **kw):
            if event is ev:
                on_timer_fire(rec)
            return real_fire(event, *channels, **kw)
        t.fire = spy_fire          # instance attribute: observes the fire time without touching the class
        t.register(app)
        ctx.log('new', tid, rel(now), eff_interval if not as_datetime else round(eff_interval, 6), persist, origin)
        ctx.trace('t=%s %s: Timer #%d interval=%r persist=%s deadline=%s' % (rel(now), origin, tid, eff_interval, persist, rel(deadline_abs)))
        if origin != 'ext':
            ctx.stat('timer-from-handler')
        return rec

    def on_timer_fire(rec):
        now = W.now
        rec['fires'].append(now)
        st['nfired'] += 1
        st['fired_this_tick'].add(rec['tid'])
        ctx.stat('timer-fired')
        ctx.log('fire', rec['tid'], rel(now), st['iter'])
        ctx.trace('t=%s iteration %d: Timer #%d fires (deadline %s)' % (rel(now), st['iter'], rec['tid'], rel(rec['deadline'])))
        if now < rec['deadline'] - EPS:
            fail('C09/early-fire/%s' % ('persistent' if rec['persist'] else 'one-shot'),
                 'Timer #%d fired at t=%r, %.6g s before its deadline t=%r (interval %r)' % (
                     rec['tid'], rel(now), rec['deadline'] - now, rel(rec['deadline']), rec['interval']))
        if not rec['persist'] and len(rec['fires']) > 1:
            fail('C09/one-shot-fired-twice', 'one-shot Timer #%d fired at %r' % (rec['tid'], [rel(x) for x in rec['fires']]))
        if rec['unreg'] is not None:
            # "fires repeatedly ... until it is unregistered, after which it never fires again": unregister() has returned
            fail('C09/fired-after-unregister/%s' % ('persistent' if rec['persist'] else 'one-shot'),
                 'Timer #%d fired at t=%r although unregister() had been called on it at t=%r' % (rec['tid'], rel(now), rel(rec['unreg'])))
        if rec.get('detached_at') is not None:
            fail('C09/fired-after-unregistered', 'Timer #%d fired at t=%r although its unregistration had completed at t=%r' % (
                rec['tid'], rel(now), rel(rec['detached_at'])))
        if rec['persist']:
            rec['deadline'] = now + rec['interval']     # a persistent timer re-arms from the firing time

    def pending_timers():
        out = []
        for rec in timers.values():
            t = rec['obj']
            if t.parent is not t and rec['unreg'] is None and not (not rec['persist'] and rec['fires']):
                out.append(rec)
        return out

    def do_reset(which, origin):
        live = [r for r in timers.values() if r['obj'].parent is not r['obj'] and r['unreg'] is None]
        if not live:
            return
        rec = live[which % len(live)]
        if not rec['persist'] and rec['fires']:
            return
        rec['obj'].reset()
        rec['deadline'] = W.now + rec['interval']
        ctx.stat('reset')
        ctx.log('reset', rec['tid'], rel(W.now), origin)
        ctx.trace('t=%s %s: reset Timer #%d -> deadline %s' % (rel(W.now), origin, rec['tid'], rel(rec['deadline'])))

    def do_unreg(which, origin):
        live = [r for r in timers.values() if r['obj'].parent is not r['obj'] and r['unreg'] is None]
        if not live:
            return
        rec = live[which % len(live)]
        rec['obj'].unregister()
        rec['unreg'] = W.now
        ctx.stat('unregister')
        ctx.log('unreg', rec['tid'], rel(W.now), origin)
        ctx.trace('t=%s %s: unregister Timer #%d' % (rel(W.now), origin, rec['tid']))

    def run_script(comp, script, origin):
        for act in script:
            if act[0] == 'slow':
                if 'slow_handler' in faults:
                    W.now += act[1]
                    ctx.stat('fault:slow_handler')
                    ctx.log('slow', act[1])
                    ctx.trace('t=%s %s: handler takes %r s' % (rel(W.now), origin, act[1]))
            elif act[0] == 'new':
                new_timer(act[1], act[2], act[3], origin)
            elif act[0] == 'reset':
                do_reset(act[1], origin)
            elif act[0] == 'unreg':
                do_unreg(act[1], origin)
            elif act[0] == 'fire':
                comp.fire(work(act[1]))
            elif act[0] == 'task':
                comp.fire(Event.create('gwork', act[1]))

    # ---- external action script (absolute virtual times)
    actions = []
    t = T0
    for _ in range(ch.randint(1, cfg['max_actions'], 'nactions')):
        t += ch.choice(GAPS, 'gap')
        k = ch.weighted([5, 2, 2, 3, 1], 'ext-act')
        if k == 0:
            actions.append((t, ('new', ch.choice(INTERVALS, 'interval'), ch.chance(1, 3, 'persist'), gen_script(0), ch.chance(1, 8, 'datetime'))))
        elif k == 1:
            actions.append((t, ('reset', ch.draw(6, 'which'))))
        elif k == 2:
            actions.append((t, ('unreg', ch.draw(6, 'which'))))
        elif k == 3:
            actions.append((t, ('fire', gen_script(0))))
        else:
            actions.append((t, ('jump', ch.choice([0.07, 1.5, 100.0], 'jump'))))
    st['end_time'] = t + ch.choice([0.3, 1.0, 3.0], 'tail')
    actions.reverse()   # pop() from the end

    def next_action_time():
        return actions[-1][0] if actions else None

    def perform_due(origin):
        n = 0
        while actions and actions[-1][0] <= W.now + 1e-12:
            _, act = actions.pop()
            n += 1
            if act[0] == 'new':
                new_timer(act[1], act[2], act[3], 'ext', as_datetime=act[4])
            elif act[0] == 'reset':
                do_reset(act[1], 'ext')
            elif act[0] == 'unreg':
                do_unreg(act[1], 'ext')
            elif act[0] == 'fire':
                ctx.log('ext-fire', rel(W.now), origin)
                ctx.trace('t=%s ext(%s): fire work' % (rel(W.now), origin))
                app.fire(work(act[1]))
            elif act[0] == 'jump':
                if 'clock_jump' in faults and origin == 'between':
                    W.now += act[1]
                    ctx.stat('fault:clock_jump')
                    ctx.log('jump', act[1])
                    ctx.trace('clock jumps forward by %r to t=%s' % (act[1], rel(W.now)))
        return n

    # ---- the idle wait, as the simulator sees it
    def idle(timeout, how, is_set, kind):
        """timeout None = unlimited. Returns when the wait ends; is_set() tells whether a wake-up arrived."""
        now = W.now
        pend = pending_timers()
        nxt = next_action_time()
        earliest = min((r['deadline'] for r in pend), default=None)
        ctx.log('idle', rel(now), None if timeout is None else round(timeout, 9), len(pend))
        wkind = 'unbounded' if timeout is None else ('zero' if timeout == 0 else 'bounded')
        ctx.state((gen, min(len(pend), 4), wkind))
        ctx.trace('t=%s iteration %d: idle wait %s (pending timers: %s)' % (
            rel(now), st['iter'], 'unlimited' if timeout is None else '%.9g s' % timeout, [(r['tid'], rel(r['deadline'])) for r in pend]))
        if pend:
            if timeout is None:
                fail('C09/unbounded-sleep-with-pending-timer/%s' % kind,
                     'idle wait without a time limit entered at t=%r while Timer(s) %r are pending' % (rel(now), [(r['tid'], rel(r['deadline'])) for r in pend]))
            elif now + timeout > earliest + EPS:
                fail('C09/oversleep/%s' % kind, 'idle wait of %.9g s entered at t=%r would end %.6g s after the earliest pending deadline t=%r' % (
                    timeout, rel(now), now + timeout - earliest, rel(earliest)))
            else:
                st['bounded'] += 1
                ctx.stat('bounded-wait')
        elif timeout is None:
            ctx.stat('unbounded-wait')
        only_persistent = all(r['persist'] for r in pend)
        if st['viol'] or (nxt is None and (timeout is None or (only_persistent and now > st['end_time']) or st['iter'] > cfg['soft_iters'])):
            # end of the run: the user presses Ctrl-C while the loop idles (KeyboardInterrupt in a handler -> stop())
            st['done'] = True
            ctx.trace('t=%s end of run: KeyboardInterrupt delivered to the idle loop' % rel(now))
            raise KeyboardInterrupt()
        end = now + timeout if timeout is not None else None
        if nxt is not None and (end is None or nxt < end):
            # an external (foreign-thread) action happens during the wait
            W.now = max(W.now, nxt)
            W.get_ident = lambda: -7
            try:
                perform_due('idle')
            finally:
                W.get_ident = None
            ctx.stat('action-in-idle')
            if is_set():
                W.waits.append((now, timeout, 'woken'))
                return
            # the action did not wake the loop (e.g. it was a no-op): keep waiting
            return idle(None if end is None else max(0.0, end - W.now), how, is_set, kind)
        # nothing external before the timeout
        if 'early_wakeup' in faults and timeout > 0 and ch.chance(1, 4, 'early?'):
            frac = ch.choice([0.0, 0.5, 0.999], 'early-frac')
            W.now = now + timeout * frac
            ctx.stat('fault:early_wakeup')
            ctx.trace('   wait returns early at t=%s' % rel(W.now))
        elif 'oversleep' in faults and ch.chance(1, 4, 'late?'):
            W.now = end + ch.choice([0.0001, 0.02, 1.0], 'late-by')
            ctx.stat('fault:oversleep')
            ctx.trace('   wait returns late at t=%s' % rel(W.now))
        else:
            W.now = max(W.now, end)
        W.waits.append((now, timeout, 'timeout'))

    def event_idle(ev, timeout):
        if timeout is not None and timeout >= 10000:
            timeout = None
        idle(timeout, 'event', ev.is_set, 'fallback')
        return ev.is_set()

    def poll_idle(timeout, kind, ready_fn):
        idle(timeout, 'poll', ready_fn, gen)

    W.idle_hook = event_idle
    NET.on_idle = poll_idle

    # ---- main loop
    if True:
        while app._running and not st['viol']:
            if st['iter'] >= cfg['max_iters']:
                raise HarnessLimit('C09: %d iterations without quiescence' % st['iter'])
            perform_due('between')
            if not actions and st['iter'] > cfg['soft_iters'] + 20:
                ctx.trace('t=%s end of run: stop() from outside (loop never idles)' % rel(W.now))
                app.stop()
                break
            st['iter'] += 1
            t_start = W.now
            snapshot = [(r, r['deadline']) for r in pending_timers()]
            st['fired_this_tick'] = set()
            app.tick()
            # promptness: timers that were due when this iteration began must have fired in it
            for r, dl in snapshot:
                if dl <= t_start and r['tid'] not in st['fired_this_tick'] and r['unreg'] is None and r['deadline'] == dl and not st['viol']:
                    fail('C09/due-timer-not-fired', 'Timer #%d was due (deadline t=%r) when loop iteration %d began at t=%r but did not fire in it' % (
                        r['tid'], rel(dl), st['iter'], rel(t_start)))
            for r in timers.values():
                if r.get('detached_at') is None and r['obj'].parent is r['obj'] and (r['unreg'] is not None or r['fires']):
                    r['detached_at'] = W.now
            if len(set(r['deadline'] for r in pending_timers())) < len(pending_timers()):
                ctx.stat('equal-deadlines')
        # after stop(): let pending unregistrations complete
        for _ in range(6):
            app.tick()
        for r in timers.values():
            if r.get('detached_at') is None and r['obj'].parent is r['obj']:
                r['detached_at'] = W.now

    ctx.sim_time = W.now - T0
    ctx.log('end', rel(W.now), st['iter'])
    if not st['viol']:
        for r in timers.values():
            if not r['persist'] and r['fires'] and r['obj'].parent is not r['obj']:
                fail('C09/one-shot-not-removed', 'one-shot Timer #%d fired at t=%r but is still registered at quiescence (t=%r)' % (
                    r['tid'], rel(r['fires'][0]), rel(W.now)))
            if r['persist']:
                gaps = [b - a for a, b in zip(r['fires'], r['fires'][1:])]
                # resets between two firings only lengthen the gap
                if any(g < r['interval'] - EPS for g in gaps):
                    fail('C09/persistent-too-often', 'persistent Timer #%d (interval %r) fired at %r' % (r['tid'], r['interval'], [rel(x) for x in r['fires']]))
    ctx.nontrivial = st['nfired'] >= 2 and st['bounded'] >= 1
