"""C04 - handler results, success/failure/exception feedback and error isolation.

Engine: SimLoop (single thread, manager not running; the harness calls tick()/flush() until the queue and the task set
are empty).  Workload: generated programs of event types with success/failure/notify/success_channels flags and, per type,
a set of handlers drawn from {return value, return None, raise, generator yielding k values (some None) then finishing
(optionally `return v`), generator raising at step j}; handlers fire nested events of higher types; several events are in
flight at once.  Fault dimension: the raising handlers (kind, placement and step from the tape).

Oracle (ghost state written by the generated handlers themselves: what they produced, in which order, when they finished):
online at the moment a feedback event is *fired* (the generated components override the public fire() to see that moment)
and per event at quiescence.  No liveness is claimed: a drain that does not reach quiescence in 300 ticks is a HarnessLimit.
"""
from simcore import world
from simcore.runner import HarnessLimit

from circuits import BaseComponent, Event, handler

ID = 'C04'
LEVEL = 'exploration'
ENGINE = 'SimLoop'
LEVEL_TEXT = ('seeded exploration of generated programs (handler shapes x feedback flags x nesting) x schedules (handler tie order, '
              'task order, tick/flush placement) x handler faults on the real Manager/Value; every event is judged against the production '
              'log its own handlers wrote; sampling, not proof - evidence states how many distinct programs/logs were explored')
LEVEL_NOTE = ('trusted: the ghost log written by the generated handlers (what was produced/raised and when each handler finished), the '
              'fire() override of the generated components as "moment of firing", the global observer handler, CPython generators')
RULE = ('each run = generated program (1-4 event types with success/failure/notify/success_channels flags, 0-4 handlers per type out of '
        '{return v, return None, raise, generator, generator raising at step j}, nested fires, 1-3 components) + history of external '
        'fires / tick() / flush() + handler/task order, all from one seeded tape; non-trivial = at least one handler raised, at least one '
        'generator handler was suspended over a tick, and at least one dispatched event requested success or failure feedback; '
        'distinct = distinct digest of the full fire/handler-step/feedback log')
STATE_MEASURE = ('per dispatched event: (#plain handlers, #generator handlers, #plain raisers, #generator raisers, success, failure, '
                 'notify kind, #success_channels, min(#results,4))')
REAL = ['circuits.core.manager.Manager (fire/_fire/flush/tick/_dispatcher/_eventDone/processTask/registerTask)',
        'circuits.core.values.Value', 'circuits.core.events.Event/exception', 'circuits.core.components.BaseComponent',
        'circuits.core.handlers.handler']
STUBBED = ['handler tie-break order and task stepping order (decided by the tape through the Manager.getHandlers / _tasks seams)',
           'stderr of circuits.core (captured)']
ASSUMPTIONS = [
    'results are unique scalars (int/str/bool/float, including falsy ones); lists, Values and generators as results are excluded (call/wait is C06)',
    'the value a generator handler passes to `return` is not a yielded value: the oracle accepts it being recorded or dropped',
    'an event without any non-None result may hold None or an empty list',
    'the third element of the error triple (traceback) is not inspected; the first two must be the type and the very exception instance raised',
    '`<name>_failure` events are counted (one per raising handler iff requested, none otherwise); their arguments are not inspected',
    'nothing is demanded of `*_value_changed`/notify events (the statement is silent); they are generated and logged only',
    'handler-not-run / event-not-dispatched / canary are only demanded in runs where a handler did raise (isolation clause)',
    'all workload events travel on the single channel "*"; success_channels only redirect the success event (observers are global)',
]
PROBES = ['raise-plain', 'raise-generator', 'generator-suspended', 'plain-raise+generator', 'success-fired', 'failure-fired',
          'success-withheld', 'nested-fire', 'nested-fire-from-task', 'multi-inflight', 'falsy-result', 'list-value', 'scalar-value',
          'none-yield', 'generator-return-value', 'handler-after-raiser', 'two-raisers', 'success-channels', 'notify']
TIERS = {
    'quick': dict(runs=70000, wall=35, chunk=250, cfg=dict(max_types=4, max_handlers=4, max_ops=8, max_events=14)),
    'thorough': dict(runs=2500000, wall=600, chunk=500, cfg=dict(max_types=6, max_handlers=5, max_ops=16, max_events=30)),
}

KEY_DEFECT = 'C04/success/fired-although-raised/plain-raise+generator'
HPRIOS = [0, 0, 1, -1, 2]
DRAIN_CAP = 300


class Boom(Exception):
    """The injected handler fault."""

    def __init__(self, hid, eid):
        Exception.__init__(self, 'boom h%d e%d' % (hid, eid))
        self.hid, self.eid = hid, eid


class Abort(BaseException):
    """The injected handler fault as an exception that is not an `Exception` (like asyncio.CancelledError or GeneratorExit-style
    signals): the statement says "an exception in one handler", circuits isolates BaseException."""

    def __init__(self, hid, eid):
        BaseException.__init__(self, 'boom h%d e%d' % (hid, eid))
        self.hid, self.eid = hid, eid


FAULTS = (Boom, Abort)


def _same(o, exp):
    if exp[0] == 'V':
        return type(o) is type(exp[1]) and o == exp[1]
    return isinstance(o, tuple) and len(o) == 3 and o[0] is type(exp[1]) and o[1] is exp[1]


def _show(o):
    if isinstance(o, tuple) and len(o) == 3 and isinstance(o[1], BaseException):
        return '<error triple %r>' % (o[1],)
    return repr(o)


def run_one(ctx):
    ch = ctx.ch
    world.reset(ctx)
    cfg = ctx.cfg
    avoid_defect = KEY_DEFECT in ctx.avoid
    st = dict(t=0, budget=cfg['max_events'], next_eid=0, faults=0, first_fault_t=None, inflight=0, susp=False, fb=False, harness=None)
    ev = {}          # eid -> record (ghost state of one fired workload event)
    order = []       # eids in fire order

    def tick_t():
        st['t'] += 1
        return st['t']

    def viol(key, detail):
        if not ctx.violations:
            ctx.trace('!! %s: %s' % (key, detail))
        ctx.violation(key, detail)

    # ------------------------------------------------------------------ program generation
    ntypes = ch.randint(1, cfg['max_types'], 'ntypes')
    ncomp = ch.randint(1, 3, 'ncomp')
    vals = dict(n=0, falsy=[0, '', False, 0.0])

    def new_value():
        if vals['falsy'] and ch.chance(1, 8, 'falsy'):
            return vals['falsy'].pop(0)
        vals['n'] += 1
        return (100 + vals['n']) if ch.draw(2, 'vtype') == 0 else 'v%d' % vals['n']

    def describe(T, attrs):
        ctx.trace('type %s: success=%s failure=%s notify=%r success_channels=%r' % (
            T['name'], T['success'], T['failure'], attrs.get('notify', False), attrs.get('success_channels')))
        for S in T['hs']:
            d = {'ret': 'return %r' % (S['val'],), 'none': 'return None', 'raise': 'raise Boom'}.get(S['kind'])
            if d is None:
                d = 'generator: yields %r' % (S['steps'],) + (
                    ', raises at step %d' % S['raise_at'] if S['raise_at'] is not None else (', return %r' % (S['ret'],) if S['ret'] is not None else ''))
            ctx.trace('   h%d (comp %d, prio %d): %s%s' % (S['hid'], S['comp'], S['prio'], d,
                                                         ''.join('; at step %d fires %s' % (s, ['e%d' % x for x in f]) for s, f in sorted(S['fires'].items()))))

    types = []
    specs = []       # all handler specs; hid = index + 1
    for i in range(ntypes):
        T = dict(i=i, name='e%d' % i, success=bool(ch.draw(2, 'success')), failure=bool(ch.draw(2, 'failure')),
                 notify=ch.weighted([5, 2, 1], 'notify'), schan=ch.weighted([5, 2, 1], 'success-channels'), hs=[])
        for _ in range(ch.weighted([1, 3, 4, 3, 2, 1][:cfg['max_handlers'] + 1], 'nhandlers')):
            kind = ch.weighted([4, 2, 3, 5], 'kind')      # return value / return None / raise / generator
            S = dict(hid=len(specs) + 1, type=i, kind=('ret', 'none', 'raise', 'gen')[kind], prio=ch.choice(HPRIOS, 'hprio'),
                     comp=ch.draw(ncomp, 'hcomp'), fires={}, steps=[], raise_at=None, ret=None, val=None)
            if S['kind'] == 'ret':
                S['val'] = new_value()
            elif S['kind'] == 'gen':
                k = ch.weighted([2, 4, 3, 2], 'nyields')
                S['steps'] = [None if ch.chance(1, 4, 'yield-none') else new_value() for _ in range(k)]
                if ch.chance(2, 5, 'gen-raises'):
                    S['raise_at'] = ch.randint(0, k, 'raise-step')
                elif ch.chance(1, 4, 'gen-returns'):
                    S['ret'] = new_value()
            if i + 1 < ntypes:
                for _ in range(ch.weighted([6, 2, 1], 'nfires')):
                    S['fires'].setdefault(ch.randint(0, len(S['steps']), 'fire-step'), []).append(ch.randint(i + 1, ntypes - 1, 'fire-type'))
            T['hs'].append(S)
            specs.append(S)
        plain_raise = any(S['kind'] == 'raise' for S in T['hs'])
        gens = [S for S in T['hs'] if S['kind'] == 'gen']
        T['trigger'] = bool(T['success'] and plain_raise and gens and not any(S['raise_at'] is not None for S in gens))
        if T['trigger'] and avoid_defect:
            T['success'] = False       # known finding KEY_DEFECT: do not build its trigger in this run
            T['trigger'] = False
        attrs = {}
        if T['success']:
            attrs['success'] = True
        if T['failure']:
            attrs['failure'] = True
        if T['notify']:
            attrs['notify'] = True if T['notify'] == 1 else 'note%d' % i
        if T['schan']:
            attrs['success_channels'] = ('s',) if T['schan'] == 1 else ('s', 't')
        T['cls'] = type(T['name'], (Event,), attrs)
        types.append(T)
        if ctx.keep_trace:
            describe(T, attrs)

    # ------------------------------------------------------------------ ghost bookkeeping used by the generated handlers
    def do_fire(comp, ti, origin):
        if st['budget'] <= 0:
            return None
        st['budget'] -= 1
        T = types[ti]
        st['next_eid'] += 1
        eid = st['next_eid']
        e = T['cls']()
        e.sim_id = eid
        rec = ev[eid] = dict(eid=eid, T=T, t_fire=tick_t(), prod=[], raised=[], done={}, started={}, exc=[], nfail=0, nsucc=0,
                             dispatched=False, value=None, open=0)
        order.append(eid)
        ctx.log('F', eid, T['name'], origin)
        ctx.trace('fire e#%d %s from %s' % (eid, T['name'], origin))
        if st['inflight'] > 0:
            ctx.stat('multi-inflight')
        rec['value'] = comp.fire(e)
        return rec

    def produce(rec, S, item, step):
        rec['prod'].append((item, S, step))
        ctx.log('P', rec['eid'], S['hid'], step, item[0], repr(item[1]) if item[0] == 'V' else 'Boom')

    def fault(rec, S, step):
        exc = (Abort if ctx.ch.draw(4, 'fault-class') == 3 else Boom)(S['hid'], rec['eid'])
        if isinstance(exc, Abort):
            ctx.stat('fault:non-Exception-BaseException')
        t = tick_t()
        rec['raised'].append((S, exc))
        produce(rec, S, ('X', exc), step)
        st['faults'] += 1
        if st['first_fault_t'] is None:
            st['first_fault_t'] = t
        ctx.stat('fault:handler-raise')
        ctx.stat('fault:raise-in-generator-step' if S['kind'] == 'gen' else 'fault:raise-in-plain-handler')
        ctx.stat('raise-generator' if S['kind'] == 'gen' else 'raise-plain')
        ctx.trace('     h%d raises Boom for e#%d (step %d)' % (S['hid'], rec['eid'], step))
        return exc

    def finished(rec, S):
        rec['done'][S['hid']] = tick_t()
        if S['kind'] == 'gen' and rec['started'].get(S['hid']):
            rec['open'] -= 1
            if rec['open'] == 0:
                st['inflight'] -= 1

    def nested(self, rec, S, step):
        for ti in S['fires'].get(step, ()):
            ctx.stat('nested-fire')
            if S['kind'] == 'gen':
                ctx.stat('nested-fire-from-task')
            do_fire(self, ti, 'h%d/e#%d step %d' % (S['hid'], rec['eid'], step))

    def make_plain(S):
        def h(self, event, *args, **kwargs):
            rec = ev.get(getattr(event, 'sim_id', None))
            if rec is None:
                return None
            rec['started'][S['hid']] = rec['started'].get(S['hid'], 0) + 1
            ctx.log('H', rec['eid'], S['hid'], 0)
            ctx.trace('   h%d <- e#%d (%s)' % (S['hid'], rec['eid'], S['kind']))
            if rec['raised']:
                ctx.stat('handler-after-raiser')
            nested(self, rec, S, 0)
            if S['kind'] == 'raise':
                exc = fault(rec, S, 0)
                finished(rec, S)
                raise exc
            if S['kind'] == 'ret':
                produce(rec, S, ('V', S['val']), 0)
                if not S['val']:
                    ctx.stat('falsy-result')
            finished(rec, S)
            return S['val']
        return h

    def make_gen(S):
        def g(self, event, *args, **kwargs):
            rec = ev.get(getattr(event, 'sim_id', None))
            if rec is None:
                return
            k = len(S['steps'])
            for step in range(k + 1):
                if step == 0:
                    rec['started'][S['hid']] = rec['started'].get(S['hid'], 0) + 1
                    rec['open'] += 1
                    if rec['open'] == 1:
                        st['inflight'] += 1
                    if rec['raised']:
                        ctx.stat('handler-after-raiser')
                else:
                    st['susp'] = True
                    ctx.stat('generator-suspended')
                ctx.log('H', rec['eid'], S['hid'], step)
                ctx.trace('   h%d step %d <- e#%d' % (S['hid'], step, rec['eid']))
                nested(self, rec, S, step)
                if S['raise_at'] == step:
                    exc = fault(rec, S, step)
                    finished(rec, S)
                    raise exc
                if step == k:
                    break
                y = S['steps'][step]
                if y is None:
                    ctx.stat('none-yield')
                else:
                    produce(rec, S, ('V', y), step)
                    if not y:
                        ctx.stat('falsy-result')
                yield y
            finished(rec, S)
            if S['ret'] is not None:
                ctx.stat('generator-return-value')
                rec['prod'].append((('R', S['ret']), S, k))     # optional: the statement only speaks of yielded values
                return S['ret']
        return g

    # ------------------------------------------------------------------ feedback observation
    def on_feedback(event, late=False):
        """Called at the moment a non-workload event is fired (or, for one that bypassed fire(), when it is dispatched)."""
        name = event.name
        if name == 'exception':
            fe = event.kwargs.get('fevent')
            rec = ev.get(getattr(fe, 'sim_id', None))
            val = event.args[1] if len(event.args) > 1 else None
            if rec is None or not isinstance(val, FAULTS):
                # an exception that is not an injected fault: the harness itself (or mutated library code) raised inside a handler
                st['harness'] = 'unexpected exception event: %r for %r: %s' % (val, fe, ''.join(event.args[2] if len(event.args) > 2 else [])[-1500:])
                return
            tick_t()
            ctx.log('X', rec['eid'], val.hid)
            ctx.trace('     exception event (fevent=e#%d, from h%d)' % (rec['eid'], val.hid))
            # "...produces exactly one `exception` event": one per raising handler, none else
            if val.eid != rec['eid'] or not any(x is val for _, x in rec['raised']):
                viol('C04/exception/wrong-fevent', 'exception event for e#%d carries %r which no handler of that event raised' % (rec['eid'], val))
            elif any(x is val for x in rec['exc']):
                viol('C04/exception/duplicate', 'second exception event for the same raise %r of e#%d' % (val, rec['eid']))
            rec['exc'].append(val)
            return
        par = getattr(event, 'parent', None)
        rec = ev.get(getattr(par, 'sim_id', None))
        if rec is None or not name.startswith(par.name + '_'):
            if name.startswith('note'):
                ctx.log('N', name)
            return
        kind = name[len(par.name) + 1:]
        tick_t()
        ctx.log('B', rec['eid'], kind)
        ctx.trace('     %s fired (for e#%d)' % (name, rec['eid']))
        T = rec['T']
        if kind == 'failure':
            rec['nfail'] += 1
            ctx.stat('failure-fired')
            st['fb'] = True
            # "...plus one `<name>_failure` event if the event requested failure feedback"
            if not T['failure']:
                viol('C04/failure/not-requested', '%s fired for e#%d which did not request failure feedback' % (name, rec['eid']))
            elif rec['nfail'] > len(rec['raised']):
                viol('C04/failure/extra', '%d %s events for e#%d but only %d handler(s) raised so far' % (rec['nfail'], name, rec['eid'], len(rec['raised'])))
        elif kind == 'success':
            rec['nsucc'] += 1
            ctx.stat('success-fired')
            st['fb'] = True
            # "`<name>_success` is fired exactly once iff requested and no handler of the event raised, and only after every
            #  handler, including suspended generator handlers, has finished"
            unfinished = [S for S in T['hs'] if S['hid'] not in rec['done']]
            if rec['nsucc'] > 1:
                viol('C04/success/twice', '%s fired %d times for e#%d' % (name, rec['nsucc'], rec['eid']))
            elif not T['success']:
                viol('C04/success/not-requested', '%s fired for e#%d which did not request success feedback' % (name, rec['eid']))
            elif unfinished:
                S = unfinished[0]
                viol('C04/success/before-handlers-finished/%s' % ('generator' if S['kind'] == 'gen' else 'plain'),
                     '%s fired for e#%d while handler(s) %r had not finished (h%d: %s)' % (
                         name, rec['eid'], ['h%d' % x['hid'] for x in unfinished], S['hid'],
                         'suspended generator' if rec['started'].get(S['hid']) else ('generator not stepped yet' if S['kind'] == 'gen' else 'not invoked yet')))
            elif rec['raised']:
                viol('C04/success/fired-although-raised/' + raise_shape(rec),
                     '%s fired for e#%d although handler(s) %r raised (failure events so far: %d)' % (
                         name, rec['eid'], ['h%d' % S['hid'] for S, _ in rec['raised']], rec['nfail']))
        elif kind == 'value_changed':
            ctx.stat('notify')

    def raise_shape(rec):
        if any(S['kind'] == 'gen' for S, _ in rec['raised']):
            return 'generator-raise'
        if any(S['kind'] == 'gen' for S in rec['T']['hs']):
            return 'plain-raise+generator'
        return 'plain-raise-only'

    class Base(BaseComponent):
        channel = '*'

        def fire(self, event, *channels, **kwargs):     # public API override: the moment of firing
            if getattr(event, 'sim_id', None) is None and not getattr(event, '_sim_seen', False):
                event._sim_seen = True
                on_feedback(event)
            return BaseComponent.fireEvent(self, event, *channels, **kwargs)

    class Obs(Base):
        @handler(channel='*', priority=50)
        def _sim_obs(self, event, *args, **kwargs):
            eid = getattr(event, 'sim_id', None)
            if eid is not None:
                rec = ev[eid]
                if not rec['dispatched']:
                    rec['dispatched'] = True
                    ctx.log('D', eid)
                    ctx.trace('  dispatch e#%d %s' % (eid, event.name))
                return
            if not getattr(event, '_sim_seen', False):
                event._sim_seen = True
                ctx.stat('feedback-bypassed-fire')
                on_feedback(event, late=True)

    comps = []
    for ci in range(ncomp):
        ns = {}
        for S in specs:
            if S['comp'] == ci:
                f = (make_gen if S['kind'] == 'gen' else make_plain)(S)
                f.__name__ = 'h%d' % S['hid']
                ns[f.__name__] = handler(types[S['type']]['name'], priority=S['prio'])(f)
        comps.append(type('C%d' % ci, (Base,), ns)())
    root = comps[0]
    for i, c in enumerate(comps[1:], 1):
        c.register(comps[ch.draw(i, 'parent')])
    Obs().register(root)
    tasks = getattr(root, '_tasks', None)
    if tasks is None:
        raise RuntimeError('Manager._tasks disappeared: the quiescence test of the C04 harness needs it')
    while len(root):
        root.flush()

    # ------------------------------------------------------------------ history
    def step(how):
        ctx.log('T', how)
        ctx.trace('%s()' % how)
        try:
            root.tick() if how == 'tick' else root.flush()
        except (Exception, Abort) as e:
            if ctx.violations:
                return             # already reported; the run is not driven any further
            if st['faults']:
                # "An exception in one handler never prevents ... the loop from running"
                viol('C04/isolation/loop-raised', '%s() raised %r' % (how, e))
                return
            raise
        if st['harness'] and not ctx.violations:
            if st['faults']:
                viol('C04/exception/unexpected', st['harness'])
            else:
                raise RuntimeError(st['harness'])

    def drain():
        n = 0
        while (len(root) or root._tasks) and not ctx.violations:
            step('tick')
            n += 1
            if n > DRAIN_CAP:
                raise HarnessLimit('no quiescence after %d ticks' % DRAIN_CAP)

    for _ in range(ch.randint(1, cfg['max_ops'], 'nops')):
        if ctx.violations:
            break
        k = ch.weighted([5, 3, 2], 'op')
        if k == 0:
            for _ in range(ch.weighted([4, 2, 1], 'burst') + 1):
                do_fire(ch.choice(comps, 'firer'), ch.draw(ntypes, 'ext-type'), 'ext')
        else:
            step('tick' if k == 1 else 'flush')
    drain()
    canary = None
    if not ctx.violations:
        st['budget'] = 1
        canary = do_fire(root, 0, 'canary')
        drain()

    # ------------------------------------------------------------------ oracle at quiescence
    for eid in order:
        if ctx.violations:
            break
        rec = ev[eid]
        T = rec['T']
        hs = T['hs']
        raised = rec['raised']
        ngen = sum(1 for S in hs if S['kind'] == 'gen')
        ctx.state((len(hs) - ngen, ngen, sum(1 for S, _ in raised if S['kind'] != 'gen'), sum(1 for S, _ in raised if S['kind'] == 'gen'),
                   T['success'], T['failure'], T['notify'], T['schan'], min(len(rec['prod']), 4)))
        if rec['dispatched'] and (T['success'] or T['failure']):
            st['fb'] = True
        if len(raised) > 1:
            ctx.stat('two-raisers')
        if raised and ngen and any(S['kind'] == 'raise' for S, _ in raised):
            ctx.stat('plain-raise+generator')
        if T['schan'] and rec['nsucc']:
            ctx.stat('success-channels')
        late = st['first_fault_t'] is not None
        # "An exception in one handler never prevents the remaining handlers, later events or the loop from running"
        if not rec['dispatched']:
            if late:
                viol('C04/isolation/event-not-dispatched' + ('/canary' if rec is canary else ''),
                     'e#%d (%s) was fired but never dispatched although the loop was stepped to quiescence' % (eid, T['name']))
            continue
        missing = [S for S in hs if S['hid'] not in rec['done']]
        if missing:
            if late:
                S = missing[0]
                viol('C04/isolation/handler-not-finished/%s' % ('generator-abandoned' if rec['started'].get(S['hid']) else 'never-invoked'),
                     'e#%d: handler(s) %r did not run to their end by quiescence (handlers that raised for this event: %r)' % (
                         eid, ['h%d' % x['hid'] for x in missing], ['h%d' % x['hid'] for x, _ in raised]))
            continue           # "when all handlers of an event have finished" never became true: nothing else to judge
        # --- value: "holds exactly their non-None results (every non-None value a generator handler yields counts as one; a single
        #     result is stored as such, several as a list in the order they were produced), with the error triple standing in for a
        #     handler that raised"
        v = rec['value']
        obs = v.value
        seq = list(obs) if isinstance(obs, list) else ([] if obs is None else [obs])
        exp = rec['prod']
        used = [False] * len(seq)
        pos = []
        for item, S, stepno in exp:
            j = next((j for j, o in enumerate(seq) if not used[j] and _same(o, ('V', item[1]) if item[0] == 'R' else item)), None)
            if j is None:
                if item[0] == 'R':
                    continue
                what = ('error-triple-' + ('generator' if S['kind'] == 'gen' else 'plain')) if item[0] == 'X' else (
                    ('generator-yield' if S['kind'] == 'gen' else 'plain-return') + ('' if item[1] else '-falsy'))
                viol('C04/value/missing-result/' + what, 'e#%d: value %s lacks %s produced by h%d at step %d; produced in order: %s' % (
                    eid, _show_seq(obs), _show(item[1]) if item[0] == 'V' else 'the error triple of %r' % (item[1],), S['hid'], stepno, _show_prod(exp)))
                break
            used[j] = True
            pos.append(j)
        if ctx.violations:
            break
        if not all(used):
            j = used.index(False)
            viol('C04/value/extra-result/' + ('none' if seq[j] is None else 'other'),
                 'e#%d: value %s holds %s which no handler produced (or more often than produced); produced in order: %s' % (
                     eid, _show_seq(obs), _show(seq[j]), _show_prod(exp)))
            break
        if pos != sorted(pos):
            viol('C04/value/order', 'e#%d: value %s is not in production order %s' % (eid, _show_seq(obs), _show_prod(exp)))
            break
        if isinstance(obs, list) and len(obs) == 1:
            viol('C04/value/single-as-list', 'e#%d: the single result is stored as a list: %s' % (eid, _show_seq(obs)))
            break
        ctx.stat('list-value' if isinstance(obs, list) else 'scalar-value')
        # --- "its errors flag is set iff some handler raised"
        if bool(v.errors) != bool(raised):
            viol('C04/errors-flag/' + (('not-set/' + raise_shape(rec).split('+')[0]) if raised else 'set-without-raise'),
                 'e#%d: errors=%r but %d handler(s) raised' % (eid, v.errors, len(raised)))
            break
        # --- "produces exactly one `exception` event plus one `<name>_failure` event if the event requested failure feedback"
        lost = [(S, x) for S, x in raised if not any(y is x for y in rec['exc'])]
        if lost:
            viol('C04/exception/missing/' + ('generator' if lost[0][0]['kind'] == 'gen' else 'plain'),
                 'e#%d: no exception event for the raise of h%d' % (eid, lost[0][0]['hid']))
            break
        want = len(raised) if T['failure'] else 0
        if rec['nfail'] != want:
            viol('C04/failure/count/' + '+'.join(sorted({'generator' if S['kind'] == 'gen' else 'plain' for S, _ in raised})),
                 'e#%d: %d %s_failure event(s), expected %d (failure requested: %s, raising handlers: %r)' % (
                     eid, rec['nfail'], T['name'], want, T['failure'], ['h%d' % S['hid'] for S, _ in raised]))
            break
        # --- "`<name>_success` is fired exactly once iff requested and no handler of the event raised" (too many: checked online)
        if T['success'] and not raised and rec['nsucc'] == 0:
            viol('C04/success/missing/' + ('with-generator' if ngen else 'plain-only'),
                 'e#%d requested success, all %d handler(s) finished without raising, but %s_success was never fired' % (eid, len(hs), T['name']))
            break
        if T['success'] and raised:
            ctx.stat('success-withheld')
    ctx.sim_time = 0.0
    ctx.nontrivial = bool(st['faults'] and st['susp'] and st['fb'])


def _show_seq(obs):
    if isinstance(obs, list):
        return '[' + ', '.join(_show(o) for o in obs) + ']'
    return _show(obs)


def _show_prod(exp):
    return '[' + ', '.join(('h%d:' % S['hid']) + (repr(item[1]) if item[0] == 'V' else ('Boom' if item[0] == 'X' else '(return %r)' % (item[1],)))
                           for item, S, _ in exp) + ']'
