"""C04 - handler results, success/failure/exception feedback and error isolation.

Engine: SimLoop (single thread, manager not running; the harness calls tick()/flush() until the queue and the task set
are empty).  Workload: generated programs of event types with success/failure/notify/success_channels flags and, per type,
a set of handlers drawn from {return value, return None, raise, generator yielding k values (some None) then finishing
(optionally `return v`), generator raising at step j}; handlers fire nested events of higher types; several events are in
flight at once.  Fault dimension: the raising handlers (kind, placement and step from the tape).
A result (returned or yielded) is a scalar or a LIST (flat, empty or nested; its elements are fresh scalars): a list is one
result like any other, so `[1, 2]` followed by `3` must read `[[1, 2], 3]` and a lone `[1, 2]` must read `[1, 2]`.  Every
invocation hands the library a fresh copy of the list; the oracle compares with the pristine one.  As the value of a lone
list result and the value of several results are both lists, the oracle accepts a value if EITHER reading fits the log.
A plain handler may also `return self.fire(<event of a higher type>)`, i.e. hand on the Value of a nested fire as its result (the
idiom circuits.web and circuits.node rely on): the event must still hold every other result, the Value may be held as the object
or resolved, and the errors flag must be set if a handler of the event itself raised.

Oracle (ghost state written by the generated handlers themselves: what they produced, in which order, when they finished):
online at the moment a feedback event is *fired* (the generated components override the public fire() to see that moment)
and per event at quiescence.  No liveness is claimed: a drain that does not reach quiescence in 300 ticks is a HarnessLimit.

The empty handler set: in half of the runs (tape) the observer component has no catch-all handler but handlers for the NAMES of the
feedback events only (`<name>_success/_failure/_complete/_done/_value_changed`, the notify names, `exception`; never `<name>`
itself), so that an event type that drew no handler has an empty handler lookup.  Its dispatch cannot be seen; once the queue has
been emptied its turn is over, "all its handlers have finished" holds vacuously, none raised, and `<name>_success` must have been
fired exactly once iff requested (key C04/success/missing/no-handler).  With a catch-all observer the dispatch of every event is
seen (isolation clause at full strength); the workload handlers mark the dispatch themselves in both modes.

Rest with leftover tasks: quiescence is "queue empty and task table empty".  When the queue is empty, every generated handler that
was started has run to its end (ghost log) and REST_TICKS = 3 further ticks made no handler run and no feedback event appear, the
run is at rest by everything the public API shows although something still sits in the task table (e.g. an exhausted generator
that is stepped again and again).  The statement says nothing about that table, so the run is not a HarnessLimit: it is judged
as it stands - all safety clauses (value, errors flag, too many / unrequested / premature feedback events), but not the clauses
that only say an event "is fired" without a deadline (exception/missing, failure/count too few, success/missing), which stay
reserved for true quiescence.  On the unchanged tree this never happens (stat `rest-with-leftover-tasks` = 0).
"""
from simcore import world
from simcore.runner import HarnessLimit

from circuits import BaseComponent, Event, handler
from circuits.core.values import Value

ID = 'C04'
LEVEL = 'exploration'
ENGINE = 'SimLoop'
LEVEL_TEXT = ('seeded exploration of generated programs (handler shapes x feedback flags x nesting) x schedules (handler tie order, '
              'task order, tick/flush placement) x handler faults on the real Manager/Value; every event is judged against the production '
              'log its own handlers wrote; sampling, not proof - evidence states how many distinct programs/logs were explored')
LEVEL_NOTE = ('trusted: the ghost log written by the generated handlers (what was produced/raised and when each handler finished), the '
              'fire() override of the generated components as "moment of firing", the observer handler (catch-all or by feedback name), '
              'an empty queue as "the turn of a handler-less event is over", CPython generators')
RULE = ('each run = generated program (1-4 event types with success/failure/notify/success_channels flags, 0-4 handlers per type out of '
        '{return v, return None, raise, generator, generator raising at step j, return the Value of a nested fire}; v / yielded values scalars or flat, empty and nested '
        'lists; nested fires, 1-3 components; observer = catch-all handler or handlers for the feedback names only, so that a type with 0 '
        'handlers has an empty handler lookup) + history of external '
        'fires / tick() / flush() + handler/task order, all from one seeded tape; non-trivial = at least one handler raised, at least one '
        'generator handler was suspended over a tick, and at least one dispatched event requested success or failure feedback; '
        'distinct = distinct digest of the full fire/handler-step/feedback log')
STATE_MEASURE = ('per dispatched event: (#plain handlers, #generator handlers, #plain raisers, #generator raisers, success, failure, '
                 'notify kind, #success_channels, min(#results,4), min(#list results,2), first result is a list, '
                 '#results that are the Value of a nested fire (max 2), event has no handler at all)')
REAL = ['circuits.core.manager.Manager (fire/_fire/flush/tick/_dispatcher/_eventDone/processTask/registerTask)',
        'circuits.core.values.Value', 'circuits.core.events.Event/exception', 'circuits.core.components.BaseComponent',
        'circuits.core.handlers.handler']
STUBBED = ['handler tie-break order and task stepping order (decided by the tape through the Manager.getHandlers / _tasks seams)',
           'stderr of circuits.core (captured)']
ASSUMPTIONS = [
    'results are unique scalars (int/str/bool/float, including falsy ones), lists (flat / empty / nested) of unique scalars, or the Value '
    'of an event the handler has just fired (plain handlers only); generators as results are excluded (call/wait is C06)',
    'a Value as a result: the statement does not say how it is held, so the Value object itself or what it resolves to at quiescence are '
    'both accepted, and nothing is demanded for it while the nested event has no result; the errors flag of the outer event must be set '
    'when one of its OWN handlers raised, and may be set or clear when only a handler of the nested event raised',
    'a value that is a list is accepted when it fits the production log either as "the several results" or as "the single result, '
    'which is itself a list"; that the library modifies the list object a handler returned is not judged (the statement is silent)',
    'the value a generator handler passes to `return` is not a yielded value: the oracle accepts it being recorded or dropped '
    '(it is never the empty list, the only result that may occur more than once in a run)',
    'an event without any non-None result may hold None or an empty list',
    'the third element of the error triple (traceback) is not inspected; the first two must be the type and the very exception instance raised',
    '`<name>_failure` events are counted (one per raising handler iff requested, none otherwise); their arguments are not inspected',
    'nothing is demanded of `*_value_changed`/notify events (the statement is silent); they are generated and logged only',
    'handler-not-run / event-not-dispatched / canary are only demanded in runs where a handler did raise (isolation clause)',
    'all workload events travel on the single channel "*"; success_channels only redirect the success event (observers are global)',
    'an event with an empty handler lookup (named-observer runs, type without handlers): "all handlers have finished" and "no handler '
    'raised" hold vacuously once its turn in the queue is over, so `<name>_success` is demanded exactly once iff requested; its '
    'dispatch is not observable, so event-not-dispatched is not demanded for it',
    'a run that is at rest by every public observation (queue empty, all started handlers finished, 3 idle ticks) while the private '
    'task table is not empty is judged as it stands instead of being a harness limit; the clauses without a deadline (a missing '
    'exception / failure / success event) are then not judged (weaker reading: the statement promises no liveness)',
]
PROBES = ['raise-plain', 'raise-generator', 'generator-suspended', 'plain-raise+generator', 'success-fired', 'failure-fired',
          'success-withheld', 'nested-fire', 'nested-fire-from-task', 'multi-inflight', 'falsy-result', 'list-value', 'scalar-value',
          'none-yield', 'generator-return-value', 'handler-after-raiser', 'two-raisers', 'success-channels', 'notify',
          'list-result-returned', 'list-result-yielded', 'list-result-empty', 'list-result-nested', 'list-result-single',
          'list-result-first-of-several', 'list-result-after-other', 'list-result-after-error-triple',
          'nested-value-result', 'nested-value-result-single', 'nested-value-result+more', 'nested-value-result+raiser',
          'nested-value-result-raised-below',
          'named-observer', 'handlerless-event', 'handlerless-success-requested', 'handlerless-success-fired', 'handlerless-after-raise']
TIERS = {
    'quick': dict(runs=70000, wall=35, chunk=250, cfg=dict(max_types=4, max_handlers=4, max_ops=8, max_events=14)),
    'thorough': dict(runs=2500000, wall=600, chunk=500, cfg=dict(max_types=6, max_handlers=5, max_ops=16, max_events=30)),
}

KEY_DEFECT = 'C04/success/fired-although-raised/plain-raise+generator'
KEY_LIST = 'C04/value/list-result-flattened'      # first result of an event is a list, later results are appended INTO it
KEY_NEST_ERRORS = 'C04/errors-flag/not-set/nested-value-result'     # a handler returning the Value of a nested fire clears the flag
KEY_NEST_LOST = 'C04/value/results-lost/nested-value-result'        # ... and makes the next result replace everything held so far
HPRIOS = [0, 0, 1, -1, 2]
DRAIN_CAP = 300
REST_TICKS = 3


class Boom(Exception):
    """The injected handler fault."""

    def __init__(self, hid, eid):
        Exception.__init__(self, 'boom h%d e%d' % (hid, eid))
        self.hid, self.eid = hid, eid


class Abort(BaseException):
    """The injected handler fault as an exception that is not an `Exception` (like asyncio.CancelledError or GeneratorExit-style
    signals): the statement says "an exception in one handler", circuits isolates BaseException."""

    def __init__(self, hid, eid):
        BaseException.__init__(self, 'boom h%d e%d' % (hid, eid))
        self.hid, self.eid = hid, eid


FAULTS = (Boom, Abort)


def _eq(a, b):
    """Equality that also compares the types (1 != True != 1.0), element-wise through lists."""
    if type(a) is not type(b):
        return False
    if isinstance(a, list):
        return len(a) == len(b) and all(_eq(x, y) for x, y in zip(a, b))
    return a == b


def _fresh(v):
    """What a handler hands to the library: the scalar itself, a new copy of a list (the library may keep and modify it)."""
    return [_fresh(x) for x in v] if isinstance(v, list) else v


def _same(o, exp):
    if exp[0] == 'V':
        return _eq(o, exp[1])
    return isinstance(o, tuple) and len(o) == 3 and o[0] is type(exp[1]) and o[1] is exp[1]


def _show(o):
    if isinstance(o, Value):
        return '<Value of e#%s>' % (getattr(o.event, 'sim_id', '?'),)
    if isinstance(o, list):
        return '[' + ', '.join(_show(x) for x in o) + ']'
    if isinstance(o, tuple) and len(o) == 3 and isinstance(o[1], BaseException):
        return '<error triple %r>' % (o[1],)
    return repr(o)


def run_one(ctx):
    ch = ctx.ch
    world.reset(ctx)
    cfg = ctx.cfg
    avoid_defect = KEY_DEFECT in ctx.avoid
    avoid_list = KEY_LIST in ctx.avoid
    avoid_nest = KEY_NEST_ERRORS in ctx.avoid or KEY_NEST_LOST in ctx.avoid
    st = dict(t=0, budget=cfg['max_events'], next_eid=0, faults=0, first_fault_t=None, inflight=0, susp=False, fb=False, harness=None, leftover=False)
    ev = {}          # eid -> record (ghost state of one fired workload event)
    order = []       # eids in fire order

    def tick_t():
        st['t'] += 1
        return st['t']

    def viol(key, detail):
        if not ctx.violations:
            ctx.trace('!! %s: %s' % (key, detail))
        ctx.violation(key, detail)

    # ------------------------------------------------------------------ program generation
    ntypes = ch.randint(1, cfg['max_types'], 'ntypes')
    ncomp = ch.randint(1, 3, 'ncomp')
    # observer: 0 = a catch-all handler (sees every dispatch, but then EVERY event has a handler), 1 = handlers for the names of the
    # feedback events only: an event type that drew no handler then has no handler at all (empty handler lookup)
    bare = bool(ch.draw(2, 'observer'))
    if bare:
        ctx.stat('named-observer')
        ctx.trace('observer: handlers for the feedback event names only (an event type without a handler below has no handler at all)')
    vals = dict(n=0, falsy=[0, '', False, 0.0])

    def scalar(kind):
        vals['n'] += 1
        return (100 + vals['n']) if kind == 0 else 'v%d' % vals['n']

    def new_value():
        if vals['falsy'] and ch.chance(1, 8, 'falsy'):
            return vals['falsy'].pop(0)
        k = ch.weighted([5, 5, 2, 1, 1], 'vtype')      # int / str / flat list / empty list / nested list
        if k < 2:
            return scalar(k)
        if k == 3:
            return []
        flat = [scalar(ch.draw(2, 'etype')) for _ in range(ch.randint(1, 3, 'list-len'))]
        return flat if k == 2 else [flat, scalar(0)]

    def nproductions(S):
        return {'ret': 1, 'raise': 1, 'none': 0, 'nest': 1}.get(S['kind'], sum(1 for y in S['steps'] if y is not None) + (S['raise_at'] is not None) + (S['ret'] is not None))

    def describe(T, attrs):
        ctx.trace('type %s: success=%s failure=%s notify=%r success_channels=%r' % (
            T['name'], T['success'], T['failure'], attrs.get('notify', False), attrs.get('success_channels')))
        for S in T['hs']:
            d = {'ret': 'return %r' % (S['val'],), 'none': 'return None', 'raise': 'raise Boom', 'nest': 'return self.fire(e%s())' % S['nest']}.get(S['kind'])
            if d is None:
                d = 'generator: yields %r' % (S['steps'],) + (
                    ', raises at step %d' % S['raise_at'] if S['raise_at'] is not None else (', return %r' % (S['ret'],) if S['ret'] is not None else ''))
            ctx.trace('   h%d (comp %d, prio %d): %s%s' % (S['hid'], S['comp'], S['prio'], d,
                                                         ''.join('; at step %d fires %s' % (s, ['e%d' % x for x in f]) for s, f in sorted(S['fires'].items()))))

    types = []
    specs = []       # all handler specs; hid = index + 1
    for i in range(ntypes):
        T = dict(i=i, name='e%d' % i, success=bool(ch.draw(2, 'success')), failure=bool(ch.draw(2, 'failure')),
                 notify=ch.weighted([5, 2, 1], 'notify'), schan=ch.weighted([5, 2, 1], 'success-channels'), hs=[])
        for _ in range(ch.weighted([1, 3, 4, 3, 2, 1][:cfg['max_handlers'] + 1], 'nhandlers')):
            # return value / return None / raise / generator / `return self.fire(<event of a higher type>)`
            kind = ch.weighted([4, 2, 3, 5, 1] if i + 1 < ntypes else [4, 2, 3, 5], 'kind')
            S = dict(hid=len(specs) + 1, type=i, kind=('ret', 'none', 'raise', 'gen', 'nest')[kind], prio=ch.choice(HPRIOS, 'hprio'),
                     comp=ch.draw(ncomp, 'hcomp'), fires={}, steps=[], raise_at=None, ret=None, val=None, nest=None)
            if S['kind'] == 'nest':
                S['nest'] = ch.randint(i + 1, ntypes - 1, 'nest-type')
            if S['kind'] == 'ret':
                S['val'] = new_value()
            elif S['kind'] == 'gen':
                k = ch.weighted([2, 4, 3, 2], 'nyields')
                S['steps'] = [None if ch.chance(1, 4, 'yield-none') else new_value() for _ in range(k)]
                if ch.chance(2, 5, 'gen-raises'):
                    S['raise_at'] = ch.randint(0, k, 'raise-step')
                elif ch.chance(1, 4, 'gen-returns'):
                    S['ret'] = new_value()
                    if S['ret'] == []:
                        S['ret'] = scalar(0)       # the only value that can occur twice; an OPTIONAL item must be identifiable
            if i + 1 < ntypes:
                for _ in range(ch.weighted([6, 2, 1], 'nfires')):
                    S['fires'].setdefault(ch.randint(0, len(S['steps']), 'fire-step'), []).append(ch.randint(i + 1, ntypes - 1, 'fire-type'))
            T['hs'].append(S)
            specs.append(S)
        plain_raise = any(S['kind'] == 'raise' for S in T['hs'])
        gens = [S for S in T['hs'] if S['kind'] == 'gen']
        T['trigger'] = bool(T['success'] and plain_raise and gens and not any(S['raise_at'] is not None for S in gens))
        if T['trigger'] and avoid_defect:
            T['success'] = False       # known finding KEY_DEFECT: do not build its trigger in this run
            T['trigger'] = False
        if avoid_list and sum(nproductions(S) for S in T['hs']) > 1:
            # known finding KEY_LIST: its trigger is a list result followed by another result of the same event; a type that can
            # produce more than one result gets scalars only (the lone list result stays in the explored space)
            for S in T['hs']:
                S['val'], S['ret'] = (scalar(0) if isinstance(x, list) else x for x in (S['val'], S['ret']))
                S['steps'] = [scalar(0) if isinstance(y, list) else y for y in S['steps']]
        if avoid_nest and sum(nproductions(S) for S in T['hs']) > 1:
            # known findings KEY_NEST_*: their trigger is a handler returning the Value of a nested fire next to another producing
            # handler of the same event; such a handler still fires its event here but returns None
            for S in T['hs']:
                if S['kind'] == 'nest':
                    S['kind'] = 'none'
                    S['fires'].setdefault(0, []).append(S['nest'])
        attrs = {}
        if T['success']:
            attrs['success'] = True
        if T['failure']:
            attrs['failure'] = True
        if T['notify']:
            attrs['notify'] = True if T['notify'] == 1 else 'note%d' % i
        if T['schan']:
            attrs['success_channels'] = ('s',) if T['schan'] == 1 else ('s', 't')
        T['cls'] = type(T['name'], (Event,), attrs)
        types.append(T)
        if ctx.keep_trace:
            describe(T, attrs)

    # ------------------------------------------------------------------ ghost bookkeeping used by the generated handlers
    def do_fire(comp, ti, origin):
        if st['budget'] <= 0:
            return None
        st['budget'] -= 1
        T = types[ti]
        st['next_eid'] += 1
        eid = st['next_eid']
        e = T['cls']()
        e.sim_id = eid
        rec = ev[eid] = dict(eid=eid, T=T, t_fire=tick_t(), prod=[], raised=[], done={}, started={}, exc=[], nfail=0, nsucc=0,
                             dispatched=False, value=None, open=0)
        order.append(eid)
        ctx.log('F', eid, T['name'], origin)
        ctx.trace('fire e#%d %s from %s' % (eid, T['name'], origin))
        if st['inflight'] > 0:
            ctx.stat('multi-inflight')
        rec['value'] = comp.fire(e)
        return rec

    def produce(rec, S, item, step):
        if item[0] == 'V' and isinstance(item[1], list):
            ctx.stat('list-result-yielded' if S['kind'] == 'gen' else 'list-result-returned')
            if not item[1]:
                ctx.stat('list-result-empty')
            elif isinstance(item[1][0], list):
                ctx.stat('list-result-nested')
        rec['prod'].append((item, S, step))
        ctx.log('P', rec['eid'], S['hid'], step, item[0], repr(item[1]) if item[0] == 'V' else 'Boom' if item[0] == 'X' else item[1]['eid'])

    def fault(rec, S, step):
        exc = (Abort if ctx.ch.draw(4, 'fault-class') == 3 else Boom)(S['hid'], rec['eid'])
        if isinstance(exc, Abort):
            ctx.stat('fault:non-Exception-BaseException')
        t = tick_t()
        rec['raised'].append((S, exc))
        produce(rec, S, ('X', exc), step)
        st['faults'] += 1
        if st['first_fault_t'] is None:
            st['first_fault_t'] = t
        ctx.stat('fault:handler-raise')
        ctx.stat('fault:raise-in-generator-step' if S['kind'] == 'gen' else 'fault:raise-in-plain-handler')
        ctx.stat('raise-generator' if S['kind'] == 'gen' else 'raise-plain')
        ctx.trace('     h%d raises Boom for e#%d (step %d)' % (S['hid'], rec['eid'], step))
        return exc

    def finished(rec, S):
        rec['done'][S['hid']] = tick_t()
        if S['kind'] == 'gen' and rec['started'].get(S['hid']):
            rec['open'] -= 1
            if rec['open'] == 0:
                st['inflight'] -= 1

    def dispatched(rec):
        if not rec['dispatched']:
            rec['dispatched'] = True
            ctx.log('D', rec['eid'])
            ctx.trace('  dispatch e#%d %s' % (rec['eid'], rec['T']['name']))

    def nested(self, rec, S, step):
        for ti in S['fires'].get(step, ()):
            ctx.stat('nested-fire')
            if S['kind'] == 'gen':
                ctx.stat('nested-fire-from-task')
            do_fire(self, ti, 'h%d/e#%d step %d' % (S['hid'], rec['eid'], step))

    def make_plain(S):
        def h(self, event, *args, **kwargs):
            rec = ev.get(getattr(event, 'sim_id', None))
            if rec is None:
                return None
            dispatched(rec)
            rec['started'][S['hid']] = rec['started'].get(S['hid'], 0) + 1
            ctx.log('H', rec['eid'], S['hid'], 0)
            ctx.trace('   h%d <- e#%d (%s)' % (S['hid'], rec['eid'], S['kind']))
            if rec['raised']:
                ctx.stat('handler-after-raiser')
            nested(self, rec, S, 0)
            if S['kind'] == 'raise':
                exc = fault(rec, S, 0)
                finished(rec, S)
                raise exc
            if S['kind'] == 'ret':
                produce(rec, S, ('V', S['val']), 0)
                if not S['val']:
                    ctx.stat('falsy-result')
            if S['kind'] == 'nest':
                # the handler hands the future of the event it fired on as its own result
                ctx.stat('nested-fire')
                nrec = do_fire(self, S['nest'], 'h%d/e#%d, which returns the Value' % (S['hid'], rec['eid']))
                finished(rec, S)
                if nrec is None:
                    return None
                ctx.stat('nested-value-result')
                produce(rec, S, ('N', nrec), 0)
                return nrec['value']
            finished(rec, S)
            return _fresh(S['val'])
        return h

    def make_gen(S):
        def g(self, event, *args, **kwargs):
            rec = ev.get(getattr(event, 'sim_id', None))
            if rec is None:
                return
            k = len(S['steps'])
            for step in range(k + 1):
                if step == 0:
                    dispatched(rec)
                    rec['started'][S['hid']] = rec['started'].get(S['hid'], 0) + 1
                    rec['open'] += 1
                    if rec['open'] == 1:
                        st['inflight'] += 1
                    if rec['raised']:
                        ctx.stat('handler-after-raiser')
                else:
                    st['susp'] = True
                    ctx.stat('generator-suspended')
                ctx.log('H', rec['eid'], S['hid'], step)
                ctx.trace('   h%d step %d <- e#%d' % (S['hid'], step, rec['eid']))
                nested(self, rec, S, step)
                if S['raise_at'] == step:
                    exc = fault(rec, S, step)
                    finished(rec, S)
                    raise exc
                if step == k:
                    break
                y = S['steps'][step]
                if y is None:
                    ctx.stat('none-yield')
                else:
                    produce(rec, S, ('V', y), step)
                    if not y:
                        ctx.stat('falsy-result')
                yield _fresh(y)
            finished(rec, S)
            if S['ret'] is not None:
                ctx.stat('generator-return-value')
                rec['prod'].append((('R', S['ret']), S, k))     # optional: the statement only speaks of yielded values
                return _fresh(S['ret'])
        return g

    # ------------------------------------------------------------------ feedback observation
    def on_feedback(event, late=False):
        """Called at the moment a non-workload event is fired (or, for one that bypassed fire(), when it is dispatched)."""
        name = event.name
        if name == 'exception':
            fe = event.kwargs.get('fevent')
            rec = ev.get(getattr(fe, 'sim_id', None))
            val = event.args[1] if len(event.args) > 1 else None
            if rec is None or not isinstance(val, FAULTS):
                # an exception that is not an injected fault: the harness itself (or mutated library code) raised inside a handler
                st['harness'] = 'unexpected exception event: %r for %r: %s' % (val, fe, ''.join(event.args[2] if len(event.args) > 2 else [])[-1500:])
                return
            tick_t()
            ctx.log('X', rec['eid'], val.hid)
            ctx.trace('     exception event (fevent=e#%d, from h%d)' % (rec['eid'], val.hid))
            # "...produces exactly one `exception` event": one per raising handler, none else
            if val.eid != rec['eid'] or not any(x is val for _, x in rec['raised']):
                viol('C04/exception/wrong-fevent', 'exception event for e#%d carries %r which no handler of that event raised' % (rec['eid'], val))
            elif any(x is val for x in rec['exc']):
                viol('C04/exception/duplicate', 'second exception event for the same raise %r of e#%d' % (val, rec['eid']))
            rec['exc'].append(val)
            return
        par = getattr(event, 'parent', None)
        rec = ev.get(getattr(par, 'sim_id', None))
        if rec is None or not name.startswith(par.name + '_'):
            if name.startswith('note'):
                ctx.log('N', name)
            return
        kind = name[len(par.name) + 1:]
        tick_t()
        ctx.log('B', rec['eid'], kind)
        ctx.trace('     %s fired (for e#%d)' % (name, rec['eid']))
        T = rec['T']
        if kind == 'failure':
            rec['nfail'] += 1
            ctx.stat('failure-fired')
            st['fb'] = True
            # "...plus one `<name>_failure` event if the event requested failure feedback"
            if not T['failure']:
                viol('C04/failure/not-requested', '%s fired for e#%d which did not request failure feedback' % (name, rec['eid']))
            elif rec['nfail'] > len(rec['raised']):
                viol('C04/failure/extra', '%d %s events for e#%d but only %d handler(s) raised so far' % (rec['nfail'], name, rec['eid'], len(rec['raised'])))
        elif kind == 'success':
            rec['nsucc'] += 1
            ctx.stat('success-fired')
            st['fb'] = True
            # "`<name>_success` is fired exactly once iff requested and no handler of the event raised, and only after every
            #  handler, including suspended generator handlers, has finished"
            unfinished = [S for S in T['hs'] if S['hid'] not in rec['done']]
            if rec['nsucc'] > 1:
                viol('C04/success/twice', '%s fired %d times for e#%d' % (name, rec['nsucc'], rec['eid']))
            elif not T['success']:
                viol('C04/success/not-requested', '%s fired for e#%d which did not request success feedback' % (name, rec['eid']))
            elif unfinished:
                S = unfinished[0]
                viol('C04/success/before-handlers-finished/%s' % ('generator' if S['kind'] == 'gen' else 'plain'),
                     '%s fired for e#%d while handler(s) %r had not finished (h%d: %s)' % (
                         name, rec['eid'], ['h%d' % x['hid'] for x in unfinished], S['hid'],
                         'suspended generator' if rec['started'].get(S['hid']) else ('generator not stepped yet' if S['kind'] == 'gen' else 'not invoked yet')))
            elif rec['raised']:
                viol('C04/success/fired-although-raised/' + raise_shape(rec),
                     '%s fired for e#%d although handler(s) %r raised (failure events so far: %d)' % (
                         name, rec['eid'], ['h%d' % S['hid'] for S, _ in rec['raised']], rec['nfail']))
        elif kind == 'value_changed':
            ctx.stat('notify')

    def raised_below(rec):
        return bool(rec['raised']) or any(raised_below(item[1]) for item, _, _ in rec['prod'] if item[0] == 'N')

    def raise_shape(rec):
        if any(S['kind'] == 'gen' for S, _ in rec['raised']):
            return 'generator-raise'
        if any(S['kind'] == 'gen' for S in rec['T']['hs']):
            return 'plain-raise+generator'
        return 'plain-raise-only'

    class Base(BaseComponent):
        channel = '*'

        def fire(self, event, *channels, **kwargs):     # public API override: the moment of firing
            if getattr(event, 'sim_id', None) is None and not getattr(event, '_sim_seen', False):
                event._sim_seen = True
                on_feedback(event)
            return BaseComponent.fireEvent(self, event, *channels, **kwargs)

    # the observer's handler: for every event (catch-all), or - so that an event type without a generated handler really has an empty
    # handler lookup - by NAME for the feedback events only (never for a workload event `<name>` itself)
    fb_names = [T['name'] + sfx for T in types for sfx in ('_success', '_failure', '_complete', '_done', '_value_changed')]
    fb_names += ['note%d' % T['i'] for T in types] + ['exception']

    class Obs(Base):
        @handler(*(fb_names if bare else ()), channel='*', priority=50)
        def _sim_obs(self, event, *args, **kwargs):
            eid = getattr(event, 'sim_id', None)
            if eid is not None:
                dispatched(ev[eid])
                return
            if not getattr(event, '_sim_seen', False):
                event._sim_seen = True
                ctx.stat('feedback-bypassed-fire')
                on_feedback(event, late=True)

    comps = []
    for ci in range(ncomp):
        ns = {}
        for S in specs:
            if S['comp'] == ci:
                f = (make_gen if S['kind'] == 'gen' else make_plain)(S)
                f.__name__ = 'h%d' % S['hid']
                ns[f.__name__] = handler(types[S['type']]['name'], priority=S['prio'])(f)
        comps.append(type('C%d' % ci, (Base,), ns)())
    root = comps[0]
    for i, c in enumerate(comps[1:], 1):
        c.register(comps[ch.draw(i, 'parent')])
    Obs().register(root)
    tasks = getattr(root, '_tasks', None)
    if tasks is None:
        raise RuntimeError('Manager._tasks disappeared: the quiescence test of the C04 harness needs it')
    while len(root):
        root.flush()

    # ------------------------------------------------------------------ history
    def step(how):
        ctx.log('T', how)
        ctx.trace('%s()' % how)
        try:
            root.tick() if how == 'tick' else root.flush()
        except (Exception, Abort) as e:
            if ctx.violations:
                return             # already reported; the run is not driven any further
            if st['faults']:
                # "An exception in one handler never prevents ... the loop from running"
                viol('C04/isolation/loop-raised', '%s() raised %r' % (how, e))
                return
            raise
        if st['harness'] and not ctx.violations:
            if st['faults']:
                viol('C04/exception/unexpected', st['harness'])
            else:
                raise RuntimeError(st['harness'])

    def drain():
        n = idle = 0
        while (len(root) or root._tasks) and not ctx.violations:
            quiet = not len(root) and st['inflight'] == 0
            t0 = st['t']
            step('tick')
            n += 1
            # at rest by everything the public API shows: the queue is empty, every generated handler that was started has run to
            # its end, and REST_TICKS further ticks in a row made no handler run and no feedback event appear.  What is left in the
            # task table then is no handler of the workload; the statement is silent about it, so the run is judged as it stands
            # (the clauses that only say "is fired" without a deadline are then left unjudged, see ASSUMPTIONS).
            idle = idle + 1 if quiet and st['t'] == t0 and not len(root) and st['inflight'] == 0 else 0
            if idle >= REST_TICKS:
                st['leftover'] = True
                ctx.stat('rest-with-leftover-tasks')
                ctx.log('L')
                ctx.trace('(at rest: queue empty, every started handler finished, %d idle ticks; %d entr%s left in the task table)' % (
                    REST_TICKS, len(root._tasks), 'y' if len(root._tasks) == 1 else 'ies'))
                return
            if n > DRAIN_CAP:
                raise HarnessLimit('no quiescence after %d ticks' % DRAIN_CAP)

    for _ in range(ch.randint(1, cfg['max_ops'], 'nops')):
        if ctx.violations:
            break
        k = ch.weighted([5, 3, 2], 'op')
        if k == 0:
            for _ in range(ch.weighted([4, 2, 1], 'burst') + 1):
                do_fire(ch.choice(comps, 'firer'), ch.draw(ntypes, 'ext-type'), 'ext')
        else:
            step('tick' if k == 1 else 'flush')
    drain()
    canary = None
    if not ctx.violations:
        st['budget'] = 1
        canary = do_fire(root, 0, 'canary')
        drain()

    # ------------------------------------------------------------------ oracle at quiescence
    for eid in order:
        if ctx.violations:
            break
        rec = ev[eid]
        T = rec['T']
        hs = T['hs']
        raised = rec['raised']
        ngen = sum(1 for S in hs if S['kind'] == 'gen')
        exp = rec['prod']
        must = [n for n, (item, _, _) in enumerate(exp) if item[0] != 'R']            # the results the statement speaks of
        lists = [n for n in must if exp[n][0][0] == 'V' and isinstance(exp[n][0][1], list)]
        ctx.state((len(hs) - ngen, ngen, sum(1 for S, _ in raised if S['kind'] != 'gen'), sum(1 for S, _ in raised if S['kind'] == 'gen'),
                   T['success'], T['failure'], T['notify'], T['schan'], min(len(exp), 4), min(len(lists), 2), bool(lists and lists[0] == must[0]),
                   min(sum(1 for n in must if exp[n][0][0] == 'N'), 2), bare and not hs))
        handlerless = bare and not hs
        if handlerless and not rec['dispatched']:
            # an event nobody handles cannot be seen being dispatched; the queue has been emptied, so its turn is over (and with
            # it "all handlers of the event have finished", none raised)
            rec['dispatched'] = True
            ctx.stat('handlerless-event')
            if T['success']:
                ctx.stat('handlerless-success-requested')
                if rec['nsucc']:
                    ctx.stat('handlerless-success-fired')
            if st['first_fault_t'] is not None and rec['t_fire'] > st['first_fault_t']:
                ctx.stat('handlerless-after-raise')
        if rec['dispatched'] and (T['success'] or T['failure']):
            st['fb'] = True
        if len(raised) > 1:
            ctx.stat('two-raisers')
        if raised and ngen and any(S['kind'] == 'raise' for S, _ in raised):
            ctx.stat('plain-raise+generator')
        if T['schan'] and rec['nsucc']:
            ctx.stat('success-channels')
        late = st['first_fault_t'] is not None
        # "An exception in one handler never prevents the remaining handlers, later events or the loop from running"
        if not rec['dispatched']:
            if late:
                viol('C04/isolation/event-not-dispatched' + ('/canary' if rec is canary else ''),
                     'e#%d (%s) was fired but never dispatched although the loop was stepped to quiescence' % (eid, T['name']))
            continue
        missing = [S for S in hs if S['hid'] not in rec['done']]
        if missing:
            if late:
                S = missing[0]
                viol('C04/isolation/handler-not-finished/%s' % ('generator-abandoned' if rec['started'].get(S['hid']) else 'never-invoked'),
                     'e#%d: handler(s) %r did not run to their end by quiescence (handlers that raised for this event: %r)' % (
                         eid, ['h%d' % x['hid'] for x in missing], ['h%d' % x['hid'] for x, _ in raised]))
            continue           # "when all handlers of an event have finished" never became true: nothing else to judge
        # --- value: "holds exactly their non-None results (every non-None value a generator handler yields counts as one; a single
        #     result is stored as such, several as a list in the order they were produced), with the error triple standing in for a
        #     handler that raised"
        v = rec['value']
        obs = v.value
        if lists:
            ctx.stat('list-result-single' if len(must) == 1 else 'list-result-first-of-several' if lists[0] == must[0] else 'list-result-after-other')
            if any(n and exp[n - 1][0][0] == 'X' for n in lists):
                ctx.stat('list-result-after-error-triple')

        def match(o, item):
            if item[0] == 'N':
                # the Value of a nested fire as a result: the statement does not say how it is held - as the object or resolved
                nv = item[1]['value']
                return o is nv or (nv.value is not None and _eq(o, nv.value))
            return _same(o, ('V', item[1]) if item[0] == 'R' else item)

        def judge(seq, several, exp=exp):
            """Judge the value under ONE reading (`seq` = the results it holds, in order); None or (key, detail)."""
            used = [False] * len(seq)
            pos = []
            for n, (item, S, stepno) in enumerate(exp):
                j = next((j for j, o in enumerate(seq) if not used[j] and match(o, item)), None)
                if j is None:
                    if item[0] == 'R' or (item[0] == 'N' and item[1]['value'].value is None):
                        continue
                    if any(exp[m][0][0] == 'N' for m in must if m >= n and m != must[-1]):
                        # this result or a later one is the Value of a nested fire, and it was not the last result of the event
                        return (KEY_NEST_LOST, 'e#%d: value %s lacks %s produced by h%d at step %d; a handler of the event returned the Value of '
                                'a nested fire before the last result arrived; produced in order: %s' % (
                                    eid, _show_seq(obs), _show_item(item), S['hid'], stepno, _show_prod(exp)))
                    what = ('error-triple-' + ('generator' if S['kind'] == 'gen' else 'plain')) if item[0] == 'X' else 'nested-value' if item[0] == 'N' else (
                        ('generator-yield' if S['kind'] == 'gen' else 'plain-return') + (
                            '-list' if isinstance(item[1], list) else '' if item[1] else '-falsy'))
                    return ('C04/value/missing-result/' + what, 'e#%d: value %s lacks %s produced by h%d at step %d; produced in order: %s' % (
                        eid, _show_seq(obs), _show_item(item), S['hid'], stepno, _show_prod(exp)))
                used[j] = True
                pos.append(j)
            if not all(used):
                j = used.index(False)
                return ('C04/value/extra-result/' + ('none' if seq[j] is None else 'other'),
                        'e#%d: value %s holds %s which no handler produced (or more often than produced); produced in order: %s' % (
                            eid, _show_seq(obs), _show(seq[j]), _show_prod(exp)))
            if pos != sorted(pos):
                return ('C04/value/order', 'e#%d: value %s is not in production order %s' % (eid, _show_seq(obs), _show_prod(exp)))
            if several and len(seq) == 1:
                return ('C04/value/single-as-list', 'e#%d: the single result is stored as a list: %s' % (eid, _show_seq(obs)))
            return None

        if isinstance(obs, list):
            # a list is either the single result (a handler produced a list) or the list of the several results: the weaker demand
            # is that ONE of the readings fits; the verdict reported is the one of the "several results" reading
            bad = judge([obs], False) and judge(list(obs), True)
            first = next((m for m in must if not (exp[m][0][0] == 'N' and exp[m][0][1]['value'].value is None)), None)
            if bad and lists and lists[0] == first:
                # naming the shape: the FIRST result is a list and the value is explained by "the later results were put INTO that
                # list" (the log with that list replaced by its elements fits)
                n = first
                item, S, stepno = exp[n]
                if judge(list(obs), False, exp[:n] + [(('V', x), S, stepno) for x in item[1]] + exp[n + 1:]) is None:
                    bad = (KEY_LIST, 'e#%d: value %s holds the elements of the list %r (first result, from h%d at step %d) instead of the '
                           'list itself; produced in order: %s' % (eid, _show_seq(obs), item[1], S['hid'], stepno, _show_prod(exp)))
        else:
            bad = judge([] if obs is None else [obs], False)
        if bad:
            viol(*bad)
            break
        ctx.stat('list-value' if isinstance(obs, list) else 'scalar-value')
        # --- "its errors flag is set iff some handler raised"
        nests = [item[1] for item, _, _ in exp if item[0] == 'N']
        if nests:
            ctx.stat('nested-value-result-single' if len(must) == 1 else 'nested-value-result+more')
            if raised:
                ctx.stat('nested-value-result+raiser')
        if bool(v.errors) != bool(raised):
            if raised and nests:
                viol(KEY_NEST_ERRORS, 'e#%d: errors=%r but %d handler(s) raised (and handler(s) returned the Value of a nested fire: %s)' % (
                    eid, v.errors, len(raised), _show_prod(exp)))
                break
            if not raised and any(raised_below(n) for n in nests):
                # "some handler raised": a handler of the nested event whose Value this event holds did; either flag is accepted
                ctx.stat('nested-value-result-raised-below')
            else:
                viol('C04/errors-flag/' + (('not-set/' + raise_shape(rec).split('+')[0]) if raised else 'set-without-raise'),
                     'e#%d: errors=%r but %d handler(s) raised' % (eid, v.errors, len(raised)))
                break
        # --- "produces exactly one `exception` event plus one `<name>_failure` event if the event requested failure feedback"
        #     (too many / not requested: checked online; too few is only judged at true quiescence: the statement sets no deadline)
        if st['leftover']:
            continue
        lost = [(S, x) for S, x in raised if not any(y is x for y in rec['exc'])]
        if lost:
            viol('C04/exception/missing/' + ('generator' if lost[0][0]['kind'] == 'gen' else 'plain'),
                 'e#%d: no exception event for the raise of h%d' % (eid, lost[0][0]['hid']))
            break
        want = len(raised) if T['failure'] else 0
        if rec['nfail'] != want:
            viol('C04/failure/count/' + '+'.join(sorted({'generator' if S['kind'] == 'gen' else 'plain' for S, _ in raised})),
                 'e#%d: %d %s_failure event(s), expected %d (failure requested: %s, raising handlers: %r)' % (
                     eid, rec['nfail'], T['name'], want, T['failure'], ['h%d' % S['hid'] for S, _ in raised]))
            break
        # --- "`<name>_success` is fired exactly once iff requested and no handler of the event raised" (too many: checked online)
        if T['success'] and not raised and rec['nsucc'] == 0:
            viol('C04/success/missing/' + ('with-generator' if ngen else 'no-handler' if handlerless else 'plain-only'),
                 'e#%d requested success, all %d handler(s) finished without raising, but %s_success was never fired' % (eid, len(hs), T['name']))
            break
        if T['success'] and raised:
            ctx.stat('success-withheld')
    ctx.sim_time = 0.0
    ctx.nontrivial = bool(st['faults'] and st['susp'] and st['fb'])


def _show_item(item):
    return _show(item[1]) if item[0] == 'V' else 'the Value of e#%d' % item[1]['eid'] if item[0] == 'N' else 'the error triple of %r' % (item[1],)


def _show_seq(obs):
    return _show(obs)


def _show_prod(exp):
    return '[' + ', '.join(('h%d:' % S['hid']) + (repr(item[1]) if item[0] == 'V' else 'Boom' if item[0] == 'X' else '<Value of e#%d>' % item[1]['eid'] if item[0] == 'N' else '(return %r)' % (item[1],))
                           for item, S, _ in exp) + ']'
