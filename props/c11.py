"""C11 - stream writes arrive in order, each byte once, and close waits for the buffer.

Engine: SimNet.  One endpoint per run (server-side connection of TCPServer / UNIXServer, TCPClient / UNIXClient against a simulated
listener, circuits.io.File on a real pipe), one poller (Select / Poll / EPoll), a drawn script of write payloads (empty ... multi-100-KB,
content = a fixed pseudo-random pattern indexed by the global stream offset, so every byte is attributable), a close request at a
drawn position, writes after it, FURTHER close requests at drawn later positions while the first one is still deferred (another close
event, close() of the whole server, the peer half-closing its sending side so that the endpoint reads EOF and closes itself - the
other direction stays open, so everything written before must still arrive), loop iterations and peer reads at drawn moments (a stalling peer + small SO_SNDBUF / pipe size give real
partial sends).  Every send()/os.write() call of the endpoint consults a fault script drawn from the tape: accept k of n bytes, raise
EAGAIN/EWOULDBLOCK/EINTR/ENOBUFS (nothing sent), raise EPIPE/ECONNRESET.  Half of the fatal errnos kill the descriptor for good (every
later call fails too, as on a really broken connection); the other half are the outcome of that ONE call only and later calls are
accepted again (the quantifier's "every script of send() outcomes" contains [accept, EPIPE, accept]; SimSocket's ('err', errno, 'once')
for sockets, the same in the fd_write wrapper for File).
A rare configuration (1 run in 40 in quick, 1 in 10 in thorough) models an OS with a very large send buffer ("however the OS accepts
it"): one send()/write() call may accept a whole payload however large (NET.greedy for sockets, the same loop in the fd_write wrapper
for File; the remote end drains meanwhile), and ONE payload of 1 MiB + {1, 4096, 300000} bytes is written among small ones.
Two runs in five of the File endpoint use a File that is readable as well as writable (shape "file-rw": a real temporary regular file
with drawn initial content, created under /var/tmp and unlinked before the run starts, handed to File as an 'r+b' file object; Select
or Poll only - epoll refuses regular files).  File reads one `bufsize` block per loop iteration, so the read side reaches end-of-file
at a drawn iteration: before the first write, between writes, while payloads are buffered, while a close is deferred, or never.  A
File in a `+` mode stays open at EOF (circuits' own rule), so EOF is NOT a close request here: everything written before and after it
is owed.  The kernel accepts every write to a regular file in full; partial writes and errnos come from the fault script only.

Oracle (ground truth = the bytes the OS accepted, recorded by the interposer; clauses quote the statement):
  * "handed to the OS in order and each byte exactly once ... partial sends and transient refusals lose, repeat or reorder nothing":
    after every accepted chunk the accepted stream is a prefix of  PRE + (any subsequence of POST payloads), PRE = concatenation of
    the payloads written before the close request, POST = payloads written after it (the statement does not say whether those are
    written or dropped: both accepted, but never inside / instead of PRE);
  * "a close requested while data is still buffered takes effect only after all of it has been written": when the descriptor is
    closed and no fatal send error happened, PRE has been accepted in full; without a fatal error PRE is accepted in full at the end;
  * "nothing is written after the endpoint has closed": no send()/write() call after close() of the descriptor;
  * "a fatal send error is always signalled by an error or disconnect event, the bytes accepted up to then being an exact prefix":
    after EVERY injected EPIPE/ECONNRESET an error / disconnect / disconnected / closed event is dispatched (an `error` carrying a
    transient errno does not count); at the FIRST such event after the first fatal errno ("up to then") everything the OS has accepted
    must still be a prefix of PRE + (subsequence of POST): a payload accepted behind the lost one before anything was signalled breaks
    it (key .../fatal-errno/not-a-prefix-at-signal).  What is accepted after the error has been signalled is not judged (the
    statement is silent: e.g. a Client that fires `error` for ECONNRESET and goes on with the next payload is accepted).
  * Bounded liveness (stated bound): in the final phase faults are off and the peer drains everything before every loop iteration;
    PRE must be flushed, a requested close performed and a fatal error signalled within
        2 x (number of payloads written + partial sends and real refusals seen in that phase) + 10 loop iterations
    (factor 2: the loop polls for writability once per iteration, after the send of that iteration has filled the kernel buffer
    again, so every send can cost one iteration in which the descriptor is reported not writable).
A peer half-close that comes before any close event counts as the close request for the PRE/POST split (the endpoint may close itself
on EOF: what is written afterwards may be dropped, what was written before is owed) but no close is demanded because of it.
A stall (bound exceeded) in which the File made no write() call at all since its read side reported EOF with data or a close still
pending gets its own key  C11/file/liveness/stalled-after-read-eof  (whichever of "not flushed" / "close not performed" it shows as).
Keeping the writer registered after the buffer drained is not judged.  How often close() is called on the descriptor is not judged.
"""
import errno
import fcntl
import hashlib
import io
import os
import tempfile

from simcore import world, simnet
from simcore.world import W
from simcore.simnet import NET, Peer, PeerListener, step, settle, make_running
from simcore.runner import HarnessLimit

from circuits import BaseComponent, Component, Manager, handler
from circuits.core.pollers import Select, Poll, EPoll
from circuits.net.sockets import TCPServer, UNIXServer, TCPClient, UNIXClient
from circuits.net import events as NE
from circuits.io import File
from circuits.io import events as IE
import circuits.io.file as FMOD

ID = 'C11'
LEVEL = 'fault_enumeration'
ENGINE = 'SimNet'
LEVEL_TEXT = ('seeded enumeration of send()/write() outcome scripts (accept k of n, EAGAIN/EWOULDBLOCK/EINTR/ENOBUFS, EPIPE/ECONNRESET, real '
              'partial sends from a small SO_SNDBUF / pipe with a stalling peer) x payload sequences x close position x endpoint kind x poller; '
              'fault-free and fault-injecting configurations are accounted separately (cfg:fault-free / cfg:faults); sampling, not proof')
LEVEL_NOTE = ('trusted: SimSocket.sim_sent / the fd_write wrapper as record of what the OS accepted, the kernel (AF_UNIX stream sockets, pipes), '
              'FIFO dispatch of equal-priority events (C02) for "written before the close request" = fired before it')
RULE = ('each run = endpoint kind (+ for File: write-only pipe or read-write regular file with drawn initial content) + poller + buffer sizes + '
        'payload/close/step/peer-read script + per-call fault script from one tape; non-trivial = '
        'at least two non-empty payloads were written, bytes were accepted, and at least one of: partial send (real or injected), transient errno, '
        'fatal errno (descriptor dead afterwards, or that call only), close requested while data was unflushed; distinct = digest of the log of writes, send outcomes, reads, events and closes')
STATE_MEASURE = '(endpoint kind incl. file-rw, poller, outcome of a send call incl. fatal errno once / for good and accepted-after-a-fatal-errno, unflushed payloads bucket at that call, close pending, injected-or-real, read side of a File at EOF)'
REAL = ['circuits.net.sockets.TCPServer/UNIXServer (write/close/_on_write/_write/_close)', 'circuits.net.sockets.TCPClient/UNIXClient (same, connect)',
        'circuits.io.file.File on a real pipe (write-only) or on a real unlinked regular file opened r+b (read side reaches EOF during the run)',
        'circuits.core.pollers.Select/Poll/EPoll over real select/poll/epoll', 'circuits.core.manager.Manager.tick',
        'kernel AF_UNIX stream sockets and pipes (real partial sends)']
STUBBED = ['socket -> SimSocket interposer (AF_UNIX behind simulated addresses, fault script per send; a fatal errno either shuts the socket down for good or is raised once)', 'circuits.io.file.fd_write -> wrapper around os.write '
           'with the same fault script', 'circuits.io.file.fd_read -> pass-through to os.read that notes the moment of EOF (reach probes only)', 'select module -> non-blocking shim', 'time -> virtual clock', 'remote ends are harness Peer objects / the read end of the pipe']
ASSUMPTIONS = ['writes after the close request may be written or dropped (statement silent); they must not displace or repeat earlier data',
               '"written before the close request" = write event fired before the close event on the same channel (FIFO dispatch)',
               'EOF on the read side (peer shutdown(SHUT_WR)) is treated like a close request: data written before it must still be delivered, data written '
               'after it may be dropped; the peer never closes or resets the connection fully before the end of a run',
               'how many times close() is called on the descriptor is not judged (idempotent on Python sockets/files)',
               'an endpoint that keeps its writer registered after draining is not flagged',
               '"the bytes accepted up to then" = up to the dispatch of the first error/disconnect(ed)/closed event after the fatal errno (weaker reading; '
               'the stronger one - nothing at all may be accepted after a fatal errno - is not demanded): bytes accepted after that signal are not judged, '
               'and a payload written after the close request may be skipped in that prefix as everywhere else',
               'a fatal errno that is the outcome of one send() call only (the next call is accepted) is inside "every script of send() outcomes" although a '
               'real kernel would keep failing',
               'ENOBUFS counts as a transient refusal for File as well (the statement lists it for every endpoint)',
               'end-of-file on the read side of a File opened in a + mode is not a close request (File itself keeps such a file open at EOF): data '
               'written before and after it is owed; where in the file the bytes land (reads and writes share the file offset) is not judged']
PROBES = ['cfg:faults', 'cfg:fault-free', 'kind:tcpserver', 'kind:unixserver', 'kind:tcpclient', 'kind:unixclient', 'kind:file',
          'poller:Select', 'poller:Poll', 'poller:EPoll', 'partial-send-real', 'fault:short_write', 'fault:zero_write', 'fault:transient_send_error',
          'fault:fatal_send_error', 'fault:fatal_send_error_once', 'accepted-after-fatal', 'accepted-after-fatal-signalled', 'close-deferred', 'close-immediate', 'close-performed', 'write-after-close-request', 'write-after-closed',
          'payload-empty', 'payload-large', 'fatal-signalled', 'post-payload-written', 'flushed-in-full', 'repeated-close',
          'repeated-close-while-deferred', 'close-all-while-deferred', 'eof-while-close-deferred', 'eof-before-close', 'cfg:greedy-big',
          'payload-over-1MiB', 'payload-over-1MiB-accepted-in-one-send', 'cfg:file-text-payloads', 'kind:file-rw', 'file-rw-read', 'file-rw-eof',
          'file-rw-eof-while-unflushed', 'file-rw-eof-while-close-deferred', 'file-rw-eof-before-first-write', 'file-rw-write-after-eof',
          'file-rw-no-eof']
TIERS = {
    'quick': dict(runs=50000, wall=26, chunk=25, cfg=dict(max_ops=16, large=(60_000, 300_000), max_total=450_000, large_w=1, big_den=40)),
    'thorough': dict(runs=200000, wall=600, chunk=40, cfg=dict(max_ops=40, large=(300_000, 2_500_000), max_total=6_000_000, large_w=2, big_den=10)),
}

K_CLIENT = 'C11/client/transient-errno/payload-lost'
K_FILE = 'C11/file/transient-errno/payload-lost'
K_EOF = 'C11/file/liveness/stalled-after-read-eof'
KINDS = ['tcpserver', 'unixserver', 'tcpclient', 'unixclient', 'file']
GROUP = dict(tcpserver='server', unixserver='server', tcpclient='client', unixclient='client', file='file')
POLLERS = [('Select', Select), ('Poll', Poll), ('EPoll', EPoll)]
TRANSIENT = [('EAGAIN', errno.EAGAIN), ('EWOULDBLOCK', errno.EWOULDBLOCK), ('EINTR', errno.EINTR), ('ENOBUFS', errno.ENOBUFS)]
FATAL = [('EPIPE', errno.EPIPE), ('ECONNRESET', errno.ECONNRESET)]
F_SETPIPE_SZ = 1031
MIB = 1 << 20

# ---- seam for File: circuits.io.file calls the module-level name `fd_write` (= os.write); rebind it once per process
if not hasattr(FMOD, 'fd_write'):
    raise RuntimeError('C11: circuits.io.file no longer has the module-level name fd_write (seam for File writes)')
_real_fd_write = os.write
_FILE = dict(hook=None, rhook=None)


def _c11_fd_write(fd, data):
    h = _FILE['hook']
    return h(fd, data) if h is not None else _real_fd_write(fd, data)


FMOD.fd_write = _c11_fd_write

# same for reads (`fd_read` = os.read): a pass-through that only tells the harness the moment the read side of a File sees end-of-file
if not hasattr(FMOD, 'fd_read'):
    raise RuntimeError('C11: circuits.io.file no longer has the module-level name fd_read (observation point for EOF of a File)')
_real_fd_read = os.read


def _c11_fd_read(fd, n):
    data = _real_fd_read(fd, n)
    h = _FILE['rhook']
    if h is not None and not data:
        h()
    return data


FMOD.fd_read = _c11_fd_read

_PAT = [b'']


def pattern(n):
    """Fixed pseudo-random byte stream (SHAKE-256 output is prefix-stable), indexed by global stream offset."""
    if len(_PAT[0]) < n:
        _PAT[0] = hashlib.shake_256(b'C11 stream pattern').digest(max(n, 1 << 20))
    return _PAT[0]


_TXT = [None]
TXT_CHARS = 120_000


def text_pattern():
    """Fixed non-periodic text of 1-, 2-, 3- and 4-byte characters with its UTF-8 encoding and the byte offset of every character
    (File accepts str payloads and encodes them itself; the OS counts bytes, the payload counts characters)."""
    if _TXT[0] is None:
        alpha = 'abcxyz09 \n' + '\u00e9\u00fc\u00df\u00a2' + '\u20ac\u6f22\u5b57\u2603' + '\U0001f600\U00010348'
        h = hashlib.shake_256(b'C11 text pattern').digest(TXT_CHARS)
        txt = ''.join(alpha[b % len(alpha)] for b in h)
        offs = [0]
        for c in txt:
            offs.append(offs[-1] + len(c.encode('utf-8')))
        _TXT[0] = (txt, txt.encode('utf-8'), offs)
    return _TXT[0]


class RecFile(io.FileIO):
    """The file object handed to File: records when the descriptor is closed."""
    on_close = None

    def close(self):
        if not self.closed and self.on_close is not None:
            self.on_close()
        super().close()


class Script:
    """Fault script for the send()/write() calls of the endpoint under test; NET.policy interface + decide() for the File wrapper."""

    def __init__(self, ctx, st, kinds, rate):
        self.ctx, self.st, self.kinds, self.rate = ctx, st, kinds, rate
        self.enabled = True

    def on_recv(self, sock, n):
        return None

    def on_accept(self, sock):
        return None

    def on_connect(self, sock, addr):
        return None

    def on_poll(self, kind):
        return False

    def on_send(self, sock, n):
        return self.decide(n) if sock is self.st['sock'] else None

    def decide(self, n):
        ctx, st, ch = self.ctx, self.st, self.ctx.ch
        st['begin_call'](n)
        if not (self.enabled and self.kinds) or not ch.chance(1, self.rate, 'send-fault?'):
            return None
        kind = self.kinds[ch.weighted([w for _, w in self.kinds], 'fault-kind')][0] if len(self.kinds) > 1 else self.kinds[0][0]
        if kind == 'short':
            if n < 1:
                return None
            # k of n bytes accepted, 0 <= k < n; k = 0 ("accept 0 of n", nothing taken and no errno) is the smallest partial send
            shape = ch.weighted([2, 2, 2, 2, 1], 'short-shape')
            if n < 2 and shape != 4:
                return None
            k = 0 if shape == 4 else [1, n - 1, max(1, n // 2), 1 + ch.draw(n - 1, 'short-k')][shape]
            if k == 0:
                ctx.stat('fault:zero_write')
            ctx.stat('fault:short_write')
            st['call']['short'] = k
            return ('short', k)
        if kind == 'transient':
            name, e = ch.choice(TRANSIENT, 'transient-errno')
            ctx.stat('fault:transient_send_error')
            ctx.stat('fault:send_errno_' + name)
            st['end_call_error'](name, e, False)
            return ('err', e)
        name, e = ch.choice(FATAL, 'fatal-errno')
        # "every script of send() outcomes": the fatal errno either kills the descriptor for good (every later call fails too, as on a real
        # broken connection) or is the outcome of THIS call only and later calls are accepted again (scripted outcome [..., EPIPE, accept, ...])
        once = ch.chance(1, 2, 'fatal-once')
        ctx.stat('fault:fatal_send_error')
        ctx.stat('fault:send_errno_' + name)
        if once:
            ctx.stat('fault:fatal_send_error_once')
        st['end_call_error'](name, e, True, once)
        return ('err', e, 'once') if once else ('err', e)


def run_one(ctx):
    world.reset(ctx)
    simnet.reset(ctx)
    try:
        _run(ctx)
    finally:
        _FILE['hook'] = _FILE['rhook'] = None
        NET.close_all()


def _errname(args):
    for a in args:
        if isinstance(a, OSError) and a.errno is not None:
            return errno.errorcode.get(a.errno, str(a.errno))
        if isinstance(a, int) and not isinstance(a, bool):
            return errno.errorcode.get(a, str(a))
    return '?'


def _run(ctx):
    ch, cfg = ctx.ch, ctx.cfg
    kind = ch.choice(KINDS, 'endpoint')
    grp = GROUP[kind]
    # File only: two runs in five on a regular file opened for reading AND writing (epoll refuses regular files: Select / Poll)
    rw = grp == 'file' and ch.chance(2, 5, 'file-rw')
    pname, pcls = ch.choice(POLLERS[:2] if rw else POLLERS, 'poller')
    skind = 'file-rw' if rw else kind
    sndbuf = ch.choice([4608, None, 16384], 'sndbuf')
    bufsize = ch.choice([4096, 1, 64, 8192], 'bufsize')
    faulty = ch.chance(1, 2, 'faulty')
    kinds = []
    if faulty:
        mask = 1 + ch.draw(7, 'fault-kinds')
        kinds = [kw for bit, kw in ((1, ('short', 4)), (2, ('transient', 4)), (4, ('fatal', 1))) if mask & bit]
        if (grp == 'client' and K_CLIENT in ctx.avoid) or (grp == 'file' and K_FILE in ctx.avoid):
            kinds = [kw for kw in kinds if kw[0] != 'transient']      # avoidance predicate of the two listed findings
    rate = ch.choice([3, 2, 4, 6], 'fault-rate') if kinds else 1
    ctx.stat('cfg:faults' if kinds else 'cfg:fault-free')
    ctx.stat('kind:' + kind)
    if rw:
        ctx.stat('kind:file-rw')
    ctx.stat('poller:' + pname)
    ctx.log('cfg', kind, pname, sndbuf or 0, bufsize, ','.join(k for k, _ in kinds), rate)
    ctx.trace('endpoint=%s poller=%s sndbuf=%s bufsize=%d faults=%s rate=1/%d' % (kind, pname, sndbuf, bufsize, [k for k, _ in kinds] or 'none', rate))
    # rare configuration "an OS with a very large send buffer": one send()/write() call may accept an arbitrarily large payload in full
    # (NET.greedy for sockets, the same loop in the fd_write wrapper for File), and ONE payload of 1 MiB + k bytes is written among small ones
    big = ch.chance(1, cfg['big_den'], 'greedy-big')
    st_big = dict(at=ch.randint(0, 2, 'big-at'), size=MIB + ch.choice([1, 4096, 300_000], 'big-k'), done=False) if big else None
    if big:
        ctx.stat('cfg:greedy-big')
        ctx.log('greedy-big', st_big['at'], st_big['size'])
        ctx.trace('greedy OS: one send()/write() may accept a whole payload (the remote end drains meanwhile); write number %d is %d bytes' % (
            st_big['at'] + 1, st_big['size']))
    # File takes str payloads too and encodes them itself: one File run in three writes text with multi-byte characters (never with the
    # 1 MiB payload: the text pattern is 120000 characters long)
    text = grp == 'file' and not big and ch.chance(1, 3, 'text-payloads')
    if text:
        ctx.stat('cfg:file-text-payloads')
        ctx.log('text')
        TXT, PAT, TOFF = text_pattern()
    else:
        TXT = TOFF = None
        PAT = pattern(cfg['max_total'] + 4096 + (MIB + 300_000 if big else 0))
    T0 = W.now

    pays = []            # (offset in PAT, size, 'pre'|'post') in write order
    st = dict(total=0, pre_total=0, close_req=False, post=[], states={(-1, 0)}, acc=0, call=None, last='none', ncalls=0,
              partials=0, refusals=0, fatal=None, signalled=False, closed_at=None, after_close=0, viol=False, dead=False,
              nfatal=0, fatal_at=None, first_signalled=False, unsig_bad=None,
              sock=None, connected=False, deferred=False, faults_seen=0, late=0, close_dem=False, ncloses=0, eof=False, disp=0, call_disp=-1, big=st_big, nwrites=0,
              rd_eof=False, eof_pending_calls=None, full_calls=0,
              text=(TXT, TOFF) if text else None, tchar=0)

    def fail(key, detail):
        if not st['viol']:
            st['viol'] = True
            ctx.trace('VIOLATION %s: %s' % (key, detail))
            ctx.violation(key, detail)

    # ---- model of what may be accepted
    def pre_done():
        return all(j >= 0 or k >= st['pre_total'] for j, k in st['states'])

    def offset_of(s):
        j, k = s
        if j < 0:
            return k
        return st['post'][j][0] + k if j < len(st['post']) else st['total']

    def depth():
        return sum(1 for off, size, _ in pays if size and off + size > st['acc'])

    def advance(g):
        """NFA over (PRE in full, then any subsequence of POST payloads): states after accepting chunk g."""
        post, out, seen = st['post'], set(), set()
        work = [(j, k, 0) for j, k in st['states']]
        while work:
            item = work.pop()
            if item in seen:
                continue
            seen.add(item)
            j, k, pos = item
            if pos == len(g):
                out.add((j, k))
                continue
            if j < 0:
                lim = st['pre_total']
                if k < lim:
                    n = min(lim - k, len(g) - pos)
                    if PAT[k:k + n] == g[pos:pos + n]:
                        work.append((-1, k + n, pos + n))
                    continue
                if not st['close_req']:
                    continue            # more bytes accepted than were written
                j, k = 0, 0
            if k == 0:
                for j2 in range(j, len(post)):
                    off, size = post[j2]
                    if size and PAT[off] == g[pos]:
                        n = min(size, len(g) - pos)
                        if PAT[off:off + n] == g[pos:pos + n]:
                            work.append((j2 + 1, 0, pos + n) if n == size else (j2, n, pos + n))
            else:
                off, size = post[j]
                n = min(size - k, len(g) - pos)
                if PAT[off + k:off + k + n] == g[pos:pos + n]:
                    work.append((j + 1, 0, pos + n) if k + n == size else (j, k + n, pos + n))
        return out

    CAUSE = {'transient-errno': 'transient-errno', 'partial-send': 'partial-send'}
    ranges = []          # [start, end) offsets of the written stream that were accepted

    def classify(g, prev):
        exp = min(offset_of(s) for s in st['states'])
        total = st['total']
        d = 0
        while d < len(g) and exp + d < total and g[d] == PAT[exp + d]:
            d += 1
        bad, rest, head = exp + d, bytes(g[d:d + 16]), bytes(g[:16])
        effect, q = None, -1
        # queue entries start at payload starts: where does the chunk that was handed over really belong?
        for off, size, _ in pays:
            L = min(len(head), total - off)
            if off > exp and size and L > 0 and PAT[off:off + L] == head[:L]:
                effect, q = 'payload-lost', off         # something before it was skipped (dropped, or moved behind it)
                break
        if effect is None:
            q = PAT.find(head, 0, exp - 1 + len(head))       # a match that starts before the expected offset
            if q >= 0:      # handed over before -> repeated; a skipped post-close payload turning up later -> reordered
                effect = 'bytes-repeated' if any(a <= q < b for a, b in ranges) else 'reordered'
        if effect is None and bad < total:
            q = PAT.find(rest, bad + 1, total)
            if q >= 0:
                effect = 'bytes-lost'
        if effect is None:
            effect = 'corrupt'
        return ('C11/%s/%s/%s' % (grp, CAUSE.get(prev, 'no-fault'), effect),
                'stream offset %d: the OS was handed %s... (first wrong byte at +%d) = %s (belongs at written offset %d); expected %s...; previous send '
                'outcome: %s; written so far: %s' % (st['acc'], head[:8].hex(), d, effect, q, PAT[exp:exp + 8].hex(), prev,
                                        ['#%d@%d+%d%s' % (i, o, s, '' if ph == 'pre' else '(post-close)') for i, (o, s, ph) in enumerate(pays)][:12]))

    def missing(where):
        """PRE not accepted in full although no fatal error happened."""
        exp = min(offset_of(s) for s in st['states'])
        cause = st['last']
        detail = ('%s: only %d of the %d bytes written before the close request were accepted by the OS (no fatal send error); last send outcome: %s; '
                  'descriptor %s' % (where, exp, st['pre_total'], cause, 'closed at byte %d' % st['closed_at'] if st['closed_at'] is not None else 'open'))
        # a descriptor closed inside the very event dispatch that made the last send call: the endpoint thought its buffer was empty, i.e. the
        # outcome of that send lost the rest; closed by a later event (another close request, EOF, ...): the close did not wait for the buffer
        if cause in CAUSE and (st['closed_at'] is None or st['call_disp'] == st['disp']):
            fail('C11/%s/%s/payload-lost' % (grp, cause), detail)
        elif st['closed_at'] is not None:
            fail('C11/%s/close/before-buffer-flushed' % grp, detail)
        else:
            fail('C11/%s/liveness/not-flushed' % grp, detail)

    # ---- ground-truth callbacks (interposer side)
    def finish_real_error(name):
        c = st['call']
        if c is not None and not c['done']:
            c['done'] = True
            st['last'] = 'transient-errno'
            st['refusals'] += 1
            ctx.stat('real-send-error')
            if name not in ('?', 'EAGAIN', 'EWOULDBLOCK', 'EINTR', 'ENOBUFS') and st['fatal'] is None:
                st['fatal'] = name          # a real fatal errno from the kernel (not expected with a peer that stays open)
            ctx.log('send-real-err', c['n'], name)
            ctx.trace('  send(%d bytes) -> real error %s from the kernel' % (c['n'], name))

    def begin_call(n):
        finish_real_error('?')
        if st['closed_at'] is not None:
            st['after_close'] += 1
        st['call'] = dict(n=n, short=None, done=False)
        st['call_disp'] = st['disp']
        st['ncalls'] += 1

    def end_call_error(name, e, fatal, once=False):
        c = st['call']
        c['done'] = True
        st['last'] = 'fatal-errno' if fatal else 'transient-errno'
        st['faults_seen'] += 1
        ctx.log('send-err', c['n'], name, int(once))
        ctx.trace('  send(%d bytes) -> %s injected (nothing accepted)%s [stream offset %d]' % (c['n'], name, '' if not fatal else (
            '; this call only, later calls may be accepted' if once else '; connection is dead from now on'), st['acc']))
        ctx.state((skind, pname, name + ('-once' if once else ''), min(depth(), 3), st['close_req'], st['rd_eof']))
        if fatal:
            # "a fatal send error is always signalled": every one of them, by an event dispatched after it
            st['nfatal'] += 1
            st['signalled'] = False
            if st['fatal'] is None:
                st['fatal'] = name
                st['fatal_at'] = st['acc']
            if not once:
                st['dead'] = True

    def on_accept(g):
        c = st['call']
        c['done'] = True
        n = c['n']
        if len(g) < n:
            inj = c['short'] is not None and len(g) == c['short']
            outcome, how = 'partial-send', 'injected' if inj else 'real'
            st['partials'] += 1
            if not inj:
                ctx.stat('partial-send-real')
        else:
            outcome, how = 'full-send', ''
            st['full_calls'] += 1       # one payload (or the rest of one) left the endpoint's buffer, empty ones included
        if len(g) == n and n > MIB:
            ctx.stat('payload-over-1MiB-accepted-in-one-send')
        if len(g) >= MIB:
            ctx.stat('accepted-1MiB-or-more-in-one-send')
        prev = st['last']
        if g:                       # an accepted empty send says nothing about what happened to earlier data
            st['last'] = outcome
        ctx.log('send', n, len(g))
        ctx.trace('  send(%d bytes) -> %d accepted%s [stream offset %d]' % (n, len(g), ' (%s partial send)' % how if how else '', st['acc']))
        ctx.state((skind, pname, outcome + how + ('' if st['fatal'] is None else '-after-fatal'), min(depth(), 3), st['close_req'], st['rd_eof']))
        if st['fatal'] is not None:
            # the OS accepted something after a fatal send error (possible when the errno was the outcome of one call only).
            # "... signalled by an error or disconnect event, the bytes accepted up to then being an exact prefix of what was written":
            # judged at the first signal (see ev()); what is accepted after the error has been signalled is not judged (statement silent)
            ctx.stat('accepted-after-fatal')
            if st['first_signalled']:
                ctx.stat('accepted-after-fatal-signalled')
            elif g and st['unsig_bad'] is None:
                new = advance(g)
                if new:
                    st['states'] = new
                else:
                    exp = min(offset_of(s) for s in st['states'])
                    st['unsig_bad'] = ('send raised %s at stream offset %s and no error/disconnect event had been dispatched yet when the OS was handed '
                                       '%d more byte(s) %s... at stream offset %d, which do not continue what was written (expected %s... = written '
                                       'offset %d)' % (st['fatal'], st['fatal_at'], len(g), bytes(g[:8]).hex(), st['acc'], PAT[exp:exp + 8].hex(), exp))
        elif g:
            new = advance(g)
            if not new:
                fail(*classify(g, prev))
            else:
                st['states'] = new
                if any(j >= 0 for j, _ in new):
                    ctx.stat('post-payload-written')
                j, k = min(new)         # where the accepted chunk lies in the written stream (for diagnosis only)
                end = k if j < 0 else (st['post'][j][0] + k if k else sum(st['post'][j - 1]) if j else st['pre_total'])
                if ranges and ranges[-1][1] == end - len(g):
                    ranges[-1][1] = end
                else:
                    ranges.append([end - len(g), end])
        st['acc'] += len(g)

    def on_close():
        if st['closed_at'] is not None:
            return
        st['closed_at'] = st['acc']
        c = st['call']
        if c is not None and not c['done'] and st['fatal'] is None:
            st['fatal'] = 'real-error'      # the last send raised an errno the interposer did not inject and cannot see: do not demand completeness
        ctx.log('closed', st['acc'])
        ctx.trace('  descriptor closed after %d accepted bytes' % st['acc'])
        if st['close_dem']:
            ctx.stat('close-performed')
        # "a close requested while data is still buffered takes effect only after all of it has been written"
        if st['fatal'] is None and not pre_done() and not st['viol']:
            missing('descriptor closed')

    st['begin_call'], st['end_call_error'] = begin_call, end_call_error
    pol = Script(ctx, st, kinds, rate)
    NET.policy = pol

    def oplog(what, sock, data):
        if sock is not st['sock']:
            return
        if what == 'send':
            on_accept(data)
        elif what == 'close':
            on_close()
    NET.oplog = oplog

    def ev(name, *info):
        ctx.log('ev', name, *info)
        ctx.trace('  event %s%s' % (name, info if info else ''))
        # "a fatal send error is always signalled by an error or disconnect event": an event dispatched after the fatal errno was raised;
        # an `error` carrying a transient errno (what the client fires for EAGAIN) does not count
        if st['fatal'] is not None and (name in ('disconnect', 'disconnected', 'closed') or
                                        (name == 'error' and info[0] not in ('EAGAIN', 'EINTR', 'ENOBUFS'))):
            st['signalled'] = True
            if not st['first_signalled']:
                st['first_signalled'] = True
                # "... the bytes accepted up to then being an exact prefix of what was written": up to this, the first signal of the error
                if st['unsig_bad'] is not None:
                    fail('C11/%s/fatal-errno/not-a-prefix-at-signal' % grp, 'at the first event that signals the fatal send error (%s) the %d bytes '
                         'the OS had accepted are not a prefix of what was written: %s' % (name, st['acc'], st['unsig_bad']))

    # ---- the endpoint under test
    class Exc(Component):
        channel = '*'

        def exception(self, etype, *a, **k):        # a handler raised: not judged here (C12/C14), but visible in the log
            ctx.stat('exception-event')
            ev('exception', getattr(etype, '__name__', str(etype)))

    class Disp(BaseComponent):
        @handler(channel='*', priority=1e18)
        def _c11_dispatch(self, event, *a, **k):     # counts event dispatches (only used to word the finding key, see missing())
            st['disp'] += 1

    hold = {}
    if big:
        NET.greedy = lambda sock: hold['peer'].recv() if 'peer' in hold else None    # the remote end drains whenever the kernel buffer is full
    m = make_running(Manager())
    pcls().register(m)
    Exc().register(m)
    Disp().register(m)
    NET.sndbuf = sndbuf
    if grp == 'server':
        addr = ('10.0.0.1', 80) if kind == 'tcpserver' else '/sim/c11.sock'

        class Obs(Component):
            channel = 'server'

            def connect(self, sock, *peer):
                st['sock'] = sock
                ev('connect')

            def error(self, *a):
                ev('error', _errname(a))

            def disconnect(self, sock):
                if sock is st['sock']:
                    ev('disconnect')
                else:
                    ctx.log('ev', 'disconnect-listener')      # close() of the whole server closes the listening socket as well

        (TCPServer if kind == 'tcpserver' else UNIXServer)(addr, bufsize=bufsize).register(m)
        Obs().register(m)
        settle([m])
        peer = Peer()
        if peer.connect(addr) != 0:
            raise HarnessLimit('C11: simulated peer could not connect')
        settle([m])
        hold['peer'] = peer
        chan = 'server'
        fire_write = lambda data: m.fire(NE.write(st['sock'], data), chan)
        fire_close = lambda whole=False: m.fire(NE.close() if whole else NE.close(st['sock']), chan)
        half_close = peer.shutdown_wr
        peer_read = lambda limit: len(peer.recv(limit))
    elif grp == 'client':
        addr = ('10.0.0.2', 7000) if kind == 'tcpclient' else '/sim/c11-peer.sock'
        lst = PeerListener(addr)

        class Obs(Component):
            channel = 'client'

            def connected(self, *a):
                st['connected'] = True
                ev('connected')

            def error(self, *a):
                ev('error', _errname(a))

            def disconnected(self):
                ev('disconnected')

        (TCPClient if kind == 'tcpclient' else UNIXClient)(bufsize=bufsize).register(m)
        Obs().register(m)
        settle([m])
        st['sock'] = NET.socks[-1]
        chan = 'client'
        m.fire(NE.connect(*addr) if kind == 'tcpclient' else NE.connect(addr), chan)
        got = []

        def acc():
            if not got:
                p = lst.accept()
                if p is not None:
                    got.append(p)
                    return True
            return False
        settle([m], each=acc)
        if not got or not st['connected']:
            raise HarnessLimit('C11: client did not connect')
        peer = hold['peer'] = got[0]
        fire_write = lambda data: m.fire(NE.write(data), chan)
        fire_close = lambda whole=False: m.fire(NE.close(), chan)
        half_close = peer.shutdown_wr
        peer_read = lambda limit: len(peer.recv(limit))
    else:
        if rw:
            # a File that is readable too: a real regular file with `nblocks` blocks of initial content (File reads one block of `bufsize`
            # bytes per loop iteration, then EOF), unlinked at once - no name, inode or time of it enters the log.  When the listed finding
            # is avoided the file is empty, so the read side is at EOF before the first write (nothing is pending then).
            nblocks = 0 if K_EOF in ctx.avoid else ch.choice([1, 0, 2, 3, 6, 12, 400], 'file-rw-blocks')
            isize = max(0, nblocks * bufsize - ch.draw(2, 'file-rw-short-last-block'))
            w, path = tempfile.mkstemp(prefix='c11-', dir='/var/tmp')
            os.unlink(path)
            os.ftruncate(w, isize)      # content: zero bytes (what is read is not judged, only how much)
            r = None
            ctx.log('file-rw', isize)
            ctx.trace('File on a regular file opened r+b with %d bytes of content: its read side reports EOF after %d read(s) of %d bytes' % (
                isize, -(-isize // bufsize), bufsize))
            f = RecFile(w, 'r+b', closefd=True)
        else:
            r, w = os.pipe()
            NET.fds.append(r)
            os.set_blocking(r, False)
            if sndbuf:
                fcntl.fcntl(w, F_SETPIPE_SZ, 4096 if sndbuf == 4608 else 16384)
            f = RecFile(w, 'wb', closefd=True)
        NET.track(f)
        f.on_close = on_close
        st['file'] = f
        rd = dict(n=0)

        class Obs(Component):
            channel = 'file'

            def opened(self, *a):
                st['connected'] = True
                ev('opened')

            def error(self, *a):
                ev('error', _errname(a))

            def closed(self):
                ev('closed')

            def read(self, data):
                ctx.stat('file-rw-read')
                ev('read', len(data))

            def eof(self):
                # end-of-file on the read side; the File stays open (+ mode).  Remember whether anything was still owed at that moment
                # and how many write() calls had been made (only used to word the finding key of a later stall)
                owed = max(st['pre_total'] - st['acc'], 0)
                queued = max(len(pays) - st['full_calls'], 0)       # payloads (empty ones too) not yet handed over in full
                close_pending = st['close_dem'] and st['closed_at'] is None
                st['rd_eof'] = True
                if st['closed_at'] is None and st['fatal'] is None and (owed or queued or close_pending):
                    st['eof_pending_calls'] = st['ncalls']
                    st['eof_what'] = '%d payload(s) with %d byte(s) not yet handed to the OS%s' % (queued, owed, ', close deferred' if close_pending else '')
                ev('eof', owed, queued, int(close_pending))

            def write(self, data):      # a write event reached the File (observer next to File's own handler): bytes it has been given
                rwst['given'] += len(data if isinstance(data, bytes) else data.encode('utf-8'))

            def close(self):
                rwst['close'] = True

        rwst = dict(given=0, close=False)

        def at_read_eof():
            # reach probes, at the very moment os.read returned b'' to the File: what did the File hold then?
            ctx.stat('file-rw-eof')
            if st['closed_at'] is None and st['fatal'] is None:
                if rwst['given'] > st['acc']:
                    ctx.stat('file-rw-eof-while-unflushed')
                    if rwst['close']:
                        ctx.stat('file-rw-eof-while-close-deferred')
                if not rwst['given']:
                    ctx.stat('file-rw-eof-before-first-write')
        if rw:
            _FILE['rhook'] = at_read_eof

        def file_write(fd, data):
            if st['dead']:
                if st['closed_at'] is not None:
                    st['after_close'] += 1
                raise OSError(errno.EPIPE, 'simulated: reader is gone')
            act = pol.decide(len(data))
            if act and act[0] == 'err':
                raise OSError(act[1], 'simulated write error')
            if act and act[0] == 'short':
                if act[1] == 0:
                    on_accept(b'')
                    return 0
                data = bytes(data[:act[1]])
            try:
                n = _real_fd_write(fd, data)
            except OSError as e:
                finish_real_error(errno.errorcode.get(e.errno, '?'))
                raise
            if big and n < len(data):       # same model as NET.greedy: the call keeps accepting while the reader drains the pipe
                view, stalls = memoryview(bytes(data)), 0
                while n < len(view) and stalls < 4:
                    try:
                        k = _real_fd_write(fd, view[n:])
                    except BlockingIOError:
                        k = 0
                    if k:
                        n, stalls = n + k, 0
                    else:
                        stalls += 1
                        peer_read(1 << 40)
            on_accept(bytes(data[:n]))
            return n
        _FILE['hook'] = file_write
        File(f, bufsize=bufsize).register(m)
        Obs().register(m)
        if rw:
            for _ in range(30):     # not settle(): a readable regular file is never quiet before EOF, and when EOF comes is part of the script
                if st['connected']:
                    break
                step(m)
        else:
            settle([m])
        if not st['connected']:
            raise HarnessLimit('C11: File did not open')
        chan = 'file'
        fire_write = lambda data: m.fire(IE.write(data), chan)
        fire_close = lambda whole=False: m.fire(IE.close(), chan)
        half_close = None

        def peer_read(limit):
            n = 0
            while r is not None and n < limit:
                try:
                    d = os.read(r, min(65536, limit - n))
                except BlockingIOError:
                    break
                if not d:
                    break
                n += len(d)
            rd['n'] += n
            return n
    if st['sock'] is None and grp != 'file':
        raise HarnessLimit('C11: no connection was established')
    try:
        _drive(ctx, st, pays, PAT, m, kind, grp, fire_write, fire_close, half_close, peer_read, pol, pre_done, missing, fail, finish_real_error)
    finally:
        NET.oplog = None            # NET.close_all() closing the descriptors is not part of the history
        if grp == 'file':
            st['file'].on_close = None
    if rw and not st['rd_eof']:
        ctx.stat('file-rw-no-eof')
    ctx.sim_time = W.now - T0
    if not st['viol'] and st['fatal'] is None and grp != 'file' and st['closed_at'] is not None:
        # conformance of the stand-ins: what the peer received is what the interposer says the OS accepted
        peer.recv()
        if bytes(peer.inp) != bytes(st['sock'].sim_sent) or len(peer.inp) != st['acc']:
            raise RuntimeError('C11 harness: peer received %d bytes, interposer recorded %d, model %d' % (len(peer.inp), len(st['sock'].sim_sent), st['acc']))


def _drive(ctx, st, pays, PAT, m, kind, grp, fire_write, fire_close, half_close, peer_read, pol, pre_done, missing, fail, finish_real_error):
    ch, cfg = ctx.ch, ctx.cfg
    ALL = 1 << 40

    def gone():
        return st['closed_at'] is not None or st['fatal'] is not None

    def do_write():
        if gone():
            if st['late'] >= 2:
                return do_step()
            st['late'] += 1
            ctx.stat('write-after-closed')
        bigp = st['big']
        st['nwrites'] += 1
        c = ch.weighted([4, 2, 1, 2, 2, 0 if bigp else 2, 0 if bigp else cfg['large_w']], 'size-class')
        if bigp and not bigp['done'] and st['nwrites'] > bigp['at'] and not gone():
            bigp['done'] = True
            c = -1
            size = bigp['size']
            ctx.stat('payload-over-1MiB')
        elif c == 0:
            size = ch.randint(2, 64, 'size')
        elif c == 1:
            size = 1
        elif c == 2:
            size = 0
        elif c == 3:
            size = ch.choice([4096, 4095, 4097, 8192, 8193], 'size')
        elif c == 4:
            size = ch.choice([4608, 4607, 4609, 2304, 9216, 9217], 'size')
        elif c == 5:
            size = ch.randint(10_000, 40_000, 'size')
        else:
            size = ch.randint(cfg['large'][0], cfg['large'][1], 'size')
        if c >= 0 and st['total'] + size > cfg['max_total']:
            size = min(size, 7)
        payload = None
        if st['text']:
            # `size` counts characters here; the stream offsets the oracle works with are byte offsets of the encoded text
            txt, toff = st['text']
            c0 = st['tchar']
            if c0 + size > len(txt) - 8:
                size = min(size, 7, len(txt) - c0)
            payload = txt[c0:c0 + size]
            st['tchar'] = c0 + size
            assert st['total'] == toff[c0]
            size = toff[c0 + size] - toff[c0]
        off = st['total']
        phase = 'post' if st['close_req'] else 'pre'
        pays.append((off, size, phase))
        st['total'] += size
        if phase == 'pre':
            st['pre_total'] = st['total']
        else:
            st['post'].append((off, size))
            ctx.stat('write-after-close-request')
        if size == 0:
            ctx.stat('payload-empty')
        elif size >= 60_000:
            ctx.stat('payload-large')
        if size:
            st['nonempty'] = st.get('nonempty', 0) + 1
        if st['rd_eof'] and not gone():
            ctx.stat('file-rw-write-after-eof')
        ctx.log('write', len(pays) - 1, off, size, phase)
        ctx.trace('write #%d: %d bytes (stream offset %d)%s' % (len(pays) - 1, size, off, ' [after the close request]' if phase == 'post' else ''))
        fire_write(PAT[off:off + size] if payload is None else payload)

    def unflushed():
        return max(st['pre_total'] - st['acc'], 0)

    def do_close(form=None):
        """A close request.  The first one splits the written data into PRE / POST; every further one (another close event, close() of the
        whole server, the peer's half-close = EOF on the read side) must change nothing: PRE is still owed in full."""
        first = not st['close_req']
        if form is None:
            forms = ['event'] + (['all'] if grp == 'server' else []) + (['eof'] if half_close is not None and not st['eof'] else [])
            wt = dict(event=6, all=2, eof=2) if first else dict(event=3, all=3, eof=3)
            form = forms[ch.weighted([wt[f] for f in forms], 'close-form')] if len(forms) > 1 else forms[0]
        pending = unflushed() > 0 and not gone()
        if form == 'eof':
            # the peer shuts down its sending direction only: the endpoint reads EOF (and closes itself), the other direction stays open,
            # so everything written before must still arrive.  Nothing is demanded of writes that follow, and no close is demanded by it.
            st['eof'] = True
            st['close_req'] = True
            ctx.stat('eof-before-close' if first else ('eof-while-close-deferred' if pending else 'eof-after-close'))
            ctx.log('peer-half-close', st['pre_total'], st['acc'])
            ctx.trace('peer half-closes (shutdown of its sending side): endpoint will read EOF; %d of %d written bytes not yet accepted by the OS' % (
                unflushed(), st['pre_total']))
            half_close()
            return
        st['close_req'] = True
        st['ncloses'] += 1
        if not st['close_dem']:
            st['close_dem'] = True
            if pending:
                st['deferred'] = True
                ctx.stat('close-deferred')
            else:
                ctx.stat('close-immediate')
        elif not gone():
            ctx.stat('repeated-close')
            if pending:
                ctx.stat('repeated-close-while-deferred')
        if form == 'all' and pending and not first:
            ctx.stat('close-all-while-deferred')
        ctx.log('close-request', form, st['pre_total'], st['acc'])
        ctx.trace('close requested%s%s (%d of %d bytes written before the first close request not yet accepted by the OS)' % (
            ' for the whole server' if form == 'all' else '', '' if first else ' again', unflushed(), st['pre_total']))
        fire_close(form == 'all')

    def do_step():
        k = ch.choice([1, 2, 1, 3, 6], 'steps')
        ctx.log('step', k)
        ctx.trace('loop runs %d iteration(s)' % k)
        for _ in range(k):
            if st['viol']:
                break
            step(m)

    def do_read():
        limit = ch.choice([ALL, 1, 100, 4096, 65536], 'read-limit')
        n = peer_read(limit)
        ctx.log('peer-read', n)
        ctx.trace('peer reads %d byte(s)%s' % (n, '' if limit == ALL else ' (limit %d)' % limit))

    nops = ch.randint(3, cfg['max_ops'], 'nops')
    for _ in range(nops):
        if st['viol']:
            break
        if gone() and st['late'] >= 2:
            break               # the endpoint is gone and two late writes were tried: nothing more to learn from this script
        # one explicit close request at a drawn position; after it (or after the peer's half-close) further close requests at drawn positions
        op = ch.weighted([6, 3, 2, 1 if not st['close_req'] else (3 if st['ncloses'] < 4 and not gone() else 0)], 'op')
        (do_write, do_step, do_read, do_close)[op]()

    # ---- the loop keeps running with the fault script still active and the peer reading now and then
    nfd = ch.choice([0, 3, 8, 20, 40], 'faulty-iterations') if pol.kinds else 0
    if nfd and not st['viol']:
        ctx.log('faulty-drain', nfd)
        ctx.trace('loop runs up to %d iteration(s), peer reads at drawn moments' % nfd)
        for _ in range(nfd):
            if st['viol'] or gone():
                break
            if ch.chance(1, 2, 'drain-read?'):
                peer_read(ALL)
            step(m)

    # ---- final phase: faults stop, the peer drains before every iteration; bounded liveness
    pol.enabled = False
    if not st['viol'] and not st['close_dem'] and ch.chance(1, 2, 'close-at-end'):
        do_close('event')
    ctx.trace('faults stop; peer drains before every loop iteration')
    base = st['partials'] + st['refusals']
    it = 0
    while not st['viol']:
        if st['fatal'] is not None:
            done = st['signalled']
        else:
            done = pre_done() and (not st['close_dem'] or st['closed_at'] is not None)
        if done:
            break
        bound = 2 * (len(pays) + st['partials'] + st['refusals'] - base) + 10
        if it >= bound:
            finish_real_error('?')
            where = 'not flushed after %d loop iterations with a draining peer and no faults (bound: 2 x (%d payloads + %d partial sends) + 10)' % (
                it, len(pays), st['partials'] + st['refusals'] - base)
            if st['fatal'] is None and st['closed_at'] is None and st['eof_pending_calls'] == st['ncalls']:
                # the read side of a File reported EOF while data / a close was pending and the File has not made a single write() call since
                fail(K_EOF, 'the read side of the File reached end-of-file (the File stays open: + mode) with %s; since then the File made no write() '
                     'call at all%s: %s' % (st['eof_what'], '' if not st['close_dem'] else ' and the requested close did not happen', where))
            elif st['fatal'] is not None:
                # "a fatal send error is always signalled by an error or disconnect event"
                fail('C11/%s/fatal-errno/not-signalled' % grp, 'send raised %s but no error/disconnect/disconnected/closed event within %d iterations' % (st['fatal'], it))
            elif not pre_done():
                missing(where)
            else:
                fail('C11/%s/liveness/close-not-performed' % grp, 'everything written was accepted but the requested close did not happen: ' + where)
            break
        peer_read(ALL)
        step(m)
        it += 1
    ctx.log('final', it)
    if not st['viol']:
        for _ in range(3):      # anything written after it was all over?
            peer_read(ALL)
            step(m)
        finish_real_error('?')
        if st['fatal'] is not None:
            ctx.stat('fatal-signalled')
        elif pre_done():
            ctx.stat('flushed-in-full')
    if not st['viol']:
        # "nothing is written after the endpoint has closed"
        n_after = st['after_close'] if grp == 'file' else st['sock'].sim_send_after_close
        if n_after:
            fail('C11/%s/write-after-close' % grp, '%d send()/write() call(s) on the descriptor after it was closed' % n_after)
    ctx.trace('end: %d bytes accepted of %d written before / %d after the close request; closed_at=%s fatal=%s' % (
        st['acc'], st['pre_total'], st['total'] - st['pre_total'], st['closed_at'], st['fatal']))
    ctx.log('end', st['acc'], st['pre_total'], st['total'], -1 if st['closed_at'] is None else st['closed_at'], st['fatal'] or '')
    ctx.nontrivial = bool(st.get('nonempty', 0) >= 2 and st['acc'] > 0 and (st['partials'] or st['faults_seen'] or st['refusals'] or st['deferred']))
