"""C10 — pollers report exactly the registered-and-ready descriptors, to the registering component's channel; all three agree.

Engine: SimNet with the real kernel.  A run draws ONE history over a pool of <= 5 real AF_UNIX socket pairs (socket.socketpair(), not
through circuits): registration operations on the poller-side end (addReader / addWriter - for a role not held, and AGAIN for a role that is
already held, by the same source component or by another one -, removeReader / removeWriter, discard, late discard of a closed
descriptor), life-cycle operations (close WITHOUT discard, discard + close, open a new pair - the kernel
hands out the lowest free number again) and readiness operations driven from the other end (peer writes -> readable, the application
drains -> not readable, fill the send buffer -> not writable, peer drains -> writable again, peer shuts down / closes -> hang-up).
The same history is executed under Select, Poll and EPoll (fresh manager and sockets each time, so descriptor numbers repeat).

After every operation the loop runs one zero-timeout iteration (simnet.step) and the events the poller FIRES in it are collected at fire
time through the poller instance's `fire` attribute (a readiness event queued before a later remove... is still dispatched one pass
later: latency, not a wrong report).

Oracle, per iteration and per descriptor object (statement clauses quoted):
  * "emits a read (write) readiness event for a descriptor iff it is currently registered for reading (writing) and actually readable
    (writable)": ground truth is asked from the kernel with the real select.select([fd],[fd],[],0) per live descriptor just before the
    iteration; events outside registered-and-ready are flagged at once (C10/unexpected/...); an expected event that is absent may come one
    iteration later (ONE grace iteration per operation: Select spends an iteration on cleaning up after a closed descriptor; iterations
    whose poll call was interrupted by an injected EINTR do not count), after that it is a violation (C10/missing/...);
  * "addressed to the channel of the component that registered it" (C10/channel/...); when several components added the descriptor (repeated
    add by another source) the channel of any of them is accepted;
  * repeated add: the registration model is the SET the statement talks about ("currently registered for reading"): a role is held after
    any number of addReader / addWriter calls until ONE removeReader / removeWriter / discard; a readiness event for a role that was given
    up after having been added more than once gets its own shape (C10/unexpected/<event>/duplicate-add-then-<discard|remove>: the common
    BasePoller bookkeeping decides it, so the key does not name the poller);
  * "Discarded or closed descriptors produce no further events even when their number is reused by a new descriptor": no event may name
    a discarded object; for an object closed WITHOUT discard no _read/_write may name it (C10/closed/<state of the object>/<poller>);
  * deliberate, narrow relaxation: for a descriptor whose peer has hung up or reset, `_disconnect` in place of the readiness events is
    accepted (Poll/EPoll report HUP, Select cannot); once a poller has reported `_disconnect` for it, it may stay silent about it (it
    discards the descriptor itself).  The relaxation stops at pending DATA: while the kernel (FIONREAD) reports unread bytes on a
    descriptor that is registered for reading, `_read` must be fired and a `_disconnect` is a violation
    (C10/unexpected/_disconnect/hung-up-but-data-pending/...), because that descriptor is "registered for reading and actually
    readable"; only EOF / reset without data may be turned into a `_disconnect`.  Nothing else is relaxed;
  * "the three pollers are interchangeable": the final per-operation event sets of descriptors that are not hung up are compared
    between the pollers (C10/pollers-disagree/...).  The component-level clause (same connect/read/disconnect stream) is decided by C12.
"""
import fcntl
import select as _rselect      # the REAL module (circuits.core.pollers sees a shim)
import socket as _socket
import struct
import termios

from simcore import world, simnet
from simcore.world import W
from simcore.simnet import NET, step, make_running
from simcore.runner import HarnessLimit

from circuits import Manager, Component
from circuits.core.pollers import Select, Poll, EPoll

ID = 'C10'
LEVEL = 'exploration'
ENGINE = 'SimNet'
LEVEL_TEXT = ('seeded exploration of registration / life-cycle / readiness histories over a pool of real socket pairs, each history executed on the real '
              'Select, Poll and EPoll over the real kernel (zero-timeout shim); every loop iteration is judged against registered AND kernel-reported '
              'readiness; sampling, not proof')
LEVEL_NOTE = ('trusted: select.select([fd],[fd],[],0) as ground truth of readiness, the kernel handing out the lowest free descriptor number, the fire-time '
              'observation through the poller instance\'s `fire` attribute; one grace iteration for a missing event')
RULE = ('each run = one history of <= 5 socket pairs x operations drawn from the tape, executed under each poller; non-trivial = under every executed poller at '
        'least 3 iterations had a non-empty expected event set AND the history contains a remove/discard/close of a registered descriptor; '
        'distinct = digest of the operation + per-iteration event log')
STATE_MEASURE = '(poller, roles held, readable, writable, peer hung up, last registration op) per live descriptor per iteration; (poller, closed-descriptor state) per reuse'
REAL = ['circuits.core.pollers.BasePoller/Select/Poll/EPoll (addReader, addWriter, removeReader, removeWriter, discard, _updateRegistration, _generate_events, _process)',
        'circuits.core.manager.Manager.tick', 'Linux AF_UNIX socket pairs, select/poll/epoll, descriptor allocation']
STUBBED = ['select module inside circuits.core.pollers -> zero-timeout shim that can raise EINTR', 'the components owning the descriptors are dummies that only carry a channel']
ASSUMPTIONS = ['the two roles of a descriptor are registered by one source component at a time (the statement does not define per-role owners)',
               'a role is held after any number of adds until one remove / discard (set model; the statement says "currently registered", it does not count adds); '
               'after a repeated add by ANOTHER component the events may be addressed to the channel of either component',
               'an expected event may be one loop iteration late (never more); EINTR iterations report nothing',
               'for a descriptor closed without discard a `_disconnect` naming it is accepted (Poll notices POLLNVAL that way); _read/_write are not',
               'after the peer hung up: `_disconnect` instead of readiness is accepted, and silence after a reported `_disconnect` - except while unread data is pending '
               'on a descriptor registered for reading (then _read is demanded and _disconnect forbidden); a descriptor registered ONLY for writing may be '
               'disconnected on hang-up even with unread input (the poller was not asked about its readability)',
               '`_error` events are not judged; an exception out of discard() of a descriptor that was closed earlier without discard is not judged either (not an event)']
PROBES = ['expected-read', 'expected-write', 'hup-with-unread-data', 'peer-writes-then-closes', 'not-writable-buffer-full', 'remove-one-role-other-stays', 're-add-after-discard', 'duplicate-add-same-source', 'duplicate-add-other-source',
          'remove-after-duplicate-add', 'discard-after-duplicate-add', 'close-without-discard',
          'fault:fd_reuse', 'fd-reuse-of-registered-closed', 'fault:peer_close', 'fault:poll_eintr', 'hup-disconnect-accepted', 'late-discard',
          'grace-iteration', 'pollers-compared', 'cfg:Select', 'cfg:Poll', 'cfg:EPoll']
TIERS = {
    'quick': dict(runs=40000, wall=30, chunk=25, cfg=dict(max_ops=16)),
    'thorough': dict(runs=400000, wall=600, chunk=200, cfg=dict(max_ops=40)),
}

POLLERS = [Select, Poll, EPoll]
NSLOTS = 5
NSRC = 3
OPS = ['addReader', 'addWriter', 'removeReader', 'removeWriter', 'discard', 'close', 'discard_close', 'peer_write', 'drain', 'fill', 'peer_drain',
       'peer_close', 'peer_shut', 'late_discard', 'idle', 'peer_reset', 'reopen', 'peer_write_close', 'add_again']
WEIGHTS = [8, 7, 4, 4, 3, 3, 2, 6, 3, 2, 2, 2, 1, 2, 2, 1, 3, 3, 4]
AVOID_CLOSE = 'closed-without-discard'      # marker inside keys of findings triggered by closing a registered descriptor without discard
AVOID_DUP = 'duplicate-add'                 # marker inside keys of findings triggered by adding a role that is already held
ROLE_OF = {'_read': 'reader', '_write': 'writer'}


class Stop(Exception):
    pass


class EintrPolicy(simnet.NoFaults):
    def __init__(self, ctx, rate):
        self.ctx = ctx
        self.rate = rate
        self.fired = False
        self.calls = 0

    def on_poll(self, kind):
        # only the first poll call of a loop iteration (the wait in _generate_events) can be interrupted; Select's zero-timeout probes of single
        # descriptors (_preenDescriptors) come later in the same iteration and never sleep, so they cannot see EINTR
        self.calls += 1
        if self.calls == 1 and self.rate and self.ctx.ch.chance(1, self.rate, 'fault?poll_eintr'):
            self.ctx.stat('fault:poll_eintr')
            self.fired = True
            return True
        return False


def unread_bytes(sock):
    """Bytes waiting in the descriptor's receive queue, asked from the kernel with FIONREAD.  (Deliberately not recv(MSG_PEEK): on an empty
    queue that would consume a pending ECONNRESET and so change what the pollers see.)"""
    try:
        return struct.unpack('i', fcntl.ioctl(sock.fileno(), termios.FIONREAD, b'\0\0\0\0'))[0]
    except OSError:
        return 0


class Src(Component):
    """dummy owner of descriptors: only its channel matters"""


def gen_plan(ch, cfg):
    plan = dict(order=ch.permute([0, 1, 2], 'poller-order'), eintr=ch.choice([0, 0, 6, 3], 'eintr-rate'))
    ops = []
    for _ in range(ch.randint(3, cfg['max_ops'], 'nops')):
        k = ch.weighted(WEIGHTS, 'op')
        ops.append((OPS[k], ch.draw(NSLOTS, 'slot'), ch.draw(NSRC, 'source'), ch.chance(1, 2, 'close-peer-too')))
    plan['ops'] = ops
    return plan


def run_history(ctx, plan, P, avoid_close, avoid_dup=False):
    simnet.reset(ctx)
    name = P.__name__
    ctx.stat('cfg:' + name)
    ctx.log('sub', name)
    lines = []
    pol = EintrPolicy(ctx, plan['eintr'])
    NET.policy = pol
    m = make_running(Manager())
    poller = P().register(m)
    srcs = [Src(channel='src%d' % i).register(m) for i in range(NSRC)]
    fired = []
    res = dict(name=name, lines=lines, failed=False, finals=[], busy=0, t0=W.now)

    real_fire = poller.fire

    def spy(event, *channels, **kw):        # instance attribute: observes at fire time without touching the class
        fired.append((event.name, event.args[0] if event.args else None, channels))
        return real_fire(event, *channels, **kw)
    poller.fire = spy

    def tr(fmt, *a):
        if ctx.keep_trace:
            lines.append('[%s] %s' % (name, fmt % a if a else fmt))

    def fail(key, detail):
        res['failed'] = True
        tr('VIOLATION %s: %s', key, detail)
        ctx.violation(key, '%s: %s' % (name, detail))
        raise Stop()

    for _ in range(4):
        step(m)
    del fired[:]

    slots = [None] * NSLOTS
    descs = []           # every descriptor object ever handed to the poller side, live or dead
    numbers = {}         # fd number -> last descriptor record that had it

    def dname(d):
        return 'd%d(fd %d)' % (d['ord'], d['no'])

    def open_pair(i):
        a, b = _socket.socketpair()
        NET.track(a)
        NET.track(b)
        a.setblocking(False)
        b.setblocking(False)
        a.setsockopt(_socket.SOL_SOCKET, _socket.SO_SNDBUF, 4608)
        d = dict(ord=len(descs), a=a, b=b, no=a.fileno(), reader=False, writer=False, src=None, hup=False, shut=False, disc_reported=False, pending=0, state='live',
                 lastop='open', was_registered=False, discarded=False, srcs=[], last_src=None, dup=dict(reader=0, writer=0), gave_up={})
        descs.append(d)
        slots[i] = d
        old = numbers.get(d['no'])
        if old is not None:
            ctx.stat('fault:fd_reuse')
            if old['state'] == 'closed' and old['was_registered'] and not old['discarded']:
                ctx.stat('fd-reuse-of-registered-closed')
                old['reused'] = True
            ctx.state((name, 'reuse', old['state'], old['was_registered'], old['discarded']))
        for x in descs:
            if x is not d and x['no'] in (d['no'], b.fileno()):      # either end of the new pair may have been given the number
                x['reused'] = True
        numbers[d['no']] = d
        tr('slot %d: new pair, poller side is %s%s', i, dname(d), ' - number last used by d%d (%s%s)' % (
            old['ord'], old['state'], ', registered when closed, never discarded' if old.get('was_registered') and not old['discarded'] else '') if old else '')
        ctx.log('open', i, d['ord'], old['ord'] if old else -1)      # (never the descriptor number itself: it depends on the hosting process)

    def registered(d):
        return d['reader'] or d['writer']

    def close_desc(i, d, peer_too):
        d['was_registered'] = registered(d)
        d['state'] = 'closed'
        d['a'].close()
        if peer_too:
            d['b'].close()
        slots[i] = None

    def note_discard(d):
        for role in ('reader', 'writer'):
            if d[role] and d['dup'][role]:
                ctx.stat('discard-after-duplicate-add')
                d['gave_up'][role] = 'discard'

    def dup_shape(d, evname):
        """('duplicate-add-then-discard' / '...-remove', role) when `evname` is about a role that is not held any more but had been added more than once
        (a _disconnect: about a descriptor that holds no role any more)"""
        roles = [ROLE_OF[evname]] if evname in ROLE_OF else [] if registered(d) else ['reader', 'writer']
        for role in roles:
            if not d[role] and d['gave_up'].get(role):
                return '%s-then-%s' % (AVOID_DUP, d['gave_up'][role]), role
        return None

    def do(no, op):
        kind, i, si, peer_too = op
        d = slots[i]
        ctx.log('op', no, kind, i, si)
        if kind == 'late_discard':
            dead = [x for x in descs if x['state'] == 'closed' and x['was_registered'] and not x['discarded']]
            if dead:
                x = dead[-1]
                tr('discard(%s) - the descriptor was closed earlier without discard', dname(x))
                ctx.stat('late-discard')
                try:
                    poller.discard(x['a'])
                except ValueError as e:
                    # not judged (the statement is about events): Poll / EPoll refuse to register a closed object again when they think a role is left
                    ctx.stat('late-discard-raised')
                    tr('    (discard raised %s: %s)', type(e).__name__, e)
                x['discarded'] = x['late'] = True
                return
        if d is None:
            open_pair(i)
            return
        a, b = d['a'], d['b']
        if kind == 'add_again':             # repeat the add of a role the descriptor holds (a plain addReader when it holds none)
            kind = 'addWriter' if d['writer'] and (not d['reader'] or peer_too) else 'addReader'
        if kind in ('addReader', 'addWriter'):
            role = 'reader' if kind == 'addReader' else 'writer'
            if d[role]:
                # repeated add of a role that is held: by the source drawn with the operation (the holder or another component)
                if avoid_dup:
                    return tr('(%s: %s already held by %s)', kind, role, dname(d))
                ctx.stat('duplicate-add-same-source' if si == d['last_src'] else 'duplicate-add-other-source')
                getattr(poller, kind)(srcs[si], a)
                d['dup'][role] += 1
                if si not in d['srcs']:
                    d['srcs'].append(si)
                d['last_src'] = si
                d['lastop'] = kind + '-again'
                return tr('%s(src%d, %s) AGAIN - %s already held (added by %s)', kind, si, dname(d), role, '/'.join('src%d' % x for x in d['srcs']))
            if not registered(d):
                d['src'] = si                       # one source per descriptor at a time
                d['srcs'] = []
                if d['discarded']:
                    ctx.stat('re-add-after-discard')
            getattr(poller, kind)(srcs[d['src']], a)
            if d['src'] not in d['srcs']:
                d['srcs'].append(d['src'])
            d['last_src'] = d['src']
            d[role] = True
            d['gave_up'].pop(role, None)
            d['discarded'] = False
            d['lastop'] = kind
            tr('%s(src%d, %s)', kind, d['src'], dname(d))
        elif kind in ('removeReader', 'removeWriter'):
            role = 'reader' if kind == 'removeReader' else 'writer'
            if d[role] and d['writer' if role == 'reader' else 'reader']:
                ctx.stat('remove-one-role-other-stays')
            if d[role] and d['dup'][role]:
                ctx.stat('remove-after-duplicate-add')
                d['gave_up'][role] = 'remove'
            getattr(poller, kind)(a)
            tr('%s(%s)%s', kind, dname(d), '' if d[role] else ' - role not held')
            d[role] = False
            d['lastop'] = kind
        elif kind == 'discard':
            note_discard(d)
            poller.discard(a)
            tr('discard(%s)', dname(d))
            d['reader'] = d['writer'] = False
            d['discarded'] = True
            d['lastop'] = kind
        elif kind in ('close', 'discard_close', 'reopen'):
            if kind == 'discard_close' or (avoid_close and registered(d)):
                note_discard(d)
                poller.discard(a)
                d['reader'] = d['writer'] = False
                d['discarded'] = True
                tr('discard(%s) and close it%s', dname(d), ' (peer end too)' if peer_too else '')
            else:
                if registered(d):
                    ctx.stat('close-without-discard')
                tr('close %s WITHOUT discard (%s)%s', dname(d), 'registered: ' + '+'.join(r for r in ('reader', 'writer') if d[r]) if registered(d) else 'not registered',
                   ' (peer end too)' if peer_too else '')
            close_desc(i, d, peer_too)
            if kind == 'reopen':            # fault kind fd_reuse: the number is handed out again before the poller had an iteration to notice
                open_pair(i)
        elif kind == 'peer_write':
            if not d['hup'] and not d['shut']:
                try:
                    b.send(b'x' * (1 + si * 700))
                    tr('peer of %s writes %d bytes', dname(d), 1 + si * 700)
                except OSError:
                    pass
        elif kind == 'drain':
            try:
                while a.recv(65536):
                    pass
            except OSError:
                pass
            tr('application drains %s', dname(d))
        elif kind == 'fill':
            n = 0
            try:
                while True:
                    n += a.send(b'y' * 4096)
            except OSError:
                pass
            tr('application fills the send buffer of %s (%d bytes)', dname(d), n)
        elif kind == 'peer_drain':
            if not d['hup']:
                try:
                    while b.recv(65536):
                        pass
                except OSError:
                    pass
                tr('peer of %s drains', dname(d))
        elif kind == 'peer_write_close':
            if not d['hup']:
                n = 1 + si * 5000
                try:
                    if not d['shut']:
                        b.send(b'z' * n)
                except OSError:
                    n = 0
                b.close()
                d['hup'] = True
                ctx.stat('fault:peer_close')
                ctx.stat('peer-writes-then-closes')
                tr('peer of %s writes %d bytes and closes before the next iteration', dname(d), n)
        elif kind in ('peer_close', 'peer_reset'):
            if not d['hup']:
                if kind == 'peer_close':
                    try:
                        while b.recv(65536):
                            pass
                    except OSError:
                        pass
                b.close()
                d['hup'] = True
                ctx.stat('fault:peer_close')
                tr('peer of %s closes%s', dname(d), '' if kind == 'peer_close' else ' without reading what is pending (reset if any)')
        elif kind == 'peer_shut':
            if not d['hup'] and not d['shut']:
                b.shutdown(_socket.SHUT_WR)
                d['shut'] = True
                tr('peer of %s shuts down its write side', dname(d))
        elif kind == 'idle':
            tr('(no operation)')

    def expected():
        """registered AND ready, per live descriptor: {ord: set of event names}"""
        exp = {}
        for d in slots:
            if d is None or not registered(d):
                continue
            r, w, _ = _rselect.select([d['a']], [d['a']], [], 0)
            e = set()
            if d['reader'] and r:
                e.add('_read')
            if d['writer'] and w:
                e.add('_write')
            if d['writer'] and not w:
                ctx.stat('not-writable-buffer-full')
            exp[d['ord']] = e
            d['pending'] = unread_bytes(d['a']) if d['hup'] else 0
            if d['hup'] and d['reader'] and d['pending']:
                ctx.stat('hup-with-unread-data')
            ctx.state((name, d['reader'], d['writer'], bool(r), bool(w), d['hup'], bool(d['pending']), d['lastop']))
        return exp

    def observe(no):
        grace = 1
        for attempt in range(16):
            exp = expected()
            del fired[:]
            pol.fired = False
            pol.calls = 0
            step(m)
            got = {}
            for evname, obj, chans in fired:
                if evname == '_error':
                    continue
                d = next((x for x in descs if x['a'] is obj), None)
                if d is None:
                    fail('C10/unexpected/%s/foreign-object/%s' % (evname, name), 'the poller fired %s for %r, which is not a descriptor of the pool' % (evname, obj))
                ctx.log('ev', no, evname, d['ord'], ','.join(c if isinstance(c, str) else type(c).__name__ for c in chans))
                tr('    fired: %s(%s) -> %r', evname, dname(d), chans)
                if d['state'] == 'closed':
                    # "Discarded or closed descriptors produce no further events even when their number is reused by a new descriptor"
                    if not d['discarded'] and d['was_registered'] and evname == '_disconnect':
                        continue        # the poller noticing that a registered descriptor was closed under it (accepted, see ASSUMPTIONS)
                    what = ('%s-then-discarded' % AVOID_CLOSE if d.get('late') else 'closed-after-discard' if d['discarded'] else AVOID_CLOSE if d['was_registered']
                            else 'closed-unregistered') + ('-number-reused' if d.get('reused') else '')
                    fail('C10/closed/%s/%s' % (what, name), '%s fired for %s, which is %s%s' % (
                        evname, dname(d), what, ' (its number has been handed out again%s)' % (
                            ' to %s' % dname(numbers[d['no']]) if numbers[d['no']] is not d else ' to the peer end of a new pair') if d.get('reused') else ''))
                stale = dup_shape(d, evname)
                if stale:
                    # "iff it is currently registered for reading (writing)" / "Discarded ... descriptors produce no further events": one remove / discard ends
                    # the registration however often the role was added
                    fail('C10/unexpected/%s/%s' % (evname, stale[0]), '%s fired for %s (addressed to %s): the %s role was added %d times and then given up by one %s; '
                         'the descriptor is %s' % (evname, dname(d), ', '.join('the Manager object' if c is m else repr(c) for c in chans), stale[1],
                                                  1 + d['dup'][stale[1]], d['gave_up'][stale[1]],
                                                  'registered as ' + '+'.join(r for r in ('reader', 'writer') if d[r]) if registered(d) else 'not registered at all'))
                if not registered(d):
                    what = 'discarded' if d['discarded'] and d['lastop'] == 'discard' else 'not-registered-after-%s' % d['lastop']
                    fail('C10/unexpected/%s/%s/%s' % (evname, what, name), '%s fired for %s, which is %s' % (evname, dname(d), what))
                if evname == '_disconnect':
                    if not d['hup']:
                        fail('C10/unexpected/_disconnect/peer-not-hung-up/%s' % name, '_disconnect fired for %s whose peer is still there' % dname(d))
                    if d['reader'] and d['pending']:
                        # the relaxation ends where data is pending: registered for reading AND readable (unread bytes, not just EOF) => _read, not a goodbye
                        fail('C10/unexpected/_disconnect/hung-up-but-data-pending/%s' % name, '_disconnect fired for %s (and the poller forgets it) although it is registered for '
                             'reading and %d unread bytes are still pending in the kernel: the peer has hung up, but the descriptor is still readable' % (dname(d), d['pending']))
                    d['disc_reported'] = True
                    ctx.stat('hup-disconnect-accepted')
                elif evname not in exp.get(d['ord'], ()):
                    role = 'reader' if evname == '_read' else 'writer'
                    why = ('not-registered-as-%s-after-%s' % (role, d['lastop'])) if not d[role] else 'registered-but-not-ready'
                    fail('C10/unexpected/%s/%s/%s' % (evname, why, name), '%s fired for %s: roles held %s, kernel says %s' % (
                        evname, dname(d), '+'.join(r for r in ('reader', 'writer') if d[r]) or 'none', sorted(exp.get(d['ord'], ())) or 'not ready'))
                if evname in got.get(d['ord'], ()):
                    again = d['dup'].get(ROLE_OF.get(evname))      # (Select hands a list with the descriptor in it twice to the kernel: own shape)
                    fail('C10/duplicate/%s/%s%s' % (evname, 'after-%s/' % AVOID_DUP if again else '', name), '%s fired twice for %s in one iteration%s' % (
                        evname, dname(d), ' (the %s role was added %d times)' % (ROLE_OF[evname], 1 + again) if again else ''))
                got.setdefault(d['ord'], []).append(evname)
                # "addressed to the channel of the component that registered it"
                want = [srcs[x].channel for x in d['srcs']]      # more than one only after a repeated add by another component: either is accepted
                if len(chans) != 1 or chans[0] not in want:
                    fail('C10/channel/%s/after-%s/%s' % (evname, d['lastop'], name), '%s for %s (registered by %s) was addressed to %r instead of %s' % (
                        evname, dname(d), '/'.join('src%d' % x for x in d['srcs']), chans, ' or '.join(repr(w) for w in want)))
            if pol.fired:
                tr('    (poll call interrupted: EINTR)')
                continue
            missing = []
            for d in slots:
                if d is None or not registered(d):
                    continue
                g, e = set(got.get(d['ord'], ())), exp[d['ord']]
                if d['hup'] and ('_disconnect' in g or d['disc_reported']):
                    # relaxation: _disconnect in place of readiness and silence after a reported _disconnect - but never about unread DATA of a
                    # descriptor registered for reading: "a read readiness event iff registered for reading and actually readable"
                    if d['reader'] and d['pending'] and '_read' in e and '_read' not in g:
                        missing.append((d, '_read'))
                    continue
                missing += [(d, x) for x in sorted(e - g)]
            if not missing:
                break
            if grace:
                grace -= 1
                ctx.stat('grace-iteration')
                tr('    (expected but not fired: %s - one more iteration)', ', '.join('%s(%s)' % (x, dname(d)) for d, x in missing))
                continue
            d, x = missing[0]
            fail('C10/missing/%s/%s-after-%s/%s' % (x, '+'.join(r for r in ('reader', 'writer') if d[r]), d['lastop'], name),
                 '%s is registered (%s, by src%d) and the kernel reports it %s, but no %s was fired in two consecutive iterations' % (
                     dname(d), '+'.join(r for r in ('reader', 'writer') if d[r]), d['src'], 'readable' if x == '_read' else 'writable', x))
        else:
            raise HarnessLimit('C10: 16 iterations without a judgeable one')
        if any(exp.values()):
            res['busy'] += 1
            if any('_read' in e for e in exp.values()):
                ctx.stat('expected-read')
            if any('_write' in e for e in exp.values()):
                ctx.stat('expected-write')
        res['finals'].append(tuple((d['ord'], tuple(sorted(got.get(d['ord'], ())))) for d in slots if d is not None and registered(d) and not d['hup']))

    try:
        tr('%s, EINTR rate %s', name, '1/%d' % plan['eintr'] if plan['eintr'] else 'none')
        for no, op in enumerate(plan['ops']):
            do(no, op)
            observe(no)
        for _ in range(2):          # two more iterations: nothing may surface late
            observe(-1)
    except Stop:
        pass
    ctx.sim_time += W.now - res['t0']
    return res


def run_one(ctx):
    world.reset(ctx)
    simnet.reset(ctx)
    try:
        _run(ctx)
    finally:
        NET.close_all()


def _run(ctx):
    plan = gen_plan(ctx.ch, ctx.cfg)
    avoid_close = any(AVOID_CLOSE in k for k in ctx.avoid)
    avoid_dup = any(AVOID_DUP in k for k in ctx.avoid)
    results = []
    for pi in plan['order']:
        r = run_history(ctx, plan, POLLERS[pi], avoid_close, avoid_dup)
        results.append(r)
        if r['failed']:
            break
    failed = [r for r in results if r['failed']]
    if not failed and len(results) > 1:
        # "the three pollers are interchangeable" (descriptors whose peer hung up are left out: HUP relaxation)
        ctx.stat('pollers-compared')
        names = [r['name'] for r in results]
        for stepno in range(max(len(r['finals']) for r in results)):
            rows = [r['finals'][stepno] if stepno < len(r['finals']) else None for r in results]
            if any(x != rows[0] for x in rows):
                odd = [names[j] for j in range(len(rows)) if rows.count(rows[j]) == 1]
                who = odd[0] if len(odd) == 1 else 'all-differ'
                ctx.violation('C10/pollers-disagree/%s' % who, 'same history, operation %d: %s' % (stepno, '; '.join('%s fired %r' % (n, x) for n, x in zip(names, rows))))
                break
    if ctx.keep_trace:
        ctx.trace('history of %d operations, executed under %s' % (len(plan['ops']), ', '.join(r['name'] for r in results)))
        for r in results:
            if r in (failed or results[:1]):
                for line in r['lines']:
                    ctx.trace(line)
            else:
                ctx.trace('[%s] same history: %d iterations with expected events: ok' % (r['name'], r['busy']))
        if ctx.violations and not failed:
            ctx.trace('VIOLATION %s: %s' % ctx.violations[0])
    structural = any(o[0] in ('removeReader', 'removeWriter', 'discard', 'close', 'discard_close', 'reopen') for o in plan['ops'])
    ctx.nontrivial = bool(results) and all(r['busy'] >= 3 for r in results) and structural
