"""C01 — events reach exactly the matching handlers, once, using the live handler set.

Engine: SimLoop (single thread, manager not running; the harness calls flush()/tick() on whichever components are
currently roots).  Workload: a pool of <= 6 components instantiated from generated classes (explicit @handler methods:
named / catch-all / global, per-handler channel overrides, priorities, single inheritance with and without
override=True over up to three class levels, Component subclasses with implicit method handlers, public methods named like
events that are marked @handler(False) = declared not to be handlers - in the class itself, inherited from a base class, and
re-declared as a normal handler by a subclass), component channels
from {'*','a','b'}, and a history of register / unregister / addHandler / removeHandler / fire / flush / tick operations,
some of them executed from inside a handler while a dispatch is running.

Oracle: at dispatch-begin of every generated event (marker: a wrapper around Manager._dispatcher that only marks time)
an independent reference computes the set of receivers from (a) the component tree as linked at that moment (public
`components` / `parent` attributes), (b) the harness's own table of declared / added / removed handlers and (c) the
matching rule transcribed from the statement; at dispatch-end the multiset of receivers logged by the generated
handlers themselves must be exactly that set, each once.  A generated @handler(False) method reports its own invocation at
once ('and to no other handler'): nothing but the dispatcher ever calls it.
"""
import types
from collections import Counter

from simcore import world
from simcore.runner import HarnessLimit

from circuits import BaseComponent, Component, Event, handler

ID = 'C01'
LEVEL = 'exploration'
ENGINE = 'SimLoop'
LEVEL_TEXT = ('seeded exploration of generated component forests x handler shapes x histories on the real Manager: every dispatch of a '
              'generated event is compared with a receiver set computed by an independent reference at dispatch-begin; sampling, not '
              'proof - evidence states how many distinct programs/histories were explored')
LEVEL_NOTE = ('trusted: the reference matcher (~40 lines, transcribed from the statement), the harness table of handlers, the public '
              '`components`/`parent` links as the definition of "the tree" (their consistency is C07\'s subject), a time-marker wrapper '
              'around Manager._dispatcher (observes nothing but begin/end), CPython')
RULE = ('each run = generated classes (handlers and, in about every third class body, @handler(False) non-handler methods named like events) '
        '+ pool of 2-6 components + history of up to max_ops operations (fire / flush / tick / register / '
        'unregister / addHandler / removeHandler / detach-and-refire / operations armed to run inside a handler), all drawn from one seeded tape; '
        'non-trivial = at least 3 judged dispatches and at least one judged dispatch of a (root, event name, channel) key that the same '
        'root had dispatched before with a structural change in between (warm cache); distinct = distinct digest of the full '
        'operation / dispatch / receiver log')
STATE_MEASURE = '(forest shape as parent vector, number of keys dispatched before by the dispatching root (bucketed), last structural operation) per judged dispatch'
REAL = ['circuits.core.manager.Manager (fire/flush/tick/_dispatcher/getHandlers/addHandler/removeHandler/registerChild/unregisterChild, handler cache)',
        'circuits.core.components.BaseComponent / Component (register/unregister/prepare_unregister protocol, handler collection in __new__/__init__)',
        'circuits.core.handlers.handler (incl. the handler(False) opt-out) / HandlerMetaClass', 'circuits.core.events.Event']
STUBBED = ['handler tie-break order (decided by the tape through the Manager.getHandlers order seam)',
           'Manager._dispatcher is wrapped by a pass-through that marks dispatch-begin/end of generated events (no state is read)']
ASSUMPTIONS = [
    'an event is fired on exactly one channel (string, "*", a component instance, or the documented default = what fire() stored in event.channels); several channels are outside the statement and not generated',
    'between unregister() and the completion of the prepare_unregister protocol the statement can be read both ways ("still in the tree" / "unregistered before that moment"): handlers of components in a subtree whose unregistration is pending may or may not receive the event (at most once)',
    'an event during whose dispatch a structural operation ran (from inside a handler, or a nested flush) is judged weakly: receivers required = those required under every handler set seen during the dispatch, allowed = union; never twice',
    'an event whose firing component has left the dispatching root\'s tree between fire() and dispatch is not judged (the statement does not say which tree is meant); only "never twice" is checked',
    'an event that was fired but not dispatched although every current root has been flushed until its queue was empty counts as not delivered if the reference expects at least one receiver',
    'single inheritance chains of up to three generated classes; "without override" = a same-named method further down is an additional handler and the base handler stays (handler() docstring), also for classes derived from the redefining class',
    'a structural operation of a generated (valid) history that raises cannot be "reflected" and is reported under the live-set clause (does not happen on the pinned tree except as a consequence of a listed finding)',
    '@handler(False) methods are generated only under method names that no inherited handler uses: whether opting a method name out in a subclass also silences the base class\'s handler of that name is not said anywhere (statement, handler() docstring, manual), so that shape is not generated; the reverse (a subclass re-declares an opted-out method as an implicit or explicit handler) makes the subclass\'s method a handler and leaves the base method a non-handler',
    'a method marked @handler(False) is a receiver under no reading of the statement (any tree, channel, pending unregistration, handler set changed mid-dispatch), so its invocation is reported also during dispatches that are otherwise judged weakly or not at all',
    'handlers neither raise nor suspend; the manager is not running (tick() == task step + flush)',
]
PROBES = ['threaded', 'judged-dispatch', 'warm-after-change', 'detached-root-warm-key', 'limbo-dispatch', 'instance-target', 'default-target',
          'in-handler-op', 'nested-flush', 'inherited-handler-invoked', 'override-suppressed-class', 'two-level-inheritance-class', 'implicit-handler-invoked',
          'global-handler-invoked', 'catchall-handler-invoked', 'dynamic-handler-invoked', 'remove-handler', 'readd-handler',
          'optout-method-class', 'optout-name-dispatched', 'optout-inherited-name-dispatched', 'optout-redeclared-handler-invoked',
          'partial-remove', 'zero-receivers', 'unjudged-firer-moved', 'tainted-dispatch', 'unregister-completed', 'depth>=3']
TIERS = {
    'quick': dict(runs=60000, wall=30, chunk=200, cfg=dict(max_ops=40, max_comps=6, threaded_share=12)),
    'thorough': dict(runs=1500000, wall=600, chunk=500, cfg=dict(max_ops=70, max_comps=6, threaded_share=10)),
}

K_STALE_DETACHED = 'C01/live-set/stale/detached-root'
K_REMOVE_ALL = 'C01/live-set/removed-handler-invoked/all-events-handler'
K_LOST_INDIRECT = 'C01/every-matching-handler/inherited/shadowed-handler-of-indirect-base'
K_OPTOUT = 'C01/no-other-handler/method-declared-not-a-handler'

NAMES = ['e0', 'e1', 'e2']
HCHANS = [None, 'a', 'b', '*']
PRIOS = [0, 0, 1, -1, 2]
EV = {n: type(n, (Event,), {}) for n in NAMES}

# ---------------------------------------------------------------------------------------------------------------
# time marker around Manager._dispatcher (installed once per process; pass-through when no run is active)

_HOOK = [None]


def _install_marker():
    M = world.M
    if getattr(M.Manager, '_c01_marker', False):
        return
    orig = M.Manager.__dict__.get('_dispatcher')
    if orig is None:
        raise RuntimeError('C01 harness: circuits.core.manager.Manager._dispatcher no longer exists; the dispatch-begin/end marker cannot be placed')

    def _dispatcher(self, event, channels, remaining):
        sim = _HOOK[0]
        if sim is None or getattr(event, 'sim_id', None) is None:
            return orig(self, event, channels, remaining)
        fr = sim.begin(self, event)
        try:
            return orig(self, event, channels, remaining)
        finally:
            sim.end(fr)

    M.Manager._dispatcher = _dispatcher
    M.Manager._c01_marker = True


# ---------------------------------------------------------------------------------------------------------------
# reference: the matching rule, transcribed from the statement

def listens(hchan, target, owner):
    """'listens on that channel (channels equal, either side the wildcard '*', or the event addressed to the component
    instance itself)'.  hchan = the handler's channel (its override, else its component's channel)."""
    if isinstance(target, str) and target == '*':
        return True                      # event side is the wildcard
    if isinstance(hchan, str) and hchan == '*':
        return True                      # handler side is the wildcard
    if target is owner:
        return True                      # event addressed to the component instance itself
    if isinstance(target, str) and isinstance(hchan, str):
        return target == hchan           # channels equal (strings)
    return target is hchan               # channels equal (the same component instance used as a channel)


def declared_for(names, evname):
    """'is declared for the event's name (or for all events)'.  names == () means all events."""
    return (not names) or evname in names


class HDef:
    """One declared handler (a function); shared by all instances of its class."""
    __slots__ = ('hid', 'mname', 'names', 'chan', 'prio', 'override', 'origin', 'func', 'cls', 'level', 'redecl')

    def label(self):
        if self.origin == 'optout':
            return 'h%d=%s.%s(@handler(False))' % (self.hid, self.cls, self.mname)
        c = self.chan
        cs = '' if c is None else (' channel=%s' % (c if isinstance(c, str) else '#%d' % c._sim_idx))
        return 'h%d=%s.%s(%s%s prio=%r%s)' % (self.hid, self.cls, self.mname, ','.join(self.names) or 'ALL', cs, self.prio,
                                               ' override' if self.override else '')


class Rec:
    """A handler as currently attached to one component (harness table)."""
    __slots__ = ('hd', 'names', 'full', 'epoch', 'method', 'inherited', 'lost')

    def __init__(self, hd, epoch, method, inherited=False, lost=False):
        self.hd, self.names, self.full, self.epoch, self.method, self.inherited, self.lost = hd, list(hd.names), True, epoch, method, inherited, lost


class Frame:
    __slots__ = ('eid', 'D', 'didx', 'judged', 'why', 'required', 'allowed', 'got', 'tainted', 'limbo', 'mem', 'seq', 'repoch')


class _Stop(Exception):
    """the run ends here (a violation has been recorded)"""


class Sim:
    def __init__(self, ctx):
        self.ctx = ctx
        self.ch = ctx.ch
        self.cfg = ctx.cfg
        self.comps = []
        self.chan = []          # component channel (harness's own resolution)
        self.live = []          # per component: {hid: Rec}
        self.removed = []       # per component: {hid: Rec}
        self.suppressed = []    # per component: set of hids of base handlers overridden in its class
        self.optout = []        # per component: {hid: (HDef, inherited)} of the methods its class chain marks @handler(False): not handlers
        self.pending = set()    # components on which unregister() was called and that are not yet detached
        self.root_epoch = []    # how often the component was registered under a parent
        self.root_disp = []     # judged-or-not dispatches of generated events done as a root
        self.meta = {}          # eid -> dict
        self.combos = []
        self.prev = {}          # (didx, name, tlabel) -> (actual frozenset, epoch, root_epoch, target, begin seq) of the latest-begun dispatch
        self.seq = 0
        self.stack = []
        self.flushing = []
        self.epoch = 0
        self.last_struct = 'none'
        self.armed = 0
        self.exc = None
        self.next_hid = 0
        self.next_eid = 0
        self.njudged = 0
        self.warm = 0
        self.nested_pending = False
        self.cur_handler = (-1, -1)
        self.focus = -1         # swarm knob: a component that operations prefer, so that one component gets a long history
        self.avoid_stale = K_STALE_DETACHED in ctx.avoid
        self.avoid_rmall = K_REMOVE_ALL in ctx.avoid
        self.avoid_lost = K_LOST_INDIRECT in ctx.avoid

    # ---- program generation ---------------------------------------------------------------------------------
    def new_hdef(self, cls, mname, names, chan, prio, override, origin, level=0):
        hd = HDef()
        self.next_hid += 1
        hd.hid, hd.cls, hd.mname, hd.names, hd.chan, hd.prio, hd.override, hd.origin = self.next_hid, cls, mname, tuple(names), chan, prio, override, origin
        hd.level, hd.redecl = level, False
        sim = self

        def f(self, event, *args, **kwargs):
            sim.on_invoke(self, event, hd)
        f.__name__ = mname
        f.__qualname__ = '%s.%s' % (cls, mname)
        if origin == 'implicit':
            hd.func = f                 # Component's metaclass turns the public method into handler(mname)
        else:
            kw = dict(priority=prio)
            if chan is not None:
                kw['channel'] = chan
            if override:
                kw['override'] = True
            hd.func = handler(*names, **kw)(f)
        return hd

    def new_optout(self, cls, mname, level):
        """a public method named like an event and marked @handler(False): 'a method [that] will not be marked as an event handler'
        (docs/source/man/handlers.rst), in Component subclasses the documented way to keep a public method from becoming an
        implicit handler.  Signature as in the manual's example (no `event` parameter)."""
        hd = HDef()
        self.next_hid += 1
        hd.hid, hd.cls, hd.mname, hd.names, hd.chan, hd.prio, hd.override, hd.origin = self.next_hid, cls, mname, (), None, 0, False, 'optout'
        hd.level, hd.redecl = level, False
        sim = self

        def f(self, *args, **kwargs):
            sim.on_invoke_optout(self, hd)
        f.__name__ = mname
        f.__qualname__ = '%s.%s' % (cls, mname)
        hd.func = handler(False)(f)
        return hd

    def draw_spec(self):
        ch = self.ch
        kind = ch.weighted([5, 2, 1], 'hkind')
        if kind == 0:
            mask = 1 + ch.draw(7, 'hnames')
            names = [n for i, n in enumerate(NAMES) if mask >> i & 1]
            chan = ch.choice(HCHANS, 'hchan')
        elif kind == 1:
            names, chan = [], ch.choice(HCHANS[:3], 'hchan-all')       # catch-all: no names, on the component's or a named channel
        else:
            names, chan = [], '*'                                      # global: no names, channel '*'
        return names, chan, ch.choice(PRIOS, 'hprio')

    def gen_own(self, cls, implicit, inherited, lv, last, inh_opt=()):
        """handler definitions written in the body of one class (level lv of its chain; inherited = what its base hands down,
        inh_opt = the @handler(False) methods of its bases) -> (handlers, @handler(False) methods)"""
        ch = self.ch
        own, own_opt = [], []
        if implicit:
            mask = ch.draw(8, 'implicit-methods') if inherited else 1 + ch.draw(7, 'implicit-methods')
            for i, n in enumerate(NAMES):
                if mask >> i & 1 and not any(d.mname == n for d in inherited):
                    own.append(self.new_hdef(cls, n, [n], None, 0, False, 'implicit', lv))
        for _ in range(ch.randint(0 if inherited else 1, 3, 'nhandlers')):
            names, chan, prio = self.draw_spec()
            own.append(self.new_hdef(cls, 'h%d' % (self.next_hid + 1), names, chan, prio, False, 'explicit', lv))
        seen = []
        for d in inherited:                     # redefinition of an inherited method name, with or without override=True
            if d.mname in seen:
                continue
            seen.append(d.mname)
            if ch.chance(1, 3, 'redefine'):
                ov = ch.chance(1, 2, 'override')
                # avoid predicate of the known finding K_LOST_INDIRECT: a redefinition without override only where circuits keeps the
                # shadowed handler, i.e. in the last class of the chain and of a method defined in its direct base only
                if self.avoid_lost and not (last and all(x.level == lv - 1 for x in inherited if x.mname == d.mname)):
                    ov = True
                if implicit and d.origin == 'implicit' and not ov and ch.chance(1, 2, 'redef-implicit'):
                    own.append(self.new_hdef(cls, d.mname, [d.mname], None, 0, False, 'implicit', lv))
                else:
                    names, chan, prio = self.draw_spec()
                    own.append(self.new_hdef(cls, d.mname, names, chan, prio, ov, 'explicit', lv))
        # methods declared NOT to be handlers.  Never under the method name of an inherited handler (whether opting out in a subclass
        # also silences the base class's handler is not said anywhere: not generated, see ASSUMPTIONS)
        taken = {d.mname for d in own} | {d.mname for d in inherited}
        seen = []
        for o in inh_opt:                       # a subclass re-declares an inherited opted-out method as a normal handler
            if o.mname in seen or o.mname in taken:
                continue
            seen.append(o.mname)
            if ch.chance(1, 3, 'optout-redeclare'):
                if implicit and ch.chance(1, 2, 'optout-redeclare-implicit'):
                    own.append(self.new_hdef(cls, o.mname, [o.mname], None, 0, False, 'implicit', lv))
                else:
                    names, chan, prio = self.draw_spec()
                    own.append(self.new_hdef(cls, o.mname, names, chan, prio, False, 'explicit', lv))
                taken.add(o.mname)
        for d in own:
            d.redecl = any(o.mname == d.mname for o in inh_opt)
        if ch.chance(1, 3, 'optout-class'):
            mask = 1 + ch.draw(7, 'optout-methods')
            for i, n in enumerate(NAMES):
                if mask >> i & 1 and n not in taken:
                    own_opt.append(self.new_optout(cls, n, lv))
        return own, own_opt

    def gen_class(self, k):
        """a chain root_base <- [A<k> <-] [B<k> <-] K<k> of generated classes (single inheritance); components are instances of K<k>"""
        ch = self.ch
        implicit = ch.chance(1, 3, 'implicit-class')
        cls = Component if implicit else BaseComponent
        nbase = ch.weighted([6, 3, 1], 'base-classes')
        chan, inherited, suppressed, names_at, bases, optout = None, [], [], [], [], []
        for lv in range(nbase + 1):
            last = lv == nbase
            label = 'K%d' % k if last else '%s%d' % ('AB'[lv + 2 - nbase], k)
            own, own_opt = self.gen_own(label, implicit, inherited, lv, last, optout)
            ns = {d.mname: d.func for d in own + own_opt}
            optout = optout + own_opt           # what a base class marked as not-a-handler stays a non-handler in every subclass
            c = ch.choice([None, 'a', 'b'], 'class-channel')
            if c:
                ns['channel'] = chan = c
            cls = type(cls)(label, (cls,), ns)
            bases.append(label)
            names_at.append({d.mname for d in own})
            # 'handlers inherited from base classes with and without override' (handler() docstring: "If you want to override a
            # handler defined in a base class of your component, you must specify override=True, else your method becomes an
            # additional handler"): what a class hands down = what it inherited, minus the names it overrides, plus its own
            over = {o.mname for o in own if o.override}
            suppressed += [d for d in inherited if d.mname in over]
            inherited = [d for d in inherited if d.mname not in over] + own
        # shape of K_LOST_INDIRECT: an inherited handler defined above the direct base whose method name is defined again further down
        lost = {d.hid for d in inherited if d.level < nbase - 1 and any(d.mname in names_at[l] for l in range(d.level + 1, nbase + 1))}
        if suppressed:
            self.ctx.stat('override-suppressed-class')
        if nbase == 2:
            self.ctx.stat('two-level-inheritance-class')
        if optout:
            self.ctx.stat('optout-method-class')
        return dict(k=k, cls=cls, name=bases[-1], chan=chan, handlers=inherited, top=nbase, lost=lost, suppressed=suppressed, optout=optout,
                    implicit=implicit, bases=' <- '.join(reversed(bases[:-1])))

    def build(self):
        ch, ctx = self.ch, self.ctx
        n = ch.randint(2, self.cfg['max_comps'], 'ncomp')
        shapes = []
        for i in range(n):
            if shapes and ch.chance(1, 4, 'reuse-class'):
                sh = ch.choice(shapes, 'which-class')
            else:
                sh = self.gen_class(len(shapes))
                shapes.append(sh)
            kwchan = ch.choice([None, 'a', 'b', '*', None], 'instance-channel')
            c = sh['cls'](channel=kwchan) if kwchan else sh['cls']()
            c._sim_idx = i
            self.comps.append(c)
            # 'channels per component': the channel keyword, else the class attribute, else '*'
            self.chan.append(kwchan or sh['chan'] or '*')
            recs = {}
            for d in sh['handlers']:
                recs[d.hid] = Rec(d, 0, types.MethodType(d.func, c), d.level < sh['top'], d.hid in sh['lost'])
            self.live.append(recs)
            self.removed.append({})
            self.suppressed.append({d.hid for d in sh['suppressed']})
            self.optout.append({d.hid: (d, d.level < sh['top']) for d in sh['optout']})
            self.root_epoch.append(0)
            self.root_disp.append(0)
            if ctx.keep_trace:
                ctx.trace('c%d = %s(%s)%s channel=%s: %s%s%s' % (
                    i, sh['name'], sh['bases'] or ('Component' if sh['implicit'] else 'BaseComponent'), ' [Component: public methods are handlers]' if sh['implicit'] else '',
                    self.chan[i], '; '.join(r.hd.label() for r in recs.values()),
                    ('; overridden: ' + ', '.join(d.label() for d in sh['suppressed'])) if sh['suppressed'] else '',
                    ('; NOT handlers: ' + ', '.join(d.label() for d in sh['optout'])) if sh['optout'] else ''))
            ctx.log('C', i, sh['name'], self.chan[i], ','.join('%d' % h for h in recs), ','.join('%d' % d.hid for d in sh['optout']))
        self.focus = ch.draw(n + 1, 'focus-component') - 1
        # swarm knob: may unregister() be called inside a subtree whose own unregistration is still pending?  (then the inner
        # one never completes on the pinned tree - C07's subject - and that subtree stays 'pending', i.e. weakly judged, for good)
        self.nested_pending = ch.chance(1, 4, 'allow-nested-pending')
        # an initial forest, built before anything is dispatched
        for i in range(1, n):
            if ch.chance(1, 2, 'initial-register'):
                self.do_register(i, ch.draw(i, 'initial-parent'))
        if ch.chance(3, 4, 'initial-settle'):
            self.settle()

    # ---- tree helpers (public attributes only; children visited in pool order, never in set order) -----------
    def is_root(self, i):
        c = self.comps[i]
        return c.parent is c

    def top(self, i):
        c = self.comps[i]
        for _ in range(len(self.comps) + 1):
            if c.parent is c:
                return c._sim_idx
            c = c.parent
        return -1

    def members(self, i, depth=0, out=None):
        out = {} if out is None else out
        if i in out or depth > len(self.comps):
            return out
        out[i] = depth
        for k in sorted(x._sim_idx for x in self.comps[i].components):
            self.members(k, depth + 1, out)
        return out

    def limbo(self):
        """components inside a subtree whose unregistration was requested and has not completed"""
        out = {}
        for i in sorted(self.pending):
            if self.is_root(i):
                self.pending.discard(i)
                self.ctx.stat('unregister-completed')
            else:
                self.members(i, 0, out)
        return out

    def shape(self):
        return tuple(-1 if self.is_root(i) else self.comps[i].parent._sim_idx for i in range(len(self.comps)))

    def tlabel(self, t):
        return t if isinstance(t, str) else '#%d' % t._sim_idx

    # ---- the reference ------------------------------------------------------------------------------------------
    def expected(self, didx, m):
        """(required, allowed) receivers (component index, handler id) of event m if dispatched now by root didx"""
        required, allowed = set(), set()
        limbo = self.limbo()
        for ci in self.members(didx):                       # 'a component currently in the firing component's tree'
            owner = self.comps[ci]
            for hid, r in self.live[ci].items():
                if not declared_for(r.names, m['name']):    # 'declared for the event's name (or for all events)'
                    continue
                hchan = r.hd.chan if r.hd.chan is not None else self.chan[ci]
                if not listens(hchan, m['target'], owner):  # 'listens on that channel'
                    continue
                (allowed if ci in limbo else required).add((ci, hid))
        return required, allowed | required, limbo

    # ---- dispatch markers -----------------------------------------------------------------------------------------
    def begin(self, D, event):
        ctx = self.ctx
        fr = Frame()
        fr.eid, fr.D, fr.didx = event.sim_id, D, D._sim_idx
        m = self.meta[fr.eid]
        fr.got, fr.tainted, fr.judged, fr.why = [], False, True, ''
        m['dispatched'] += 1
        self.root_disp[fr.didx] += 1
        if m['dispatched'] > 1:
            if not ctx.violations:
                ctx.violation('C01/exactly-once/event-dispatched-twice', 'e%d dispatched a second time (by c%d)' % (fr.eid, fr.didx))
        if m['target'] is None:
            fr.judged, fr.why = False, 'not exactly one channel'
        elif self.top(m['src']) != fr.didx:
            fr.judged, fr.why = False, 'firing component c%d is no longer in the tree of the dispatching root c%d' % (m['src'], fr.didx)
            ctx.stat('unjudged-firer-moved')
        fr.required, fr.allowed, fr.limbo = self.expected(fr.didx, m)
        fr.mem = set(self.members(fr.didx))
        if fr.judged:
            # reach probe: an event named like a @handler(False) method of a component in the tree, on a channel that component listens on
            for ci in fr.mem:
                for od, inh in self.optout[ci].values():
                    if od.mname == m['name'] and listens(self.chan[ci], m['target'], self.comps[ci]):
                        ctx.stat('optout-inherited-name-dispatched' if inh else 'optout-name-dispatched')
        self.seq += 1
        fr.seq, fr.repoch = self.seq, self.root_epoch[fr.didx]
        self.stack.append(fr)
        if ctx.keep_trace:
            ctx.trace('%sdispatch e%d (%s -> %s) by root c%d: reference expects {%s}%s%s' % (
                '  ' * len(self.stack), fr.eid, m['name'], m['tlabel'], fr.didx, self.fmt(fr.required),
                (' optionally {%s} (unregister pending)' % self.fmt(fr.allowed - fr.required)) if fr.allowed - fr.required else '',
                (' [NOT JUDGED: %s]' % fr.why) if not fr.judged else ''))
        return fr

    def fmt(self, s):
        return ', '.join('c%d.h%d' % x for x in sorted(s))

    def struct_changed(self):
        """a structural operation ran while events are mid-dispatch: the statement is silent about those events, so only
        what holds under every handler set seen during the dispatch is demanded of them"""
        for fr in self.stack:
            req, alw, _ = self.expected(fr.didx, self.meta[fr.eid])
            fr.required &= req
            fr.allowed |= alw
            fr.mem |= set(self.members(fr.didx))
            fr.tainted = True

    def end(self, fr):
        ctx = self.ctx
        top = self.stack.pop()
        assert top is fr
        m = self.meta[fr.eid]
        actual = frozenset(fr.got)
        key = (fr.didx, m['name'], m['tlabel'])
        prev = self.prev.get(key)
        if prev is None or prev[4] < fr.seq:
            # 'what this root delivered last time for this (name, channel)': ordered by dispatch-begin (nested dispatches end first)
            self.prev[key] = (actual, self.epoch, fr.repoch, m['target'], fr.seq)
        ctx.log('D', fr.eid, fr.didx, self.fmt(actual), int(fr.judged), int(fr.tainted))
        if ctx.keep_trace:
            ctx.trace('%s  e%d delivered to [%s]' % ('  ' * (len(self.stack) + 1), fr.eid, ', '.join('c%d.h%d' % x for x in fr.got)))
        if ctx.violations:
            return
        cnt = Counter(fr.got)
        twice = sorted(x for x, n in cnt.items() if n > 1)
        if twice:        # 'delivered exactly once'
            ctx.violation('C01/exactly-once/handler-invoked-twice', 'e%d (%s -> %s) dispatched by c%d: invoked more than once: {%s}' % (
                fr.eid, m['name'], m['tlabel'], fr.didx, self.fmt(twice)))
            return
        if not fr.judged:
            return
        self.njudged += 1
        ctx.stat('judged-dispatch')
        if fr.tainted:
            ctx.stat('tainted-dispatch')
        if fr.limbo:
            ctx.stat('limbo-dispatch')
        if not fr.allowed:
            ctx.stat('zero-receivers')
        if not isinstance(m['target'], str):
            ctx.stat('instance-target')
        if prev is not None and prev[1] != self.epoch:
            ctx.stat('warm-after-change')
            self.warm += 1
            if prev[2] != self.root_epoch[fr.didx]:
                ctx.stat('detached-root-warm-key')
        depth = max(self.members(fr.didx).values())
        if depth >= 3:
            ctx.stat('depth>=3')
        nwarm = sum(1 for k in self.prev if k[0] == fr.didx)
        ctx.state((self.shape(), min(nwarm, 6) // 2, self.last_struct))
        missing = sorted(fr.required - actual)      # 'delivered ... to every handler that ...'
        extra = sorted(actual - fr.allowed)         # '... and to no other handler'
        if not missing and not extra:
            return
        vkey = self.classify(fr, m, prev, actual, missing, extra)
        ctx.violation(vkey, 'e%d (%s fired by c%d on channel %s) dispatched by root c%d%s: expected receivers {%s}%s, actual {%s}; missing {%s}; unexpected {%s}%s' % (
            fr.eid, m['name'], m['src'], m['tlabel'], fr.didx, ' [handler set changed during this dispatch]' if fr.tainted else '',
            self.fmt(fr.required), (' optional {%s}' % self.fmt(fr.allowed - fr.required)) if fr.allowed - fr.required else '',
            self.fmt(actual), self.fmt(missing), self.fmt(extra),
            '; actual equals what this root delivered for the same (name, channel) at its previous dispatch' if prev and prev[0] == actual else ''))
        ctx.trace('%s^^^ VIOLATION %s' % ('  ' * (len(self.stack) + 1), vkey))

    def classify(self, fr, m, prev, actual, missing, extra):
        """finding key = clause of the statement + shape of the history that explains the difference"""
        mem = fr.mem           # every component that was in the dispatching root's tree at some moment of this dispatch
        if any(getattr(self.live[ci].get(hid), 'lost', False) for ci, hid in missing):
            # a handler of an indirect base class that a class further down shadows without override=True
            return K_LOST_INDIRECT
        stale = prev is not None and prev[0] == actual
        if stale and prev[2] != self.root_epoch[fr.didx]:
            # the root was registered as somebody's child (and detached again) since it last delivered exactly this set
            return K_STALE_DETACHED
        for ci, hid in extra:
            r = self.removed[ci].get(hid)
            if ci in mem and r is not None and hid not in self.live[ci]:
                return 'C01/live-set/removed-handler-invoked/%s' % ('named-handler' if r.hd.names else 'all-events-handler')
        if stale:
            if extra:
                ci, hid = extra[0]
                op = 'unregister' if ci not in mem else 'removeHandler'
            else:
                ci, hid = missing[0]
                r = self.live[ci].get(hid)
                op = 'addHandler' if r is not None and r.epoch > prev[1] else 'register'
            return 'C01/live-set/stale/after-%s' % op
        if extra:
            ci, hid = extra[0]
            if ci not in mem:
                return 'C01/no-other-handler/component-not-in-tree'
            if hid in self.suppressed[ci]:
                return 'C01/no-other-handler/overridden-base-handler'
            r = self.live[ci].get(hid)
            if r is None:
                return 'C01/no-other-handler/handler-not-of-this-component'
            if not declared_for(r.names, m['name']):
                return 'C01/no-other-handler/event-name'
            return 'C01/no-other-handler/channel'
        ci, hid = missing[0]
        r = self.live[ci].get(hid)
        if r is None:
            return 'C01/every-matching-handler/other'
        hchan = r.hd.chan if r.hd.chan is not None else self.chan[ci]
        t = m['target']
        if isinstance(t, str) and t == '*':
            how = 'event-wildcard'
        elif isinstance(hchan, str) and hchan == '*':
            how = 'handler-wildcard'
        elif t is self.comps[ci] and not (isinstance(hchan, str) and hchan == t):
            how = 'instance-target'
        else:
            how = 'channel-equal'
        origin = 'inherited' if r.inherited else r.hd.origin
        return 'C01/every-matching-handler/%s-%s/%s' % (origin, 'named' if r.names else 'all-events', how)

    # ---- the generated handlers call this ----------------------------------------------------------------------------
    def on_invoke(self, comp, event, hd):
        eid = getattr(event, 'sim_id', None)
        if eid is None:
            return
        ctx = self.ctx
        ci = comp._sim_idx
        fr = self.stack[-1] if self.stack else None
        if fr is None or fr.eid != eid:
            # invoked outside the dispatch of its event: count it against the event's frame if there is one, else report
            fr = next((f for f in reversed(self.stack) if f.eid == eid), None)
            if fr is None:
                if not ctx.violations:
                    ctx.violation('C01/no-other-handler/invoked-outside-dispatch', 'c%d.h%d invoked for e%d outside any dispatch' % (ci, hd.hid, eid))
                return
        fr.got.append((ci, hd.hid))
        ctx.log('H', eid, ci, hd.hid)
        self.cur_handler = (ci, hd.hid)
        live = self.live[ci].get(hd.hid)
        if live is not None:
            if live.inherited:
                ctx.stat('inherited-handler-invoked')
            if hd.redecl:
                ctx.stat('optout-redeclared-handler-invoked')
            if hd.origin == 'implicit':
                ctx.stat('implicit-handler-invoked')
            elif hd.origin == 'dynamic':
                ctx.stat('dynamic-handler-invoked')
            if not hd.names:
                ctx.stat('global-handler-invoked' if hd.chan == '*' else 'catchall-handler-invoked')
        if self.armed and not ctx.violations and self.exc is None:
            self.armed -= 1
            try:
                self.in_handler_op(ci)
            except _Stop:
                pass
            except Exception as e:       # circuits would swallow it; surface it as a harness error after the flush
                self.exc = e

    def on_invoke_optout(self, comp, hd):
        """'... and to no other handler': a method that its class declares not to be a handler (@handler(False)) was invoked.  The harness
        never calls these methods itself, so the caller is the dispatcher; no reading of the statement (tree, channel, pending
        unregistration, handler set changed mid-dispatch) makes a non-handler a receiver, hence reported whatever the state of the frame."""
        ctx = self.ctx
        ci = comp._sim_idx
        fr = self.stack[-1] if self.stack else None
        ctx.log('N', fr.eid if fr else 0, ci, hd.hid)
        if fr is not None:
            fr.got.append((ci, hd.hid))
        if ctx.violations:
            return
        inh = self.optout[ci].get(hd.hid, (hd, False))[1]
        if fr is None:
            where = 'outside any dispatch of a generated event'
        else:
            m = self.meta[fr.eid]
            where = 'during the dispatch of e%d (%s fired by c%d on channel %s) by root c%d' % (fr.eid, m['name'], m['src'], m['tlabel'], fr.didx)
        ctx.violation(K_OPTOUT, 'c%d.%s is marked @handler(False) (%s), i.e. declared not to be a handler, but was invoked %s' % (
            ci, hd.label(), 'inherited from base class %s' % hd.cls if inh else 'in its own class', where))
        ctx.trace('%s^^^ VIOLATION %s: %s invoked' % ('  ' * (len(self.stack) + 1), K_OPTOUT, hd.label()))

    # ---- operations -------------------------------------------------------------------------------------------------------
    def struct(self, what):
        self.epoch += 1
        self.last_struct = what
        if self.stack:
            self.struct_changed()

    def api(self, what, fn, *args, key=None):
        """call a structural operation of circuits; on the pinned tree none of the generated (valid) calls raises.  If one does, the
        history cannot be carried out, i.e. the change cannot be 'reflected': reported under the live-set clause, run ends."""
        try:
            return fn(*args)
        except Exception as e:
            if not self.ctx.violations:
                self.ctx.violation(key or 'C01/live-set/operation-raised/%s' % what, '%s raised %s: %s' % (what, type(e).__name__, e))
                self.ctx.trace('^^^ VIOLATION: %s raised %s: %s' % (what, type(e).__name__, e))
            raise _Stop()

    def do_register(self, i, p):
        self.ctx.log('R', i, p)
        self.ctx.trace('%sc%d.register(c%d)' % (self.ind(), i, p))
        self.root_epoch[i] += 1
        self.api('register', self.comps[i].register, self.comps[p])
        self.struct('register')

    def do_unregister(self, i):
        self.ctx.log('U', i)
        self.ctx.trace('%sc%d.unregister()   [asynchronous: completes when prepare_unregister_complete is dispatched]' % (self.ind(), i))
        self.pending.add(i)
        self.api('unregister', self.comps[i].unregister)
        self.struct('unregister')

    def ind(self):
        return '  ' * (len(self.stack) + 1) + '[inside handler c%d.h%d] ' % self.cur_handler if self.stack else ''

    def reg_candidates(self):
        busy = set(self.flushing)
        out = []
        for i in range(len(self.comps)):
            if self.is_root(i) and i not in busy and i not in self.pending:
                ps = [p for p in range(len(self.comps)) if p != i and self.top(p) != i]
                if ps:
                    out.append((i, ps))
        return out

    def unreg_candidates(self):
        # avoid predicate of the known finding 'stale/detached-root': its trigger is a component that dispatched generated
        # events as a root, was registered as a child and is detached again; in avoiding runs such a component is never detached
        limbo = {} if self.nested_pending else self.limbo()
        return [i for i in range(len(self.comps)) if not self.is_root(i) and i not in self.pending and i not in limbo
                and not (self.avoid_stale and self.root_disp[i] > 0)]

    def pick(self, cands, label, key=lambda x: x):
        """choice with a preference (1/2) for the focus component when it is among the candidates"""
        if self.focus >= 0:
            f = [x for x in cands if key(x) == self.focus]
            if f and len(cands) > 1 and self.ch.chance(1, 2, 'prefer-focus'):
                return f[0]
        return self.ch.choice(cands, label)

    def op_register(self):
        cands = self.reg_candidates()
        if not cands:
            return False
        i, ps = self.pick(cands, 'register-who', lambda x: x[0])
        self.do_register(i, self.ch.choice(ps, 'register-under'))
        return True

    def op_unregister(self):
        cands = self.unreg_candidates()
        if not cands:
            return False
        self.do_unregister(self.pick(cands, 'unregister-who'))
        if not self.stack and self.ch.chance(1, 2, 'settle-after-unregister'):
            self.settle()
        return True

    def op_detach_refire(self):
        """biased history: a component that dispatched as a root and is now somebody's child is detached, runs as its own root again
        and gets an event with a (name, channel) it has dispatched before ('a subtree that has been detached and now runs as its own root')"""
        cands = [i for i in self.unreg_candidates() if any(k[0] == i and v[3] is not None for k, v in self.prev.items())]
        if not cands:
            return False
        i = self.pick(cands, 'detach-who')
        self.do_unregister(i)
        self.settle()
        if self.is_root(i) and not self.ctx.violations:
            keys = [k for k in self.prev if k[0] == i and self.prev[k][3] is not None]
            k = self.ch.choice(keys, 'refire-key')
            self.op_fire(i, (k[1], self.prev[k][3]))
            self.do_flush(i)
        return True

    def op_add(self):
        ch, ctx = self.ch, self.ctx
        ci = self.pick(range(len(self.comps)), 'add-comp')
        gone = sorted(self.removed[ci])
        if gone and ch.chance(1, 3, 'readd'):
            hid = ch.choice(gone, 'readd-which')
            r = self.removed[ci].pop(hid)
            ctx.log('A', ci, hid, 're')
            ctx.trace('%sc%d.addHandler(<%s>)   [re-adding the removed handler]' % (self.ind(), ci, r.hd.label()))
            self.api('addHandler', self.comps[ci].addHandler, r.method)
            self.live[ci][hid] = Rec(r.hd, self.epoch + 1, r.method, r.inherited, r.lost)
            ctx.stat('readd-handler')
        else:
            names, chan, prio = self.draw_spec()
            if names and ch.chance(1, 8, 'hchan-instance'):
                chan = ch.choice(self.comps, 'hchan-which')     # a component instance as the handler's channel
            hd = self.new_hdef('dyn', 'd%d' % (self.next_hid + 1), names, chan, prio, False, 'dynamic')
            ctx.log('A', ci, hd.hid, ','.join(names), self.tlabel(chan) if chan is not None else '-', prio)
            ctx.trace('%sc%d.addHandler(<%s>)' % (self.ind(), ci, hd.label()))
            method = self.api('addHandler', self.comps[ci].addHandler, hd.func)
            self.live[ci][hd.hid] = Rec(hd, self.epoch + 1, method)
        self.struct('addHandler')
        return True

    def op_remove(self):
        ch, ctx = self.ch, self.ctx
        cands = []
        for ci in range(len(self.comps)):
            for hid, r in self.live[ci].items():
                # avoid predicate of the known finding 'removed-handler-invoked/all-events-handler': never remove a handler declared for all events
                if self.avoid_rmall and not r.hd.names:
                    continue
                cands.append((ci, hid))
        if not cands:
            return False
        ci, hid = ch.choice(cands, 'remove-which')
        r = self.live[ci][hid]
        partial = bool(r.names) and (not r.full or (len(r.names) > 1 and ch.chance(1, 3, 'remove-partial')))
        if partial:
            name = ch.choice(r.names, 'remove-name')
            ctx.log('X', ci, hid, name)
            ctx.trace('%sc%d.removeHandler(<%s>, %r)' % (self.ind(), ci, r.hd.label(), name))
            self.api('removeHandler', self.comps[ci].removeHandler, r.method, name, key=K_LOST_INDIRECT if r.lost else None)
            r.names.remove(name)
            r.full = False
            ctx.stat('partial-remove')
            if not r.names:
                self.removed[ci][hid] = self.live[ci].pop(hid)
        else:
            ctx.log('X', ci, hid, '')
            ctx.trace('%sc%d.removeHandler(<%s>)' % (self.ind(), ci, r.hd.label()))
            # (a handler in the shape of K_LOST_INDIRECT was never attached by circuits; removing it raises: same root cause, same key)
            self.api('removeHandler', self.comps[ci].removeHandler, r.method, key=K_LOST_INDIRECT if r.lost else None)
            self.removed[ci][hid] = self.live[ci].pop(hid)
        ctx.stat('remove-handler')
        self.struct('removeHandler')
        return True

    def draw_target(self):
        k = self.ch.weighted([3, 2, 2, 3, 2], 'target-kind')
        if k == 0:
            return ('s', 'a')
        if k == 1:
            return ('s', '*')
        if k == 2:
            return ('s', 'b')
        if k == 3:
            return ('i', self.ch.draw(len(self.comps), 'target-instance'))
        return ('d', None)

    def op_fire(self, src=None, forced=None):
        ch, ctx = self.ch, self.ctx
        if forced is not None:
            name, tsel = forced[0], ('x', forced[1])
        elif self.combos and ch.chance(1, 2, 'fire-repeat'):
            name, tsel = ch.choice(self.combos, 'fire-combo')
        else:
            name, tsel = ch.choice(NAMES, 'fire-name'), self.draw_target()
            if (name, tsel) not in self.combos:
                self.combos.append((name, tsel))
        if src is None:
            src = self.pick(range(len(self.comps)), 'fire-src')
        self.next_eid += 1
        eid = self.next_eid
        e = EV[name]()
        e.sim_id = eid
        c = self.comps[src]
        if tsel[0] == 'd':
            c.fire(e)
            ctx.stat('default-target')
        elif tsel[0] in 'sx':
            c.fire(e, tsel[1])
        else:
            c.fire(e, self.comps[tsel[1]])
        chans = e.channels       # public: 'replaced for the instance with the channels that the event is actually sent to'
        target = chans[0] if isinstance(chans, tuple) and len(chans) == 1 else None
        tl = self.tlabel(target) if target is not None else '?'
        self.meta[eid] = dict(name=name, target=target, tlabel=tl, src=src, dispatched=0)
        ctx.log('F', eid, name, tl, src, tsel[0])
        ctx.trace('%sc%d.fire(e%d=%s(), %s)' % (self.ind(), src, eid, name, 'no channel given -> ' + tl if tsel[0] == 'd' else tl))
        return True

    def do_flush(self, i, how='flush'):
        if len(self.flushing) >= 3:
            return
        ctx = self.ctx
        r = self.top(i)
        nested = bool(self.stack)
        ctx.log('P', i, how, int(nested))
        ctx.trace('%sc%d.%s()%s' % (self.ind(), i, how, '' if r == i else '   [delegates to root c%d]' % r))
        self.flushing.append(r)
        try:
            if how == 'tick':
                self.comps[i].tick()
            else:
                self.comps[i].flush()
        finally:
            self.flushing.pop()
        if nested:
            ctx.stat('nested-flush')
            self.struct_changed()      # whatever the nested pass did (e.g. completed an unregistration) happened mid-dispatch for the outer events
        elif self.exc is not None:
            exc, self.exc = self.exc, None
            raise exc

    def op_flush(self):
        ch = self.ch
        if ch.chance(1, 4, 'tick'):
            roots = [i for i in range(len(self.comps)) if self.is_root(i)]
            self.do_flush(ch.choice(roots, 'tick-root'), 'tick')
        else:
            self.do_flush(self.pick(range(len(self.comps)), 'flush-comp'))
        return True

    def settle(self):
        for _ in range(80):
            busy = [i for i in range(len(self.comps)) if self.is_root(i) and len(self.comps[i])]
            if not busy:
                return
            for i in busy:
                self.do_flush(i)
                if self.ctx.violations:
                    return
        raise HarnessLimit('settle: queues did not drain in 80 rounds')

    def in_handler_op(self, ci):
        """an operation performed from inside a handler while its event (and possibly outer events) are mid-dispatch"""
        self.ctx.stat('in-handler-op')
        k = self.ch.weighted([3, 2, 2, 2, 2, 1], 'in-handler-op')
        if k == 0:
            self.op_fire(ci if self.ch.chance(2, 3, 'fire-self') else None)
        elif k == 1:
            self.op_add()
        elif k == 2:
            self.op_remove()
        elif k == 3:
            self.op_register()
        elif k == 4:
            self.op_unregister()
        else:
            self.do_flush(self.ch.draw(len(self.comps), 'nested-flush-comp'))

    def run(self):
        ch, ctx = self.ch, self.ctx
        self.build()
        for _ in range(self.cfg['max_ops']):
            if ctx.violations:
                break
            # index 0 = stop, so that a truncated / zeroed tape ends the history (shrinks well); mean length ~ max_ops / 2
            k = ch.weighted([1, 8, 6, 2, 2, 2, 2, 2, 1, 1], 'op') - 1
            if k < 0:
                break
            if k == 0:
                self.op_fire()
            elif k == 1:
                self.op_flush()
            elif k == 2:
                self.op_register()
            elif k == 3:
                self.op_unregister()
            elif k == 4:
                self.op_add()
            elif k == 5:
                self.op_remove()
            elif k == 6:
                self.armed += 1
                ctx.log('ARM')
                ctx.trace('(the next handler invocation performs an operation from inside the dispatch)')
            elif k == 7:
                ctx.log('S')
                self.settle()
            else:
                self.op_detach_refire()
        if not ctx.violations:
            self.armed = 0
            self.settle()
        if not ctx.violations:
            # fired, every root drained, never dispatched: 'delivered exactly once to every handler ...' fails if somebody should have got it
            for eid, m in sorted(self.meta.items()):
                if m['dispatched'] == 0 and m['target'] is not None and self.top(m['src']) >= 0:
                    req, _, _ = self.expected(self.top(m['src']), m)
                    if req:
                        ctx.violation('C01/every-matching-handler/never-dispatched',
                                      'e%d (%s fired by c%d on %s) was never dispatched although all roots were flushed until idle; expected receivers {%s}'
                                      % (eid, m['name'], m['src'], m['tlabel'], self.fmt(req)))
                        break
        if any(not self.is_root(i) for i in self.pending):
            ctx.stat('unregister-never-completed')
        ctx.nontrivial = self.njudged >= 3 and self.warm >= 1
        ctx.sim_time = 0.0


def _threaded(ctx):
    """'handlers added or removed ... before that moment are always reflected' when the change is made by ANOTHER THREAD while the loop
    dispatches (SimThreads; every source line of circuits/core is a pre-emption point).  The actor thread warms the cache with events of
    one key, calls addHandler()/removeHandler() with pre-emption points inside, and - only after that call has returned - fires further
    events of the same key; each of those is dispatched after the change was complete, so it must (not) reach the handler."""
    import random
    from simcore import simthreads, simnet
    from simcore.simnet import NET
    ch = ctx.ch
    ctx.stat('threaded')
    simnet.reset(ctx)
    sched = simthreads.begin(ctx)
    try:
        got = {}       # k -> list of handler names that received ev k
        st = dict(viol=False)

        def fail(key, detail):
            if not st['viol']:
                st['viol'] = True
                ctx.trace('VIOLATION %s: %s' % (key, detail))
                ctx.violation(key, detail)

        class App(BaseComponent):
            @handler('ev')
            def base(self, k):
                got.setdefault(k, []).append('base')
                ctx.log('h', 'base', k)

        app = App()
        nchild = ch.draw(3, 'children')
        kids = [BaseComponent().register(app) for _ in range(nchild)]
        target = ([app] + kids)[ch.draw(1 + nchild, 'target')]
        remove_mode = ch.chance(1, 3, 'remove')

        def extra(self, k):
            got.setdefault(k, []).append('extra')
            ctx.log('h', 'extra', k)
        extra_h = handler('ev')(extra)
        bound = [None]
        if remove_mode:
            bound[0] = target.addHandler(extra_h)
        nwarm = ch.randint(1, 3, 'warm')
        nafter = ch.randint(1, 2, 'after')

        def on_idle(timeout, kind, ready_fn):
            sched.block(('poll', kind, timeout), timeout, ready_fn=ready_fn, idle_wait=True)
        NET.on_idle = on_idle

        def loop():
            app.run()

        def actor():
            sched.wait_until(lambda: app.running, 'running')
            for k in range(nwarm):
                app.fire(Event.create('ev', k))
            ctx.trace('actor: %s on %s' % ('removeHandler' if remove_mode else 'addHandler', 'root' if target is app else 'child'))
            if remove_mode:
                target.removeHandler(bound[0])
            else:
                bound[0] = target.addHandler(extra_h)
            ctx.log('changed')
            for k in range(100, 100 + nafter):
                app.fire(Event.create('ev', k))
            lt = sched.threads['loop']
            sched.wait_until(lambda: lt.state == 'done' or (lt.state == 'blocked' and lt.idle_wait and not len(app)), 'drained')
            app.stop()

        sched.spawn('loop', loop)
        sched.spawn('actor', actor)
        prios = ch.permute([0, 1], 'prio')
        sched.threads['loop'].prio, sched.threads['actor'].prio = prios
        fam = ch.weighted([4, 2], 'family')
        if fam == 0:
            fn = 'removeHandler' if remove_mode else 'addHandler'
            sched.site_plan[('actor', fn, 1 + ch.draw(12, 'site-nth'))] = 'loop'
            if ch.chance(1, 2, 'second'):
                sched.site_plan[('actor', ch.choice([fn, '_fire', 'fireEvent'], 'site-fn2'), 1 + ch.draw(12, 'site-nth2'))] = 'loop'
        else:
            sched.walk = (random.Random(ch.draw(1 << 30, 'walk-seed')), ch.choice([0.05, 0.2, 0.5], 'walk-p'))
        ok = sched.start()
        if not ok or sched.limit_hit:
            raise HarnessLimit('C01 threaded: wall timeout or step limit')
        if sched.stuck:
            raise HarnessLimit('C01 threaded: global stop %r' % ({k: v[0] for k, v in sched.stuck.items()},))
        errs = {n: repr(t.error) for n, t in sched.threads.items() if t.error is not None}
        if errs:
            fail('C01/threaded/thread-died', repr(errs))
        for k in range(100, 100 + nafter):
            r = sorted(got.get(k, []))
            want = ['base'] if remove_mode else ['base', 'extra']
            if r != want and not st['viol']:
                fail('C01/live-set/stale/%s-by-another-thread' % ('removeHandler' if remove_mode else 'addHandler'),
                     'ev(%d) was fired after %s() had returned in the other thread, but was delivered to %r (expected %r)' % (
                         k, 'removeHandler' if remove_mode else 'addHandler', r, want))
        if sched.preemptions:
            ctx.stat('preempted', sched.preemptions)
        ctx.nontrivial = bool(sched.preemptions)
    finally:
        simthreads.end()
        NET.close_all()


def run_one(ctx):
    world.reset(ctx)
    if ctx.ch.draw(ctx.cfg.get('threaded_share', 12), 'mode') == 0:
        return _threaded(ctx)
    _install_marker()
    sim = Sim(ctx)
    _HOOK[0] = sim
    try:
        sim.run()
    except _Stop:
        assert ctx.violations
    finally:
        _HOOK[0] = None
