"""C03 — fire() from other threads: nothing lost or duplicated, per-thread order, the loop always wakes.

Engine: SimThreads.  The real Manager.run() executes in one sim thread, 1-3 firing threads call fire(), a driver thread stops
the manager at the end.  Every source line of circuits/core/{manager,events,helpers,pollers}.py is a pre-emption point.

Oracle
 (1) no lost wake-up: at the instant the loop thread *blocks* in its idle wait (fallback Event.wait with the flag clear, or a
     select/poll/epoll call that found nothing ready) — timed or untimed — there must be no event whose fire() had already
     returned and that has not been dispatched.  (The statement: fire() returning implies the loop dispatches the event without
     needing any timeout to expire.)
 (2) every fired event dispatched exactly once; per firing thread, in firing order.
"""
import random

from simcore import world, simnet, simthreads
from simcore.world import W
from simcore.simnet import NET
from simcore.runner import HarnessLimit

from circuits import Component, Event, Timer
from circuits.core.pollers import Select, Poll, EPoll

ID = 'C03'
LEVEL = 'exploration'
ENGINE = 'SimThreads'
LEVEL_TEXT = ('seeded exploration of thread interleavings at source-line granularity (bounded pre-emption at chosen steps/sites, '
              'PCT-like priorities, random walk) of the real run()/tick()/_fire()/generate_events hand-shake/idle wait/wake-up path, for '
              'the fallback generator and Select/Poll/EPoll; sampling of the schedule space, not enumeration')
LEVEL_NOTE = ('trusted: the baton scheduler and the RLock/Event doubles (simcore/simthreads.py), the select shim; pre-emption only between '
              'source lines of circuits/core (bytecode-level races are outside the quantifier); kernel pipe/epoll semantics of this Linux')
RULE = ('each run = configuration (idle implementation, 1-3 firing threads x 1-4 fires, optional timer / suspended task so that the loop uses '
        'timed waits) + a schedule (0-3 pre-emption points by thread-local step or by n-th line inside a hand-shake function, default thread '
        'priorities, or a random walk), all from one tape; non-trivial = at least one pre-emption actually switched threads while another '
        'thread was runnable, or a firing thread ran while the loop was blocked in its idle wait; distinct = distinct digest of the '
        'dispatch/wake-up log')
STATE_MEASURE = '(idle implementation, pre-empted thread, function, line) triples where a pre-emption switched threads'
REAL = ['circuits.core.manager.Manager.run/tick/_fire/fireEvent/_flush/_dispatcher/stop', 'circuits.core.events.generate_events',
        'circuits.core.helpers.FallBackGenerator', 'circuits.core.pollers.Select/Poll/EPoll (real pipe, real select/poll/epoll with timeout 0)',
        'circuits.core.timers.Timer']
STUBBED = ['threading.RLock/Event/Thread -> scheduler-aware doubles', 'select module -> non-blocking shim', 'time -> virtual clock',
           'atexit/signal registration -> no-ops']
ASSUMPTIONS = ['pre-emption at source-line granularity of the monitored modules', 'firing threads start firing once manager.running is true']
PROBES = ['preempted', 'bystander-manager', 'fired-while-loop-idle', 'cfg:fallback', 'cfg:Select', 'cfg:Poll', 'cfg:EPoll', 'timed-idle-wait',
          'family:bounded', 'family:site', 'family:walk', 'family:pair', 'family:pingpong', 'pingpong-completed']
TIERS = {
    'quick': dict(runs=9000, wall=30, chunk=25, cfg=dict(max_firers=3, max_fires=3)),
    'thorough': dict(runs=300000, wall=600, chunk=200, cfg=dict(max_firers=3, max_fires=5)),
}

LOOP_SITES_N = {'append': 3, '_on_generate_events': 12, '_generate_events': 10, '_dispatcher': 45, 'reduce_time_left': 8, 'tick': 8,
                'dispatchEvents': 10, '_flush': 6, '_read_ctrl': 4, 'run': 6, 'fireEvent': 8, '_fire': 8, '_process': 6}
LOOP_SITES = sorted(LOOP_SITES_N)
FIRER_SITES_N = {'_fire': 10, 'fireEvent': 8, 'reduce_time_left': 8, 'resume': 3, 'append': 3}
FIRER_SITES = sorted(FIRER_SITES_N)
GENS = ['fallback', 'Select', 'Poll', 'EPoll']


class ping(Event):
    pass


class tock(Event):
    pass


_HORIZONS = {}


def run_one(ctx):
    ch = ctx.ch
    cfg = ctx.cfg
    world.reset(ctx, task_mode=0)
    gen = ch.choice(GENS, 'idle-impl')
    ctx.stat('cfg:' + gen)
    nf = ch.randint(1, cfg['max_firers'], 'firers')
    fires = tuple(ch.randint(1, cfg['max_fires'], 'nfires') for _ in range(nf))
    extra = ch.weighted([3, 1, 1, 1], 'extra')   # none | one-shot timer | persistent timer | suspended task
    tint = ch.choice([0.05, 0.1, 1.0], 'timer-int') if extra in (1, 2) else 0
    # a second, unrelated manager running in the same process (its own loop thread, woken by its own firing thread): nothing it does
    # may take a wake-up away from the manager under test
    other = ch.weighted([2, 1] if gen == 'fallback' else [9, 1], 'bystander')
    if other:
        ctx.stat('bystander-manager')
    conf = (gen, nf, fires, extra, tint, other)
    if conf not in _HORIZONS:
        # dry run without pre-emption: per-thread step counts (a pure function of the configuration; draws nothing)
        from simcore.runner import RunCtx
        from simcore.choices import Choices
        dry = RunCtx(ID, Choices(tape=[]), cfg, ctx.tier)
        salt = W.salt
        _execute(dry, conf, None)
        _HORIZONS[conf] = dry.horizons
        world.reset(None)
        W.salt = salt
        W.ctx = ctx
    _execute(ctx, conf, _HORIZONS[conf])


def _execute(ctx, conf, horizons):
    simnet.reset(ctx)
    sched = simthreads.begin(ctx)
    try:
        _run(ctx, ctx.ch, sched, conf, horizons)
    finally:
        simthreads.end()
        NET.close_all()


def _run(ctx, ch, sched, conf, horizons):
    gen, nf, fires, extra, tint, other = conf
    dispatched = []
    returned = []
    started = []
    st = dict(viol=False)

    class App(Component):
        def ping(self, t, i):
            dispatched.append((t, i))
            ctx.log('D', t, i)
            ctx.trace('dispatch ping(%s,%d)' % (t, i))

        def tock(self, n):
            ctx.log('T', n)
            if n == 'task':
                yield None
                yield None

    app = App()
    if gen != 'fallback':
        {'Select': Select, 'Poll': Poll, 'EPoll': EPoll}[gen]().register(app)
    if extra == 1:
        Timer(tint, tock('one'), ).register(app)
    elif extra == 2:
        Timer(tint, tock('per'), persist=True).register(app)
    elif extra == 3:
        app.fire(tock('task'))

    loop_name = 'loop'

    def on_idle(timeout, kind, ready_fn):
        if sched.me() is None:
            raise world.Quiescent()
        sched.block(('poll', kind, timeout), timeout, ready_fn=ready_fn, idle_wait=True)

    NET.on_idle = on_idle

    def on_block(ts):
        if ts.name == loop_name and ts.idle_wait:
            pend = [e for e in returned if e not in dispatched]
            timed = ts.wake_at is not None
            if timed:
                ctx.stat('timed-idle-wait')
            ctx.log('I', timed, len(pend))
            st.setdefault('first_sleep', ts.steps)
            if pend and not st['viol']:
                st['viol'] = True
                ctx.trace('loop blocks in idle wait (%s) with %r fired-and-returned but undispatched' % ('timed' if timed else 'untimed', pend))
                ctx.violation('C03/lost-wakeup/%s' % gen,
                              'loop thread blocked in its %s idle wait (%r) while events %r, whose fire() had returned, were still queued'
                              % ('timed' if timed else 'untimed', ts.waiting_on[:1] + ts.waiting_on[2:], pend))

    sched.on_block = on_block

    def check_asleep(when):
        # fire() has returned: the loop must not be (still) blocked in its idle wait without a wake-up on its way
        lt = sched.threads[loop_name]
        if st['viol'] or not (lt.state == 'blocked' and lt.idle_wait):
            return
        sched.busy += 1
        try:
            waking = lt.ready_fn is not None and lt.ready_fn()
        finally:
            sched.busy -= 1
        pend = [e for e in returned if e not in dispatched]
        if pend and not waking:
            st['viol'] = True
            ctx.trace('%s: loop is asleep in its idle wait, no wake-up pending, queued: %r' % (when, pend))
            ctx.violation('C03/lost-wakeup/%s' % gen,
                          '%s the loop thread is still blocked in its %s idle wait with no wake-up pending while %r are queued'
                          % (when, 'timed' if lt.wake_at is not None else 'untimed', pend))

    def loop():
        started.append(1)
        app.run()

    def make_firer(name, n):
        def firer():
            sched.wait_until(lambda: app.running and bool(started), 'running')
            for i in range(n):
                lt = sched.threads[loop_name]
                if lt.state == 'blocked' and lt.idle_wait:
                    ctx.stat('fired-while-loop-idle')
                    st['fwi'] = True
                app.fire(ping(name, i))
                returned.append((name, i))
                ctx.log('R', name, i)
                ctx.trace('%s: fire(ping(%s,%d)) returned' % (name, name, i))
                check_asleep('after fire() of %s returned' % name)
                pp = st.get('pp')
                if pp is not None and not pp['done'] and pp['firer'] == name and sched.threads[loop_name].state == 'runnable':
                    # ping-pong schedule: the loop thread was pre-empted in favour of this firing thread; after k complete fires the loop
                    # gets a short stretch of m lines, then this thread goes on (read - interleave - write back - interleave)
                    pp['fires'] += 1
                    if pp['fires'] >= pp['k']:
                        pp['done'] = True
                        ctx.stat('pingpong-completed')
                        sched.plan[(loop_name, sched.threads[loop_name].steps + pp['m'])] = name
                        ctx.trace('%s: pauses after %d fire(s); the loop thread gets %d line(s)' % (name, pp['fires'], pp['m']))
                        sched._switch(prefer=loop_name)
        return firer

    fnames = ['f%d' % i for i in range(nf)]
    bnames = ['bloop', 'bfirer'] if other else []
    if other:
        bapp = Component()

        def bfirer():
            sched.wait_until(lambda: bapp.running and app.running and bool(started), 'b-running')
            for i in range(2):
                bapp.fire(tock('b%d' % i))
                bl = sched.threads['bloop']
                sched.wait_until(lambda: bl.state == 'done' or (bl.state == 'blocked' and bl.idle_wait), 'b-idle')

    def driver():
        sched.wait_until(lambda: all(sched.threads[n].state == 'done' for n in fnames), 'firers-done')
        lt = sched.threads[loop_name]
        sched.wait_until(lambda: lt.state == 'done' or (lt.state == 'blocked' and lt.idle_wait), 'loop-idle')
        check_asleep('all firing threads finished:')
        ctx.trace('driver: stop()')
        app.stop()
        sched.wait_until(lambda: lt.state == 'done', 'loop-done')
        if other:
            sched.wait_until(lambda: sched.threads['bfirer'].state == 'done', 'bfirer-done')
            bapp.stop()
            sched.wait_until(lambda: sched.threads['bloop'].state == 'done', 'bloop-done')

    sched.spawn(loop_name, loop)
    if other:
        sched.spawn('bloop', bapp.run)
        sched.spawn('bfirer', bfirer)
    for n, k in zip(fnames, fires):
        sched.spawn(n, make_firer(n, k))
    sched.spawn('driver', driver, prio=99)

    # ---- schedule
    names = [loop_name] + fnames + bnames
    prios = ch.permute(list(range(len(names))), 'prio')
    for n, p in zip(names, prios):
        sched.threads[n].prio = p
    total = sum(fires)
    if horizons is None:
        fam = -1
    elif ctx.cfg.get('force_plan') is not None:       # directed experiments (selftests), not used by the tiers
        fam = -2
        sched.plan = dict(ctx.cfg['force_plan'])
    else:
        fam = ch.weighted([3, 3, 2, 4, 3], 'family')
    if fam == 0:
        ctx.stat('family:bounded')
        sched.plan = simthreads.make_plan(ch, {n: horizons['steps'][n] for n in names}, ch.randint(0, 3, 'd'), names)
    elif fam == 1:
        ctx.stat('family:site')
        for _ in range(ch.randint(1, 3, 'd')):
            t = ch.choice(names, 'site-thread')
            if t in (loop_name, 'bloop'):
                fn = ch.choice(LOOP_SITES, 'site-fn')
                nth = 1 + ch.draw(LOOP_SITES_N[fn] * (total + 2), 'site-nth')
            else:
                fn = ch.choice(FIRER_SITES, 'site-fn')
                nth = 1 + ch.draw(FIRER_SITES_N[fn] * (fires[fnames.index(t)] if t in fnames else 2), 'site-nth')
            others = [n for n in names if n != t]
            sched.site_plan[(t, fn, nth)] = ch.choice(others, 'site-target')
    elif fam == 2:
        ctx.stat('family:walk')
        sched.walk = (random.Random(ch.draw(1 << 30, 'walk-seed')), ch.choice([0.02, 0.1, 0.5], 'walk-p'))
    elif fam == 3:
        # the shape of every lost wake-up: the loop is stopped somewhere on its way to sleep, a firing thread runs and is itself
        # stopped inside fire(), the loop goes to sleep, the firing thread finishes
        ctx.stat('family:pair')
        f = ch.choice(fnames, 'pair-firer')
        win = ch.weighted([2, 1, 1], 'pair-window')
        if win == 0:
            # the last few lines before the loop blocks for the first time (the dry run's count; exact unless events arrive earlier)
            i = max(1, horizons['first_sleep'] - ch.weighted([3, 2, 2, 1, 1, 1, 1, 1, 1, 1], 'pair-before-sleep'))
        elif win == 1:
            # the stretch before that: from the dispatcher arming generate_events to the idle handler (some 60 lines)
            i = max(1, horizons['first_sleep'] - 10 - ch.draw(50, 'pair-before-sleep-mid'))
        else:
            i = 1 + ch.draw(max(1, horizons['first_sleep']), 'pair-loop-step')
        j = 1 + ch.draw(max(1, horizons['steps'][f]), 'pair-firer-step')
        sched.plan[(loop_name, i)] = f
        back = ch.choice([loop_name, 'bfirer', None], 'pair-back') if other else loop_name
        if back is not None:
            sched.plan[(f, j)] = back
        if ch.chance(1, 3, 'pair-more'):
            sched.plan.update(simthreads.make_plan(ch, {n: horizons['steps'][n] for n in names}, 1, names))

    elif fam == 4:
        # ping-pong: the loop thread is stopped at the n-th line of one of its functions, a firing thread completes k fires, the loop thread
        # runs m more lines, the firing thread continues - the shape of a lost update between an unlocked read-modify-write of the loop
        # thread and the locked one of a firing thread
        ctx.stat('family:pingpong')
        f = ch.choice(fnames, 'pp-firer')
        # a third of the time inside the loop thread's own queue operation: the one piece of state it shares with firing threads without the lock
        fn = 'append' if ch.chance(1, 3, 'pp-in-append') else ch.choice(LOOP_SITES, 'pp-fn')
        nth = 1 + ch.draw(LOOP_SITES_N[fn] * (total + 2), 'pp-nth')
        sched.site_plan[(loop_name, fn, nth)] = f
        st['pp'] = dict(firer=f, k=ch.randint(1, 3, 'pp-k'), m=ch.randint(1, 12, 'pp-m'), fires=0, done=False)

    t0 = W.now
    ok = sched.start(first=None)
    ctx.sim_time = W.now - t0
    if not ok or sched.limit_hit:
        raise HarnessLimit('simthreads: wall timeout or step limit (steps=%d)' % sched.steps)
    if sched.preemptions:
        ctx.stat('preempted', sched.preemptions)
    if sched.timeout_wakeups:
        ctx.stat('released-by-timeout', len(sched.timeout_wakeups))
    for s in sched.sites:
        ctx.state((gen,) + s)
    ctx.log('steps', sched.steps, sched.preemptions)
    ctx.horizons = dict(steps={n: max(1, sched.threads[n].steps) for n in names}, first_sleep=st.get('first_sleep', 100))
    if ctx.violations:
        return
    if sched.stuck:
        lt = sched.threads[loop_name]
        pend = [e for e in returned if e not in dispatched]
        if lt.state == 'blocked' and lt.idle_wait and pend:
            ctx.violation('C03/lost-wakeup/%s' % gen, 'global stop: loop asleep with %r queued' % (pend,))
        else:
            raise HarnessLimit('simthreads: global stop without a property violation: %r' % (
                {k: (v[0] if isinstance(v, tuple) else v) for k, v in sched.stuck.items()},))
        return
    errs = {n: repr(t.error) for n, t in sched.threads.items() if t.error is not None}
    if errs:
        ctx.violation('C03/thread-died', 'exception escaped a thread: %r' % errs)
        return
    fired = [(n, i) for n, k in zip(fnames, fires) for i in range(k)]
    if sorted(returned) != sorted(fired):
        raise HarnessLimit('not all fires returned: %r' % (returned,))
    missing = [e for e in fired if e not in dispatched]
    dup = sorted({e for e in dispatched if dispatched.count(e) > 1})
    if missing:
        ctx.violation('C03/lost-event', 'fired but never dispatched: %r' % (missing,))
    elif dup:
        ctx.violation('C03/duplicate-dispatch', 'dispatched more than once: %r' % (dup,))
    else:
        for n in fnames:
            seq = [i for t, i in dispatched if t == n]
            if seq != sorted(seq):
                ctx.violation('C03/order', 'events of thread %s dispatched in order %r' % (n, seq))
                break
    ctx.nontrivial = bool(sched.preemptions or st.get('fwi'))
