"""C18 - the line protocol is segmentation-invariant; an IRC message is exactly one line on the wire.

Engine: SimNet.  Three workloads, one per run (drawn):

* line/client: `Line` on a `TCPClient` connected to a simulated server peer (PeerListener);
* line/server: `Line(getBuffer=..., updateBuffer=...)` on a `TCPServer` with 1-3 simulated client peers whose chunks the scheduler
  interleaves (per-socket buffers in a `defaultdict(bytes)`, the configuration of tests/protocols/test_line.py and examples/ircd.py);
  streams over {CR, LF, CRLF, empty lines, multi-byte UTF-8, NUL, text}; read boundaries come from the peers' chunking, the component's
  bufsize (1..4096), `spurious_eagain_read` and a cut policy that places short reads after a CR, inside a UTF-8 sequence, anywhere;
* irc: every constructor of `circuits.protocols.irc.commands` (found by introspection) - and, with a lower weight, `Message(command, *args,
  prefix=...)` directly - fired as `request` through the real `IRC` component on a `TCPClient`; the wire is read by the peer under
  `short_write` on the component's socket.  The argument strings over {space, colon, CR, LF, NUL, text, empty} are INPUT GENERATION; what
  the simulation adds is that the result is taken from the wire behind the real IRC -> write -> TCPClient path under partial sends.

Oracle (clauses of the statement):
  [sequence]   the n-th `line` event of a socket carries the n-th line of the bytes that socket has received (reference: split at LF, strip
               ONE preceding CR); at quiescence the events are exactly the lines of the whole stream, whatever the segmentation;
  [tail]       a line is never emitted before its LF has been received; after the terminator is sent the held tail arrives as one line;
  [apart]      a line of one socket never contains bytes of another socket's stream (streams use disjoint letters);
  [one-line]   an IRC message that reaches the wire is `...CRLF` with no CR and no LF before the final CRLF;
  [round-trip] `parsemsg` of that line gives back prefix, command and arguments.
"""
import collections
import errno
import inspect

from simcore import world, simnet
from simcore.world import W
from simcore.simnet import NET, Peer, PeerListener, TapePolicy, step, settle, make_running
from simcore.runner import HarnessLimit

from circuits import Manager, Component, handler
from circuits.core.pollers import Select, Poll, EPoll
from circuits.net.sockets import TCPServer, TCPClient
from circuits.net.events import connect
from circuits.protocols.line import Line
from circuits.protocols.irc import IRC, Message, parsemsg
from circuits.protocols.irc import commands as irc_commands
from circuits.protocols.irc.events import request

ID = 'C18'
LEVEL = 'exploration'
ENGINE = 'SimNet'
LEVEL_TEXT = ('seeded exploration of byte streams x read segmentations x socket interleavings for Line (client and server mode) and of '
              'IRC command constructors x argument strings observed on the wire, on the real TCPClient/TCPServer/Line/IRC components over '
              'simulated connections; sampling, not proof - evidence counts distinct logs and (cut kind, buffer state) / (constructor, '
              'argument shape, outcome) states')
LEVEL_NOTE = ('trusted: the 10-line reference splitter in this module, the SimSocket interposer (real AF_UNIX kernel sockets), Peer; '
              'the IRC argument strings are input generation, the simulation contributes the wire observation under partial sends')
RULE = ('each run = one workload (line/client, line/server with 1-3 sockets, irc) + streams/arguments + chunk schedule + cut policy + '
        'bufsize + poller, all from one tape; non-trivial = (line) at least one read ended strictly inside a line and >= 2 lines were '
        'emitted, (irc) at least one message reached the wire and at least one argument contained a special character; distinct = digest '
        'of the read/line/wire log')
STATE_MEASURE = ('line: (mode, what the read boundary split: CR|LF / inside UTF-8 / inside text / after LF, held tail empty or not, '
                 'sockets with a held tail); irc: (constructor, outcome, special characters present in the arguments)')
REAL = ['circuits.protocols.line.Line/splitLines', 'circuits.protocols.irc.IRC (request handler)', 'circuits.protocols.irc.message.Message',
        'circuits.protocols.irc.commands.*', 'circuits.protocols.irc.utils.parsemsg', 'circuits.net.sockets.TCPClient/TCPServer',
        'circuits.core.pollers.Select/Poll/EPoll', 'circuits.core.manager.Manager']
STUBBED = ['socket -> SimSocket interposer over AF_UNIX', 'select -> non-blocking shim', 'clock -> virtual', 'remote ends -> Peer/PeerListener']
ASSUMPTIONS = [
    'a bare CR (not followed by LF) is line content: the statement names LF and CRLF as the only terminators and LINESEP agrees',
    'for CR CR LF the statement does not say how many CRs belong to the terminator: the line with one CR stripped or with all trailing CRs stripped is accepted',
    'IRC: an exception at construction, or no bytes on the wire, counts as "refused" (the statement does not require that a message can be built)',
    'IRC: circuits\' own convention that the caller may pre-colon the LAST argument (replies.py does) is accepted: the last argument may come '
    'back without one leading colon; a command that is not a str (WHOIS passes its server=None as the command) is compared through str()',
    'IRC: prefix None comes back as (None, None, None); a prefix string p comes back as (p, None, None) or as a triple that joins to p',
    'the direct Message(command, *args, prefix=...) variant is included because the statement names prefix and command values; the command '
    'constructors themselves cannot set a prefix',
    'no transient/fatal send errors and no resets are injected: what TCPClient does with them is C11/C12\'s subject',
]
PROBES = ['mode:line-client', 'mode:line-server', 'mode:irc', 'cut:CR|LF', 'cut:inside-utf8', 'cut:inside-text', 'server-interleaved',
          'tail-held', 'tail-completed', 'fault:short_read', 'fault:spurious_eagain_read', 'fault:short_write', 'irc:refused-at-construction',
          'irc:one-line', 'irc:message-direct']
TIERS = {
    'quick': dict(runs=55000, wall=30, chunk=100, cfg=dict(max_tokens=14, max_cmds=4)),
    'thorough': dict(runs=600000, wall=600, chunk=400, cfg=dict(max_tokens=40, max_cmds=10)),
}

POLLERS = [Select, Poll, EPoll]
BUFSIZES = [4096, 1, 2, 3, 5, 64]
SERVER_ADDR = ('10.0.0.1', 6667)

# findings of the pinned tree (keys), used for ctx.avoid
K_ARG_CR = 'C18/irc/one-line/CR-in-argument'
K_COMMAND = 'C18/irc/one-line/CR-or-LF-in-command'
K_PREFIX = 'C18/irc/one-line/CR-or-LF-in-prefix'
K_RT_COMMAND = 'C18/irc/round-trip/command-with-space-or-empty'
K_RT_PREFIX = 'C18/irc/round-trip/prefix-with-space-or-empty'
K_RT_EMPTY_LAST = 'C18/irc/round-trip/empty-last-argument'
K_RT_EMPTY_MID = 'C18/irc/round-trip/empty-non-last-argument'
K_RT_COLON_MID = 'C18/irc/round-trip/colon-leading-non-last-argument'


# ----------------------------------------------------------------------------
# reference: written from the statement ("LF or CRLF terminated"): split at LF; ONE CR before the LF belongs to the terminator

def same_line(got, exp_raw):
    """exp_raw = the bytes between two LFs (CRs not yet stripped)."""
    if not exp_raw.endswith(b'\r'):
        return got == exp_raw
    # exactly one: in `a CR CR LF` the terminator is CRLF and the line is `a CR` (accepting the line with every trailing CR removed, as this
    # oracle once did, let a splitter that strips them all pass - seeded change C18-9)
    return got == exp_raw[:-1]


def raw_lines(stream):
    parts = bytes(stream).split(b'\n')
    return parts[:-1], parts[-1]


def cut_kind(stream, pos):
    """What a read boundary at offset pos (0 < pos < len) splits."""
    if stream[pos - 1:pos] == b'\r' and stream[pos:pos + 1] == b'\n':
        return 'CR|LF'
    if stream[pos] & 0xC0 == 0x80:
        return 'inside-utf8'
    if stream[pos - 1:pos] == b'\n':
        return 'after-LF'
    return 'inside-text'


# ----------------------------------------------------------------------------
# workload: Line

def gen_stream(ch, cfg, letter):
    """Tokens over the alphabet of the statement; `letter` keeps the streams of different sockets disjoint."""
    a = letter.encode()
    toks = [a, b'\n', b'\r\n', a + a + a, b'\r', a + b' ' + a, 'é'.encode(), '漢'.encode(), '\U0001F600'.encode(),
            b'\n\n', b'\r\n\r\n', b'\r\r\n', b'\0', b':', a * 9]
    wts = [6, 5, 5, 3, 3, 2, 2, 2, 1, 1, 1, 1, 1, 1, 1]
    n = ch.randint(1, cfg['max_tokens'], 'ntokens')
    return b''.join(toks[ch.weighted(wts, 'token')] for _ in range(n))


class CutPolicy(TapePolicy):
    """short reads at chosen offsets of each socket's inbound stream (+ tape-drawn spurious EAGAIN)."""

    def __init__(self, ctx, kinds, rate, key_of):
        super().__init__(ctx, kinds, rate)
        self.key_of = key_of
        self.cuts = {}      # key -> sorted offsets
        self.pos = collections.Counter()

    def on_recv(self, sock, n):
        key = self.key_of(sock)
        if key is None:
            return None
        if self._hit('spurious_eagain_read'):
            self.ctx.stat('fault:spurious_eagain_read')
            return ('err', errno.EWOULDBLOCK)
        p = self.pos[key]
        for c in self.cuts.get(key, ()):
            if c > p:
                if c - p < n:
                    self.ctx.stat('fault:short_read')
                    return ('short', c - p)
                break
        return None


def draw_cuts(ch, stream, label):
    n = len(stream)
    if n < 2:
        return []
    mode = ch.weighted([2, 3, 2, 2], 'cut-mode')      # none / interesting / all / random
    if mode == 0:
        return []
    if mode == 2:
        return list(range(1, n))
    if mode == 1:
        cand = [p for p in range(1, n) if cut_kind(stream, p) in ('CR|LF', 'inside-utf8')
                or stream[p - 1:p] == b'\r' or stream[p:p + 1] in (b'\r', b'\n')]
        return [p for p in cand if ch.draw(2, 'cut-here')]
    return sorted({1 + ch.draw(n - 1, 'cut-at') for _ in range(ch.randint(1, 6, 'ncuts'))})


def run_line(ctx, server_mode):
    ch = ctx.ch
    cfg = ctx.cfg
    mode = 'server' if server_mode else 'client'
    ctx.stat('mode:line-' + mode)
    nsock = ch.weighted([1, 3, 2], 'nsock') + 1 if server_mode else 1
    bufsize = ch.choice(BUFSIZES, 'bufsize')
    poller = ch.choice(POLLERS, 'poller')
    st = dict(viol=False, lines=0, inside=0)
    recvd = [bytearray() for _ in range(nsock)]       # bytes each component-side socket has received (ground truth from the interposer)
    got = [[] for _ in range(nsock)]                  # line events per socket
    letters = 'abc'
    peers = [None] * nsock
    sock_index = {}                                   # peer address -> index (server mode)

    def fail(key, detail):
        if not st['viol']:
            st['viol'] = True
            ctx.trace('VIOLATION %s: %s' % (key, detail))
            ctx.violation(key, detail)

    def index_of(sock):
        if sock is None or getattr(sock, 'sim_listening', False):
            return None
        if not server_mode:
            return 0
        return sock_index.get(sock.sim_peer)

    def oplog(kind, sock, data):
        i = index_of(sock)
        if kind != 'recv' or i is None or not data:
            return
        before = len(recvd[i])
        recvd[i] += data
        pol.pos[i] += len(data)
        whole = full[i]
        end = len(recvd[i])
        kind_ = cut_kind(whole, end) if end < len(whole) else 'at-end'
        _, tail = raw_lines(recvd[i])
        if tail:
            st['inside'] += 1
        if kind_ in ('CR|LF', 'inside-utf8', 'inside-text'):
            ctx.stat('cut:' + kind_)
        held = sum(1 for r in recvd if raw_lines(r)[1])
        ctx.state((mode, kind_, bool(tail), held))
        if server_mode and held >= 2:
            ctx.stat('server-interleaved')
        ctx.log('recv', i, bytes(data))
        ctx.trace('socket %d: read returns %r (offset %d..%d, boundary: %s)' % (i, bytes(data), before, end, kind_))

    def on_line(i, data):
        data = bytes(data)
        n = len(got[i])
        got[i].append(data)
        st['lines'] += 1
        ctx.log('line', i, data)
        ctx.trace('socket %d: line event #%d %r' % (i, n, data))
        if st['viol']:
            return
        others = set(''.join(letters[j] for j in range(nsock) if j != i).encode())
        if others & set(data):
            fail('C18/line/%s/apart/line-contains-bytes-of-another-socket' % mode,
                 'socket %d (letter %r) got line #%d %r containing bytes of another socket\'s stream' % (i, letters[i], n, data))
            return
        exp, tail = raw_lines(recvd[i])
        if n >= len(exp):
            what = 'tail/emitted-before-terminator' if tail.startswith(data) else 'sequence/extra-line'
            fail('C18/line/%s/%s' % (mode, what), 'socket %d: line event #%d %r but the %d bytes received so far contain only %d terminated '
                 'line(s) (held tail %r)' % (i, n, data, len(recvd[i]), len(exp), tail))
        elif not same_line(data, exp[n]):
            fail('C18/line/%s/sequence/wrong-line' % mode, 'socket %d: line event #%d is %r, the stream\'s line #%d is %r' % (
                i, n, data, n, exp[n][:-1] if exp[n].endswith(b'\r') else exp[n]))

    class ObsServer(Component):
        channel = 'net'

        def line(self, sock, data):
            i = index_of(sock)
            if i is None:
                fail('C18/line/server/apart/line-for-unknown-socket', 'line event for %r' % (sock,))
            else:
                on_line(i, data)

    class ObsClient(Component):
        channel = 'net'

        def line(self, data):
            on_line(0, data)

    streams = [gen_stream(ch, cfg, letters[i]) for i in range(nsock)]
    full = list(streams)                              # everything a socket will have been sent (phase 1, then + terminator)
    pol = CutPolicy(ctx, ['spurious_eagain_read'] if ch.chance(1, 3, 'eagain') else [], 5, index_of)
    for i in range(nsock):
        pol.cuts[i] = draw_cuts(ch, streams[i], i)
    NET.policy = pol
    NET.oplog = oplog
    ctx.log('cfg', mode, nsock, bufsize, poller.__name__)
    ctx.trace('Line in %s mode, %d socket(s), bufsize %d, %s' % (mode, nsock, bufsize, poller.__name__))
    for i in range(nsock):
        ctx.trace('stream %d = %r; short reads end at offsets %r' % (i, streams[i], pol.cuts[i][:40]))

    m = make_running(Manager())
    poller().register(m)
    if server_mode:
        buffers = collections.defaultdict(bytes)
        TCPServer(SERVER_ADDR, bufsize=bufsize, channel='net').register(m)
        Line(channel='net', getBuffer=buffers.__getitem__, updateBuffer=buffers.__setitem__).register(m)
        ObsServer().register(m)
        settle([m])
        for i in range(nsock):
            p = peers[i] = Peer()
            if p.connect(SERVER_ADDR) != 0:
                raise HarnessLimit('peer could not connect')
            sock_index[p.local] = i
        settle([m])
    else:
        lst = PeerListener(SERVER_ADDR)
        TCPClient(bufsize=bufsize, channel='net').register(m)
        Line(channel='net').register(m)
        ObsClient().register(m)
        settle([m])
        m.fire(connect(*SERVER_ADDR), 'net')
        settle([m])
        peers[0] = lst.accept()
        if peers[0] is None:
            raise HarnessLimit('client did not connect')

    def pump_all():
        return any([bool(p.pump()) for p in peers])

    def deliver(pending):
        # the scheduler picks whose chunk travels next, how big it is, and how many loop iterations pass before the next one
        while any(pending) and not st['viol']:
            live = [i for i in range(nsock) if pending[i]]
            i = live[ch.draw(len(live), 'whose-chunk')]
            k = ch.weighted([3, 2, 2, 2], 'chunk')
            size = len(pending[i]) if k == 0 else (1 if k == 1 else (1 + ch.draw(4, 'chunk-len') if k == 2 else 1 + ch.draw(24, 'chunk-len')))
            chunk, pending[i] = pending[i][:size], pending[i][size:]
            ctx.log('send', i, chunk)
            ctx.trace('peer %d sends %r' % (i, chunk))
            peers[i].send(chunk)
            for _ in range(ch.draw(3, 'steps')):
                step(m)
        if not st['viol']:
            settle([m], each=pump_all, cap=6000)

    def judge(phase):
        for i in range(nsock):
            if st['viol']:
                return
            sent = bytes(peers[i].sent)
            if bytes(recvd[i]) != sent:
                raise HarnessLimit('socket %d: %d of %d bytes delivered at quiescence' % (i, len(recvd[i]), len(sent)))
            exp, tail = raw_lines(sent)
            if len(got[i]) < len(exp):
                n = len(got[i])
                fail('C18/line/%s/%s' % (mode, 'tail/never-emitted-after-terminator' if phase == 2 and n == len(exp) - 1 else 'sequence/missing-line'),
                     'socket %d: at quiescence %d line event(s) %r, the stream %r contains %d terminated line(s); first missing: %r' % (
                         i, n, got[i][-3:], sent[-60:], len(exp), exp[n]))
            elif tail:
                ctx.stat('tail-held')

    deliver([bytes(s) for s in streams])
    judge(1)
    if not st['viol']:
        # the held tails get their terminators now
        terms = [ch.choice([b'\n', b'\r\n'], 'terminator') for _ in range(nsock)]
        before = [len(g) for g in got]
        for i in range(nsock):
            full[i] = streams[i] + terms[i]
        deliver(list(terms))
        judge(2)
        if not st['viol'] and all(len(got[i]) == before[i] + 1 for i in range(nsock)):
            ctx.stat('tail-completed')
    ctx.nontrivial = st['inside'] >= 1 and st['lines'] >= 2


# ----------------------------------------------------------------------------
# workload: IRC

ATOMS = ['a', ' ', ':', '\r', '\n', '\0', 'bc', '#ch', 'é', '+o', '']
ATOM_W = [6, 3, 3, 2, 1, 1, 2, 2, 1, 1, 0]
CTORS = sorted(n for n, f in vars(irc_commands).items() if n.isupper() and inspect.isfunction(f) and f.__module__ == irc_commands.__name__)
DIRECT_COMMANDS = ['PRIVMSG', 'NOTICE', '001', 'PING']
PREFIXES = ['nick', 'nick!user@host', 'irc.example.org']


def input_shapes(prefix, command, args):
    """Finding keys whose trigger is present in this message (by cause in the input, one key per root cause), in the order the
    clauses are checked.  Used both to name a violation and to steer clear of listed findings (ctx.avoid)."""
    one_line, round_trip = [], []
    if any('\r' in a or '\n' in a for a in args):
        one_line.append('C18/irc/one-line/LF-in-argument' if any('\n' in a for a in args) else K_ARG_CR)
    if '\r' in command or '\n' in command:
        one_line.append(K_COMMAND)
    if prefix is not None and ('\r' in prefix or '\n' in prefix):
        one_line.append(K_PREFIX)
    if prefix is not None and (' ' in prefix or prefix == ''):
        round_trip.append(K_RT_PREFIX)
    if ' ' in command or command == '' or command.startswith(':'):
        round_trip.append(K_RT_COMMAND)
    if any(a == '' for a in args[:-1]):
        round_trip.append(K_RT_EMPTY_MID)
    if any(a.startswith(':') for a in args[:-1]):
        round_trip.append(K_RT_COLON_MID)
    if args and args[-1] == '':
        round_trip.append(K_RT_EMPTY_LAST)
    return one_line, round_trip


def run_irc(ctx):
    ch = ctx.ch
    cfg = ctx.cfg
    ctx.stat('mode:irc')
    st = dict(viol=False, wire=0, special=0)
    poller = ch.choice(POLLERS, 'poller')

    def fail(key, detail):
        if not st['viol']:
            st['viol'] = True
            ctx.trace('VIOLATION %s: %s' % (key, detail))
            ctx.violation(key, detail)

    def gen_str():
        """Input generation: a string over {space, colon, CR, LF, NUL, text}; simplest = 'a'."""
        n = ch.weighted([6, 3, 2, 1, 1], 'natoms') + 1
        if n == 5:
            n = 0                                           # the empty string
        return ''.join(ATOMS[ch.weighted(ATOM_W, 'atom')] for _ in range(n))

    class Obs(Component):
        channel = 'irc'

        @handler('exception', channel='*')
        def _on_exception(self, etype, *args, **kwargs):
            ctx.log('exception', getattr(etype, '__name__', '?'))

    NET.policy = TapePolicy(ctx, ['short_write'] if ch.chance(2, 3, 'short-writes') else [], rate=2)
    lst = PeerListener(SERVER_ADDR)
    m = make_running(Manager())
    poller().register(m)
    TCPClient(channel='irc').register(m)
    IRC(channel='irc').register(m)
    Obs().register(m)
    settle([m])
    m.fire(connect(*SERVER_ADDR), 'irc')
    settle([m])
    peer = lst.accept()
    if peer is None:
        raise HarnessLimit('client did not connect')
    ctx.log('cfg', 'irc', poller.__name__)

    ncmd = ch.randint(1, cfg['max_cmds'], 'ncmds')
    for _ in range(ncmd):
        if st['viol']:
            break
        # ---- input generation
        direct = ch.chance(1, 5, 'message-direct')
        prefix = None
        if direct:
            ctx.stat('irc:message-direct')
            name = 'Message'
            command = DIRECT_COMMANDS[ch.draw(len(DIRECT_COMMANDS), 'command')] if ch.weighted([4, 1], 'command-kind') == 0 else gen_str()
            k = ch.weighted([2, 2, 2], 'prefix-kind')
            prefix = None if k == 0 else (PREFIXES[ch.draw(len(PREFIXES), 'prefix')] if k == 1 else gen_str())
            args = [gen_str() for _ in range(ch.randint(0, 3, 'nargs'))]
            kw = dict(prefix=prefix) if prefix is not None else {}
            call = lambda: request(Message(command, *args, **kw))   # noqa: E731
            shown = 'request(Message(%s))' % ', '.join([repr(command)] + [repr(a) for a in args] + ['%s=%r' % kv for kv in kw.items()])
        else:
            name = CTORS[ch.draw(len(CTORS), 'ctor')]
            fn = getattr(irc_commands, name)
            args = []
            for p in inspect.signature(fn).parameters.values():
                if p.kind == p.VAR_POSITIONAL:
                    args += [gen_str() for _ in range(ch.randint(0, 3, 'nvarargs'))]
                elif p.default is p.empty or ch.draw(2, 'give-optional'):
                    args.append(gen_str())
                else:
                    args.append(None)                       # optional argument left out
            call = lambda: fn(*args)    # noqa: E731
            shown = '%s(%s)' % (name, ', '.join(map(repr, args)))
        feats = ''.join(sorted({{' ': 's', ':': 'c', '\r': 'R', '\n': 'N', '\0': '0'}[c] for a in args if a for c in a if c in ' :\r\n\0'}
                               | ({'e'} if any(a == '' for a in args) else set())))
        ctx.log('cmd', shown)
        # ---- construction
        try:
            ev = call()
        except Exception as e:
            ctx.stat('irc:refused-at-construction')
            ctx.state((name, 'refused-at-construction', feats))
            ctx.log('refused', type(e).__name__)
            ctx.trace('%s -> refused at construction: %s: %s' % (shown, type(e).__name__, e))
            continue
        msg = ev.args[0]          # the Message: "its prefix, command and arguments" are its public attributes
        exp_command = msg.command if isinstance(msg.command, str) else str(msg.command)
        exp_args = list(msg.args)
        exp_prefix = msg.prefix
        if not all(isinstance(a, str) for a in exp_args) or not (exp_prefix is None or isinstance(exp_prefix, str)):
            raise HarnessLimit('harness: unexpected Message attributes %r %r' % (exp_args, exp_prefix))
        one_line_keys, round_trip_keys = input_shapes(exp_prefix, exp_command, exp_args)
        if ctx.avoid and (set(one_line_keys) | set(round_trip_keys)) & ctx.avoid:
            ctx.stat('irc:avoided-known-trigger')
            ctx.log('avoided')
            ctx.trace('%s -> not sent (trigger of a listed finding, avoided in this run)' % shown)
            continue
        if feats:
            st['special'] += 1
        # ---- through the real component path onto the wire
        mark = len(peer.inp)
        m.fire(ev, 'irc')
        for _ in range(ch.draw(3, 'peer-reads-late')):
            step(m)
        settle([m], each=lambda: bool(peer.recv()), cap=4000)
        wire = bytes(peer.inp[mark:])
        ctx.log('wire', wire)
        ctx.trace('%s -> wire %r' % (shown, wire))
        if not wire:
            ctx.stat('irc:refused-no-bytes')
            ctx.state((name, 'refused-no-bytes', feats))
            continue
        st['wire'] += 1
        # [one-line] exactly one CRLF-terminated line; IRC servers treat CR and LF alone as terminators too
        if not wire.endswith(b'\r\n'):
            fail('C18/irc/one-line/not-CRLF-terminated', '%s reached the wire as %r' % (shown, wire))
            break
        body = wire[:-2]
        if b'\r' in body or b'\n' in body:
            seen = body.replace(b'\r', b'\n').split(b'\n')
            fail((one_line_keys + ['C18/irc/one-line/terminator-from-nowhere'])[0],
                 '%s reached the wire as %r: a server reads %d lines %r' % (shown, wire, len(seen), seen))
            break
        ctx.stat('irc:one-line')
        # [round-trip] parsemsg of the line gives back prefix, command and arguments
        try:
            got_prefix, got_command, got_args = parsemsg(body)
        except Exception as e:
            got_prefix, got_command, got_args = ('parsemsg raised %s' % type(e).__name__,), None, []
        ok_prefix = (got_prefix == (None, None, None)) if exp_prefix is None else (
            got_prefix == (exp_prefix, None, None) or (None not in got_prefix and '%s!%s@%s' % tuple(got_prefix) == exp_prefix))
        ok_args = len(got_args) == len(exp_args) and got_args[:-1] == exp_args[:-1] and (
            not exp_args or got_args[-1] == exp_args[-1] or (exp_args[-1].startswith(':') and got_args[-1] == exp_args[-1][1:]))
        if got_command == exp_command and ok_prefix and ok_args:
            ctx.state((name, 'one-line', feats))
            continue
        other = 'C18/irc/round-trip/' + ('prefix' if not ok_prefix else 'command' if got_command != exp_command else 'arguments')
        fail((round_trip_keys + [other])[0],
             '%s reached the wire as %r; parsemsg gives prefix=%r command=%r args=%r, the message has prefix=%r command=%r args=%r' % (
                 shown, wire, got_prefix, got_command, got_args, exp_prefix, msg.command, exp_args))
    ctx.nontrivial = st['wire'] >= 1 and st['special'] >= 1


def run_one(ctx):
    world.reset(ctx)
    simnet.reset(ctx)
    try:
        k = ctx.ch.weighted([3, 4, 4], 'workload')
        if k == 0:
            run_line(ctx, False)
        elif k == 1:
            run_line(ctx, True)
        else:
            run_irc(ctx)
        ctx.sim_time = W.now - world.EPOCH
    finally:
        NET.oplog = None
        NET.close_all()
