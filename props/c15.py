"""C15 — every HTTP response is a well-formed, self-delimiting message carrying exactly the application's body.

Engine: SimNet.  The real web stack (`circuits.web.Server` = TCPServer + HTTP + Dispatcher, a generated `Controller`) runs unchanged on
simulated sockets under a real poller; the clients are harness `Peer`s that speak HTTP by hand and read at a drawn pace.

Workload (all from the tape): a Controller with 1-5 exposed methods, each with a drawn *shape* - returns str / bytes / list of str+bytes /
is a generator function / returns a generator (both with '' chunks) - the four returning shapes also with `response.stream = True` switched on
first (shape `sized+stream`: streaming on, yet a result of known size) / returns a binary or text file object / returns or assigns a file-LIKE object whose read(n)
delivers drawn short reads (a stream: 1..n bytes per call, b'' at the end; with `response.stream` left on or switched off) / sets
`response.body = generator` with `response.stream` on or off / keeps the response open and pushes `stream` events later / sets a status of any class / 1xx-204-304 with nothing or
(shape `nobody+body`) with a str / bytes / list / generator result all the same /
returns or raises every kind of error and redirect - with sizes from 0 to beyond the socket send buffer; requests GET/HEAD x HTTP/1.0/1.1 x
Connection keep-alive/close/absent, request targets in canonical and non-canonical form (`/x/../m0`, `/./m0`, `//m0`, `/%6d0`, `/m0//` ...: the
server itself answers those, today with a 301 to the canonical URL), in sequences on 1-3 connections at once (a connection's next request is sent only after its previous
response was received completely and the server went quiet: no pipelining); peers that read everything at once, slowly, or stall first;
`short_write` / `transient_send_error` faults through TapePolicy in half of the runs (fault-free and faulty runs are counted apart).

Oracle (per connection, on the bytes the peer received, with refs/http_resp.py = strict RFC 7230 client-side parser using only what the message
announces; http.client.HTTPResponse as a second opinion on every response):
  * well-formed: the bytes after the previous response parse as exactly one response (status line, header lines, framing);
  * exact status / body: status as the application chose, body == the application's bytes (str encoded with the response encoding,
    '' chunks contribute nothing); no body at all for HEAD, 1xx, 204, 304; a header the application set on the response is there;
  * framing fits the request: no chunked coding to an HTTP/1.0 request;
  * own response: the `X-Marker` header / body marker is the one of THIS request, never one of an earlier request;
  * nothing left over: at quiescence no byte follows the end of the response, idle connections receive nothing;
  * closed iff announced: at quiescence the server has closed the connection iff the response says so (`Connection: close`, HTTP/1.0 without
    `keep-alive`, or a close-delimited body);
  * answered: at quiescence every request has a complete response (the statement's "each further request is answered"; the bound is
    quiescence of the server - no queued event, no task, no byte in flight for 3 consecutive loop iterations - not a time-out).
"""
import email.utils
import errno
import io
import zlib

from simcore import world, simnet
from simcore.world import W
from simcore.simnet import NET, Peer, TapePolicy, step, make_running
from simcore.runner import HarnessLimit
from refs.http_resp import parse_response, second_opinion, Malformed

from circuits import Manager, Component, Event
from circuits.core.pollers import Select, Poll, EPoll
from circuits.web import Controller, Server
from circuits.web import exceptions as X
from circuits.web.errors import httperror
from circuits.web.events import stream
import circuits.web.wrappers as WR
import circuits.web.servers as WS

ID = 'C15'
LEVEL = 'exploration'
ENGINE = 'SimNet'
LEVEL_TEXT = ('seeded exploration of generated controllers x request sequences x connection interleavings x peer read pace x send faults on the '
              'real web server stack over simulated sockets; every byte stream a client receives is split and judged by an independent strict '
              'response parser (http.client as second opinion); sampling, not proof - evidence states how many distinct histories were explored')
LEVEL_NOTE = ('trusted: refs/http_resp.py (RFC 7230 3.3.3 framing, cross-checked against http.client on 20k generated messages), the SimSocket '
              'interposer and Peer, the quiescence test (no queued event/task/byte for 3 iterations), CPython; AF_UNIX stands in for TCP')
RULE = ('each run = generated Controller (1-5 shaped methods) + 1-3 connections + request sequence (method, version, Connection header, target '
        'shape, read pace, start offset) + poller + SO_SNDBUF + fault settings, all from one tape; non-trivial = at least two responses were '
        'received completely and judged; distinct = digest of the (request, response status/framing/body-crc/close) log')
STATE_MEASURE = '(handler shape, method, request version, Connection wish, response framing, closed?, position on the connection, previous method on it)'
REAL = ['circuits.web.servers.Server/BaseServer', 'circuits.web.http.HTTP (_on_read/_on_request_success/_on_response/_on_stream/_on_httperror/...)',
        'circuits.web.wrappers.Request/Response/Body/prepare', 'circuits.web.errors (httperror, redirect, ...)', 'circuits.web.exceptions',
        'circuits.web.dispatchers.Dispatcher', 'circuits.web.controllers.Controller/expose', 'circuits.web.parsers.http.HttpParser',
        'circuits.net.sockets.TCPServer (write/_write/_on_write/close/_close)', 'circuits.core.pollers.Select/Poll/EPoll (real select/poll/epoll, timeout 0)',
        'circuits.core.manager (tick, tasks for generator handlers, Value notification)']
STUBBED = ['socket -> SimSocket over AF_UNIX (simcore/simnet.py)', 'select module -> non-blocking shim', 'time()/Date header: circuits.web.wrappers.time and '
           '.formatdate rebound to the virtual clock', 'circuits.web.servers.stderr -> sink', 'clients = harness Peer objects with a hand-written HTTP encoder']
ASSUMPTIONS = ['requests are delivered whole and are well-formed (segmentation and malformed input are C13/C14)',
               'no pipelining: the next request on a connection is sent after the previous response is complete and the server is quiescent',
               'the application never sets Content-Length / Transfer-Encoding / Connection itself',
               '`response.stream = True` together with a returned str / bytes / generator is only used with a non-empty result: with an empty one the response is the push idiom '
               '(streaming on, no body yet, data follows in `stream` events) and staying open is what the application asked for',
               'a handler that sets 1xx / 204 / 304 and returns a body all the same: the statement demands that the response carries no body, nothing else is asked of it '
               '(a Content-Length header on such a response is accepted, RFC 7230 3.3.3 makes clients ignore it)',
               'generators yield at least one value (a generator handler that yields nothing is never answered at all: outside "every response the server writes")',
               'stream events of the push idiom start after `response_success`, carry non-empty data and are only used for GET',
               'error pages: only status, framing and the presence of the application\'s description are judged, not the page text',
               'redirect() without a code may answer 302 or 303; a close wish of the client that the server does not honour is not a violation as long as the response says keep-alive',
               'response encoding is utf-8 or latin-1 (server-wide)',
               'a request whose target is not in canonical form may be answered by the server as it sees fit (today: 301 to the canonical URL): unless the '
               'response is the handler\'s own (X-Marker of this request) only well-formedness, framing, own-response (no marker of another request in '
               'X-Marker / Location / body), left-over bytes and closed-iff-announced are judged for it',
               'file-like bodies: read(n) returns 1..n bytes until the data is exhausted, then an empty result (the io.RawIOBase contract); close() is not judged']
PROBES = ['resp-checked', 'resp-checked:fault-free', 'resp-checked:faulty', 'keepalive-reuse', 'framing:length', 'framing:chunked', 'framing:close', 'framing:none',
          'method:HEAD', 'http10', 'closed-by-server', 'kept-open', 'real-partial-send', 'peer:stall', 'peer:slow', 'fault:short_write',
          'fault:transient_send_error', 'overlap', 'body>sndbuf', 'empty-chunk', 'nonascii', 'second-opinion', 'run:fault-free', 'run:faulty',
          'cfg:Select', 'cfg:Poll', 'cfg:EPoll', 'kind:str', 'kind:bytes', 'kind:list', 'kind:genfunc', 'kind:genret', 'kind:file', 'kind:textfile',
          'kind:stream', 'kind:nobody', 'kind:error', 'kind:sfile', 'kind:bodygen', 'kind:deleg', 'deleg:fire', 'deleg:fire-late', 'deleg:call', 'deleg:call-late', 'deleg:fire-raise', 'deleg:call-raise', 'sized+stream', 'sized+stream:str', 'sized+stream:bytes', 'sized+stream:list',
          'sized+stream:genret', 'nobody+body', 'nobody+body:204', 'nobody+body:304', 'nobody+body:1xx', 'non-canonical-path', 'further-request-after-redirect',
          'short-read-fileobj', 'short-read-fileobj:return', 'short-read-fileobj:body', 'short-read-fileobj:body-nostream', 'status-class:1', 'status-class:2', 'status-class:3', 'status-class:4', 'status-class:5']
TIERS = {
    'quick': dict(runs=30000, wall=26, chunk=25, cfg=dict(max_requests=5, sizes=0, round_cap=6000)),
    'thorough': dict(runs=150000, wall=580, chunk=100, cfg=dict(max_requests=10, sizes=1, round_cap=30000)),
}

# finding keys of genuine defects (see findings/C15-*.py); the generator steers clear of their triggers when they are in ctx.avoid
K_HEAD_STALE = 'C15/further-request/after-HEAD'
K_HEAD_OPEN = 'C15/close/announced-but-open/HEAD'
K_DUP_ERROR = 'C15/leftover/error-raised'
K_STREAM_E0 = 'C15/body/stream+empty-first/chunked'
K_STREAM_E0L = 'C15/leftover/stream+empty-first'
K_PUSH = 'C15/body/push/length'
K_UNSTREAMED_E = 'C15/unanswered/unstreamed-iterator+empty/incomplete-response'
K_UNSTREAMED_E2 = 'C15/malformed/truncated/unstreamed-iterator+empty'
# one root cause, three symptoms: a 500 page where the body should be (small results) / behind an empty body / a connection that ends inside the body (large ones)
K_SIZED_STREAM = ('C15/body/sized+stream/length', 'C15/leftover/sized+stream', 'C15/malformed/truncated/sized+stream')
K_NOBODY_BODY = 'C15/leftover/nobody+body'

KINDS = ['str', 'bytes', 'list', 'genfunc', 'genret', 'file', 'textfile', 'stream', 'nobody', 'error', 'push', 'sfile', 'bodygen', 'deleg']
KIND_W = [6, 3, 4, 3, 3, 3, 2, 4, 2, 4, 1, 5, 2, 4]
# the body comes from ANOTHER component: `return self.fire(e, 'app')` (the Value of a second event; resolved at once or some loop iterations later) or
# `v = yield self.call(e, 'app'); yield v.value` (tests/web/test_value.py, test_call_wait.py); the other component returns, yields late or raises
# (a failed fire() is the server's business: 500; a failed call() is seen by the handler, which answers with a body of its own)
DELEG_SUBS = ['fire', 'fire-late', 'call', 'call-late', 'fire-raise', 'call-raise']
READ_SIZES = [1, 7, 100, 1000, 4095, 4096, 10000]     # how much one read() of a file-like body delivers at most (BUFSIZE = 4096 is what is asked for)
NONCANON = ['/x/../m%d', '/./m%d', '//m%d', '/%%6d%d', '/x/y/../../m%d', '/../m%d', '/m%d//']
SIZES = [[40, 0, 1, 5, 300, 4095, 4096, 4097, 9000, 20000, 70000], [40, 0, 1, 5, 300, 4095, 4096, 4097, 9000, 20000, 70000, 300000]]
SIZE_W = [[4, 3, 2, 3, 4, 1, 2, 1, 3, 2, 1], [4, 3, 2, 3, 4, 1, 2, 1, 3, 2, 2, 1]]
STATUSES = [201, 202, 203, 205, 206, 299, 300, 302, 400, 402, 404, 410, 413, 500, 503]
NOBODY = [204, 304, 100, 101, 102]
NOBODY_VALUES = ['str', 'bytes', 'list', 'genret', 'bodygen']     # what a handler that set such a status returns all the same
SIZED = ('str', 'bytes', 'list', 'genret')                        # results whose size the server knows when it writes the header section
ERR_SUBS = ['none', 'forbidden', 'notfound', 'httperror', 'redirect', 'raise_http', 'raise_redirect', 'raise_plain']
RAISE = ['NotFound', 'Forbidden', 'BadRequest', 'Unauthorized', 'Gone', 'InternalServerError', 'ServiceUnavailable', 'RequestEntityTooLarge']
REDIRECT_CODES = [None, 301, 302, 303, 307, 308, 304, 305]
REDIRECT_WITH_LOCATION = (None, 300, 301, 302, 303, 305, 307, 308)
POLLERS = [Select, Poll, EPoll]


def _install():
    """Idempotent: the clock the Date header is made from, and the banner on stderr."""
    WR.time = W.time
    WR.formatdate = lambda timeval=None, localtime=False, usegmt=True: email.utils.formatdate(W.now if timeval is None else timeval, localtime, True)
    WS.stderr = world._Sink('web.servers')


class ShortReader:
    """A file-like *stream*: read(n) returns at most n and at most the next drawn amount of what is left (never nothing before the end), then
    an empty result for ever - what a pipe, a socket file or any adapter over a producer does."""

    def __init__(self, data, reads, on_short):
        self.data, self.reads, self.on_short = data, reads, on_short
        self.pos = self.calls = 0
        self.closed = False

    def read(self, n=-1):
        left = len(self.data) - self.pos
        if left <= 0:
            return self.data[:0]
        k = self.reads[self.calls % len(self.reads)]
        self.calls += 1
        want = left if (n is None or n < 0) else min(n, left)
        k = max(1, min(k, want))
        if k < want:
            self.on_short()
        out = self.data[self.pos:self.pos + k]
        self.pos += k
        return out

    def close(self):
        self.closed = True


def text_for(marker, n, nonascii):
    """What the application says: n characters, beginning with the request's marker, with a period (997) that no chunk size divides."""
    if n <= 0:
        return ''
    unit = ''.join('%s%s%03d;' % (marker, nonascii if i % 3 == 0 else ':', i) for i in range(120))[:997]
    return (unit * (n // 997 + 1))[:n]


def draw_pieces(ch):
    """How a body is cut into chunks: ('text', as bytes?, weight) pieces with ('empty', as bytes?) ones in between."""
    pieces = []
    for i in range(ch.randint(1, 5, 'pieces')):
        if ch.chance(1, 4, 'empty-chunk'):
            pieces.append(('empty', ch.chance(1, 2, 'empty-bytes')))
        pieces.append(('text', ch.chance(1, 3, 'as-bytes'), ch.randint(1, 8, 'piece-weight')))
    if ch.chance(1, 6, 'empty-last'):
        pieces.append(('empty', False))
    return pieces


def gen_spec(ch, avoid, sizes):
    kinds, w = list(KINDS), list(KIND_W)
    if K_PUSH in avoid:
        w[kinds.index('push')] = 0
    kind = kinds[ch.weighted(w, 'shape')]
    spec = dict(kind=kind, size=0, nonascii=False, status=None, pieces=None, sub=None, code=None, cls=None, gap=0, empty_first=False, reads=None, how=None, textmode=False, stream_on=False)
    if kind == 'nobody':
        spec['status'] = ch.choice(NOBODY, 'nobody-status')
        if ch.chance(1, 2, 'nobody-with-body') and K_NOBODY_BODY not in avoid:
            # "HEAD, 1xx, 204 and 304 responses carry no body" - whatever the handler returned
            spec['sub'] = ch.choice(NOBODY_VALUES, 'nobody-value')
            spec['size'] = SIZES[sizes][ch.weighted(SIZE_W[sizes], 'size')] or 11
            spec['nonascii'] = ch.chance(1, 3, 'non-ascii')
            if spec['sub'] in ('list', 'genret', 'bodygen'):
                spec['pieces'] = draw_pieces(ch)
        else:
            spec['sub'] = ch.choice(NOBODY_VALUES[:3], 'nobody-value')
        return spec
    if kind == 'error':
        subs = [s for s in ERR_SUBS if not (K_DUP_ERROR in avoid and s.startswith('raise_'))]
        spec['sub'] = sub = ch.choice(subs, 'error-kind')
        if sub == 'httperror':
            spec['code'] = ch.choice([400, 409, 500, 503], 'error-code')
        elif sub == 'redirect':
            spec['code'] = ch.choice(REDIRECT_CODES, 'redirect-code')
        elif sub == 'raise_http':
            spec['cls'] = ch.choice(RAISE, 'exception-class')
        return spec
    spec['size'] = SIZES[sizes][ch.weighted(SIZE_W[sizes], 'size')]
    spec['nonascii'] = ch.chance(1, 3, 'non-ascii')
    if kind == 'deleg':
        spec['sub'] = ch.choice(DELEG_SUBS, 'deleg-kind')
        spec['gap'] = ch.choice([1, 2, 5], 'deleg-late') if 'late' in spec['sub'] else 0
        spec['size'] = spec['size'] or 7          # an empty str from the other component is "no result yet" for a Value, not a body
    if kind != 'genfunc' and not (kind == 'deleg' and spec['sub'].startswith('call')) and ch.chance(1, 4, 'set-status'):    # a generator function cannot reach self.response any more when it runs
        spec['status'] = ch.choice(STATUSES, 'status')
    if kind in SIZED and ch.chance(1, 5, 'stream-on') and not any(k in avoid for k in K_SIZED_STREAM):
        # "streaming on/off" x "every handler result type": streaming switched on, yet the result is one of known size
        spec['stream_on'] = True
        if kind != 'list':
            # an empty str / bytes result (also: the only, empty, chunk of a returned generator) leaves the response as the push idiom has it (see ASSUMPTIONS)
            spec['size'] = spec['size'] or 1
    if kind == 'sfile':
        spec['how'] = ch.choice(['return', 'body', 'body-nostream'], 'fileobj-use')
        spec['textmode'] = ch.chance(1, 4, 'text-mode')
        # amounts one read() delivers at most; scaled so that the largest bodies still take a bounded number of reads (one loop iteration each)
        spec['reads'] = [max(ch.choice(READ_SIZES, 'read-amount'), spec['size'] // 150) for _ in range(ch.randint(1, 5, 'read-pattern'))]
    if spec['size'] == 0 and (kind == 'bodygen' or spec['how'] == 'body-nostream') and (K_UNSTREAMED_E in avoid or K_UNSTREAMED_E2 in avoid):
        spec['size'] = 1
    if kind in ('list', 'genfunc', 'genret', 'stream', 'push', 'bodygen'):
        spec['pieces'] = draw_pieces(ch)
        # the first chunk the iterator will deliver is empty ('' piece, or a text piece that gets no character)
        spec['empty_first'] = not chunks_for(spec, text_for('K00Z', spec['size'], ':'), 'utf-8')[0]
        if kind == 'stream' and spec['empty_first'] and (K_STREAM_E0 in avoid or K_STREAM_E0L in avoid):
            spec['kind'] = 'genret'
    if kind == 'push':
        spec['gap'] = ch.choice([0, 1, 3], 'push-gap')
    return spec


def shape_of(spec):
    s = spec['kind']
    if spec['stream_on']:
        s = 'sized+stream'                    # response.stream switched on, the result is a str / bytes / list / returned generator
    if s == 'nobody' and spec['size']:
        s = 'nobody+body'                     # 1xx / 204 / 304 set by the handler, which returns a body all the same
    if s in ('error', 'deleg'):
        s = s + '-' + spec['sub']
    if s == 'stream' and spec['empty_first']:
        s += '+empty-first'
    if s == 'sfile':
        s += '-' + spec['how']
    if spec['size'] == 0 and (s == 'bodygen' or spec['how'] == 'body-nostream'):
        s = 'unstreamed-iterator+empty'       # an iterator body (generator or file-like), response.stream off, that turns out to be empty
    return s


def chunks_for(spec, text, enc):
    """Cut the text into the drawn pieces (str or bytes, '' / b'' in between)."""
    ps = spec['pieces']
    total = sum(p[2] for p in ps if p[0] == 'text')
    out, pos, acc = [], 0, 0
    last = max(i for i, p in enumerate(ps) if p[0] == 'text')
    for i, p in enumerate(ps):
        if p[0] == 'empty':
            out.append(b'' if p[1] else '')
            continue
        acc += p[2]
        end = len(text) if i == last else len(text) * acc // total
        piece = text[pos:end]
        pos = end
        out.append(piece.encode(enc) if p[1] else piece)
    return out


def expected_for(spec, marker, method, enc, na):
    """(allowed statuses, exact body or None, bytes the body must contain or None, app header expected?)"""
    kind = spec['kind']
    nobody = method == 'HEAD'
    if kind == 'error':
        sub = spec['sub']
        m = marker.encode()
        if sub == 'none':
            st, contains = {404}, None
        elif sub == 'forbidden':
            st, contains = {403}, m
        elif sub == 'notfound':
            st, contains = {404}, m
        elif sub == 'httperror':
            st, contains = {spec['code']}, m
        elif sub == 'redirect':
            code = spec['code']
            st = {302, 303} if code is None else {code}
            contains = None
            if code == 304:
                nobody = True
        elif sub == 'raise_http':
            st, contains = {getattr(X, spec['cls']).code}, None     # which of the two error paths renders the page decides about the description
        elif sub == 'raise_redirect':
            st, contains = {303}, None
        else:
            st, contains = {500}, None
        if nobody:
            return st, b'', None, False
        return st, None, contains, False
    if kind == 'deleg' and spec['sub'] == 'fire-raise':
        return {500}, (b'' if nobody else None), None, False
    st = {spec['status'] or 200}
    header = kind != 'genfunc' and not (kind == 'deleg' and spec['sub'].startswith('call'))
    if kind == 'nobody':
        return st, b'', None, header
    body = text_for(marker, spec['size'], na if spec['nonascii'] else ':').encode(enc)
    return st, (b'' if nobody else body), None, header


def run_one(ctx):
    world.reset(ctx)
    simnet.reset(ctx)
    _install()
    try:
        _run(ctx)
    finally:
        NET.close_all()


class deleg(Event):
    """what a delegating request handler fires at the backend component"""


class _Policy(TapePolicy):
    """TapePolicy that also remembers how many bytes the component asked to send (to recognise real partial sends)."""

    def on_send(self, sock, n):
        self.asked = n
        act = TapePolicy.on_send(self, sock, n)
        self.short = bool(act and act[0] == 'short')
        if act and self.ctx.keep_trace:
            self.ctx.trace('    fault: server send(%d bytes) to %s:%s -> %s' % (n, sock.sim_peer[0], sock.sim_peer[1], 'only %d bytes taken' % act[1] if self.short
                                                                          else errno.errorcode.get(act[1], act[1])))
        return act


def _run(ctx):
    ch, cfg, avoid = ctx.ch, ctx.cfg, ctx.avoid
    poller = ch.choice(POLLERS, 'poller')
    ctx.stat('cfg:' + poller.__name__)
    NET.sndbuf = ch.choice([None, 4608, 16384], 'sndbuf')
    enc = ch.choice(['utf-8', 'utf-8', 'latin-1'], 'encoding')
    na = 'é' if enc == 'latin-1' else 'é€'[ch.draw(2, 'non-ascii-char')]
    faulty = ch.chance(1, 2, 'faulty')
    pol = _Policy(ctx, ch.subset(['short_write', 'transient_send_error'], 'fault-kinds') if faulty else [], rate=ch.choice([3, 8, 20], 'fault-rate') if faulty else 4)
    pol.asked, pol.short = 0, False
    faulty = bool(pol.kinds)
    NET.policy = pol
    ctx.stat('run:faulty' if faulty else 'run:fault-free')
    T0 = W.now
    st = dict(viol=False, checked=0, serial=0, rounds=0)
    markers = {}          # marker -> request record
    short_reads = []      # markers of requests whose file-like body delivered at least one short read
    pushes = []           # jobs of the push idiom

    def oplog(kind, sock, data):
        if kind == 'send' and len(data) < pol.asked and not pol.short:
            ctx.stat('real-partial-send')
    NET.oplog = oplog

    def fail(key, detail, r=None):
        if not st['viol']:
            st['viol'] = True
            ctx.trace('VIOLATION %s: %s' % (key, detail))
            ctx.violation(key, detail)

    def failr(r, key, detail):
        return fail(key, detail, r)

    # ---- the application ------------------------------------------------------------------------------------
    nspecs = ch.randint(1, 5, 'methods')
    specs = [gen_spec(ch, avoid, cfg['sizes']) for _ in range(nspecs)]

    def make_method(idx, spec):
        kind = spec['kind']

        def pre(self, k):
            self.response.headers['X-Marker'] = k
            if spec['status'] is not None:
                self.response.status = spec['status']

        def text(k):
            return text_for(k, spec['size'], na if spec['nonascii'] else ':')

        if kind == 'genfunc':
            def meth(self, k=''):
                yield from chunks_for(spec, text(k), enc)
        elif kind == 'deleg' and spec['sub'].startswith('call'):
            def meth(self, k=''):
                v = yield self.call(deleg(idx, k), 'app')
                # (a handler that passed the error triple of a failed backend on as its body would be producing something that is no body type)
                yield text(k) if v.errors else v.value
        elif kind == 'deleg':
            def meth(self, k=''):
                pre(self, k)
                return self.fire(deleg(idx, k), 'app')
        elif kind == 'error':
            sub = spec['sub']

            def meth(self, k=''):
                if sub == 'none':
                    return None
                if sub == 'forbidden':
                    return self.forbidden(k)
                if sub == 'notfound':
                    return self.notfound(k)
                if sub == 'httperror':
                    return httperror(self.request, self.response, spec['code'], description=k)
                if sub == 'redirect':
                    return self.redirect('/landing/' + k, spec['code'])
                if sub == 'raise_http':
                    raise getattr(X, spec['cls'])(description=k)
                if sub == 'raise_redirect':
                    raise X.Redirect('/landing/' + k)
                raise RuntimeError('application failure ' + k)
        else:
            def meth(self, k=''):
                pre(self, k)
                vk = kind
                if kind == 'nobody':
                    if not spec['size']:
                        return {'str': '', 'bytes': b'', 'list': []}[spec['sub']]
                    vk = spec['sub']
                if spec['stream_on']:
                    self.response.stream = True
                t = text(k)
                if vk == 'str':
                    return t
                if vk == 'bytes':
                    return t.encode(enc)
                if vk == 'list':
                    return chunks_for(spec, t, enc)
                if vk == 'genret':
                    return (c for c in chunks_for(spec, t, enc))
                if kind == 'file':
                    return io.BytesIO(t.encode(enc))
                if kind == 'textfile':
                    return io.StringIO(t)
                res = self.response
                if kind == 'sfile':
                    f = ShortReader(t if spec['textmode'] else t.encode(enc), spec['reads'], lambda: short_reads.append(k))
                    if spec['how'] == 'return':
                        return f
                    res.body = f                    # Body.__set__ wraps it into file_generator and switches streaming on
                    if spec['how'] == 'body-nostream':
                        res.stream = False          # the application prefers the whole body in one piece
                    return res
                if vk == 'bodygen':                 # an iterator body without streaming
                    res.body = (c for c in chunks_for(spec, t, enc))
                    return res
                res.stream = True
                if kind == 'stream':
                    res.body = (c for c in chunks_for(spec, t, enc))
                else:   # push: the response stays open, the data follows in `stream` events (examples/web/terminal)
                    res.sim_push = dict(res=res, chunks=[c for c in chunks_for(spec, t, enc) if c] + [None], i=0, go=False, wait=0, gap=spec['gap'])
                    pushes.append(res.sim_push)
                return res
        meth.__name__ = 'm%d' % idx
        return meth

    Root = type('Root', (Controller,), {'m%d' % i: make_method(i, s) for i, s in enumerate(specs)})

    class Backend(Component):
        channel = 'app'

        def deleg(self, idx, k):
            spec = specs[idx]
            t = text_for(k, spec['size'], na if spec['nonascii'] else ':')
            if spec['gap']:
                return self._late(spec, t)
            if spec['sub'].endswith('raise'):
                raise RuntimeError('backend failure ' + k)
            return t

        def _late(self, spec, t):
            for _ in range(spec['gap']):
                yield None
            if spec['sub'].endswith('raise'):
                raise RuntimeError('late backend failure')
            yield t

    class PushApp(Component):
        channel = 'web'

        def response_success(self, e, value):
            job = getattr(e.args[0], 'sim_push', None)
            if job is not None:
                job['go'] = True

    m = make_running(Manager())
    poller().register(m)
    srv = Server(('10.0.0.1', 80), encoding=enc).register(m)
    Root().register(srv)
    PushApp().register(srv)
    Backend().register(srv)
    for i, s in enumerate(specs):
        ctx.trace('method /m%d: %s%s size=%d status=%s%s%s%s' % (i, shape_of(s), ' (response.stream = True; returns %s)' % s['kind'] if s['stream_on'] else
                                                                ' (returns %s)' % s['sub'] if s['kind'] == 'nobody' and s['size'] else '', s['size'], s['status'] or s['code'] or s['cls'] or '-',
                                                                ' non-ascii' if s['nonascii'] else '', ' pieces=%r' % (s['pieces'],) if s['pieces'] else '',
                                                              ' file-like (%s, %s), read() delivers at most %r' % (s['how'], 'text' if s['textmode'] else 'binary', s['reads']) if s['reads'] else ''))
    ctx.trace('server: %s, SO_SNDBUF=%s, encoding=%s, faults=%s rate 1/%d' % (poller.__name__, NET.sndbuf, enc, sorted(pol.kinds) or 'none', pol.rate))

    def do_pushes():
        busy = False
        for job in pushes:
            if job['i'] >= len(job['chunks']):
                continue
            busy = True
            if not job['go']:
                continue
            if job['wait'] > 0:
                job['wait'] -= 1
                continue
            srv.fire(stream(job['res'], job['chunks'][job['i']]), 'web')
            job['i'] += 1
            job['wait'] = job['gap']
        return busy

    # ---- clients --------------------------------------------------------------------------------------------
    conns = []

    def open_conn():
        p = Peer()
        if p.connect(('10.0.0.1', 80)) != 0:
            raise HarnessLimit('connect refused')
        c = dict(i=len(conns), p=p, pos=0, usable=True, hist=[], seen=0)
        conns.append(c)
        ctx.log('open', c['i'])
        ctx.trace('c%d: connect from %s:%s' % (c['i'], p.local[0], p.local[1]))
        return c

    def draw_request(c):
        st['serial'] += 1
        marker = 'K%02dZ' % st['serial']
        idx = ch.draw(nspecs, 'target')
        spec = specs[idx]
        ver = 1 - ch.draw(2, 'http-version')          # simplest: HTTP/1.1
        wish = ch.choice([None, 'keep-alive', 'close'], 'connection-header')
        keep = wish == 'keep-alive' or (wish is None and ver == 1)
        head_ok = spec['kind'] != 'push'
        if K_HEAD_OPEN in avoid and not (keep and spec['kind'] in ('str', 'bytes', 'list', 'genfunc', 'genret', 'nobody') and spec['status'] != 413):
            head_ok = False
        method = 'HEAD' if (head_ok and ch.chance(1, 4, 'HEAD')) else 'GET'
        mode = ch.weighted([5, 2, 2], 'read-pace')
        r = dict(marker=marker, spec=spec, idx=idx, method=method, ver=ver, wish=wish, conn=c, sent=False, resp=None, keep=keep,
                 delay=ch.choice([0, 0, 1, 2, 4, 9], 'start-offset'), limit=1 << 20, stall=0, nth=len(c['hist']))
        if mode == 1:
            r['limit'] = ch.choice([1024, 97, 5000], 'read-limit')
            if r['limit'] * 600 < spec['size']:
                r['limit'] = 5000          # keep the number of rounds bounded for the largest bodies
            ctx.stat('peer:slow')
        elif mode == 2:
            r['stall'] = ch.choice([5, 20, 60], 'stall-rounds')
            if ch.chance(1, 3, 'slow-after-stall'):
                r['limit'] = 2048
            ctx.stat('peer:stall')
        host = ver == 1 or ch.chance(1, 2, 'host-header')
        r['path'] = '/m%d' % idx
        r['noncanon'] = ch.chance(1, 5, 'non-canonical-target')
        if r['noncanon']:
            r['path'] = ch.choice(NONCANON, 'non-canonical-form') % idx
        lines = ['%s %s?k=%s HTTP/1.%d' % (method, r['path'], marker, ver)]
        if host:
            lines.append('Host: sim.test')
        if wish:
            lines.append('Connection: ' + wish)
        r['bytes'] = ('\r\n'.join(lines) + '\r\n\r\n').encode()
        markers[marker] = r
        return r

    def foreign_marker(r, text):
        """marker of an EARLIER request found in text (header value or body)"""
        for mk in markers:
            if mk != r['marker'] and mk in text:
                return mk
        return None

    def own_key(r, other=None):
        # the answer belongs to another request: localised by what that request was (a HEAD earlier on this connection is the history shape of
        # the fixed finding K_HEAD_STALE, kept as its own key so that a regression is recognised)
        q = markers.get(other)
        if q is not None and q['method'] == 'HEAD' and q['conn'] is r['conn']:
            return K_HEAD_STALE
        return 'C15/own-response/after-' + ('GET' if r['nth'] else 'nothing')

    def describe(r):
        return '%s %s?k=%s HTTP/1.%d%s -> %s' % (r['method'], r['path'], r['marker'], r['ver'], ' Connection: ' + r['wish'] if r['wish'] else '', shape_of(r['spec']))

    def check_response(r, resp, data):
        """Clauses that can be judged as soon as the response is complete."""
        spec, c = r['spec'], r['conn']
        shape = shape_of(spec)
        statuses, body, contains, header = expected_for(spec, r['marker'], r['method'], enc, na)
        ctx.log('resp', c['i'], r['marker'], resp.status, resp.framing, len(resp.body), zlib.crc32(resp.body), resp.close_announced)
        ctx.trace('c%d: <- HTTP/1.%d %d, framing=%s, %d body bytes, %s%s' % (
            c['i'], resp.version[1], resp.status, resp.framing, len(resp.body), 'announces close' if resp.close_announced else 'keep-alive',
            ', chunks %r' % resp.chunk_sizes[:8] if resp.framing == 'chunked' else ''))
        what = 'request %s; response %r' % (describe(r), resp)
        # "each further request is answered correctly": with ITS OWN response
        xm = resp.header('X-Marker')
        if xm is not None and xm != r['marker']:
            return failr(r, own_key(r, xm), '%s carries X-Marker %r, i.e. the response to %s' % (what, xm, describe(markers[xm]) if xm in markers else 'nothing that was asked'))
        loc = resp.header('Location')
        fm = foreign_marker(r, loc) if loc else None
        if fm:
            return failr(r, own_key(r, fm), '%s redirects to %r, which is the answer to %s' % (what, loc, describe(markers[fm])))
        if r['noncanon'] and xm is None:
            # the server answered a target that is not in canonical form by itself (the statement does not say how): the application produced nothing
            # to compare with; what remains is that the answer is not the one to another request, and the framing / close clauses below
            fm = foreign_marker(r, resp.body.decode('latin1')[:4000])
            if fm:
                return failr(r, own_key(r, fm), '%s has the body of the response to %s' % (what, describe(markers[fm])))
            statuses, body, contains, header = {resp.status}, None, None, False
        # "recovers exactly the status ..."
        if resp.status not in statuses:
            return failr(r, 'C15/status/%s' % shape, '%s: expected status %s' % (what, sorted(statuses)))
        # "... headers ..." the application set
        if header and xm is None:
            return failr(r, 'C15/headers/app-header-missing/%s' % shape, '%s lacks the X-Marker header the handler set on the response' % what)
        if spec['sub'] == 'raise_redirect' or (spec['sub'] == 'redirect' and spec['code'] in REDIRECT_WITH_LOCATION):
            loc = resp.header('Location')
            if loc is None or r['marker'] not in loc:
                fm = foreign_marker(r, loc or '')
                return failr(r, own_key(r, fm) if fm else 'C15/headers/location/%s' % shape, '%s: Location is %r, the application redirected to /landing/%s' % (what, loc, r['marker']))
        # "... and body bytes the application produced"; "HEAD, 1xx, 204 and 304 responses carry no body"
        if body is not None and resp.body != body:
            fm = foreign_marker(r, resp.body.decode('latin1')[:4000])
            if fm:
                return failr(r, own_key(r, fm), '%s has the body of the response to %s' % (what, describe(markers[fm])))
            n = min(len(body), len(resp.body))
            d = next((i for i in range(n) if body[i] != resp.body[i]), n)
            return failr(r, 'C15/body/%s/%s' % (shape, resp.framing), '%s: application produced %d bytes, client recovers %d; first difference at offset %d: expected %r got %r' % (
                what, len(body), len(resp.body), d, body[d:d + 24], resp.body[d:d + 24]))
        if contains is not None and contains not in resp.body:
            fm = foreign_marker(r, resp.body.decode('latin1')[:4000])
            if fm:
                return failr(r, own_key(r, fm), '%s has the body of the response to %s' % (what, describe(markers[fm])))
            return failr(r, 'C15/body/%s/%s' % (shape, resp.framing), '%s: the error page does not contain the application\'s description %r' % (what, contains))
        # "delimited by Content-Length, chunked encoding or connection close as the request's protocol version ... require"
        if resp.framing == 'chunked' and r['ver'] == 0:
            return failr(r, 'C15/framing/chunked-to-http10/%s' % shape, '%s: chunked transfer coding sent to an HTTP/1.0 client' % what)
        # second opinion: "can be parsed by an independent HTTP client"
        if resp.status != 100:
            so = second_opinion(data[resp.start:resp.end], r['method'])
            ctx.stat('second-opinion')
            if 'error' in so:
                return failr(r, 'C15/http.client/rejects/%s' % shape, '%s: http.client fails on the same bytes: %s' % (what, so['error']))
            if (so['status'], so['body'], so['consumed']) != (resp.status, resp.body, resp.end - resp.start) or so['will_close'] != resp.close_announced:
                return failr(r, 'C15/http.client/disagrees/%s' % shape, '%s: http.client reads status %d, %d body bytes, %d bytes consumed, will_close=%s' % (
                    what, so['status'], len(so['body']), so['consumed'], so['will_close']))
        # bookkeeping
        st['checked'] += 1
        ctx.stat('resp-checked')
        ctx.stat('resp-checked:faulty' if faulty else 'resp-checked:fault-free')
        ctx.stat('framing:' + resp.framing)
        ctx.stat('kind:' + spec['kind'])
        if spec['kind'] == 'deleg':
            ctx.stat('deleg:' + spec['sub'])
        ctx.stat('status-class:%d' % (resp.status // 100))
        own = xm == r['marker']          # the handler itself answered (not the server on behalf of a non-canonical target)
        if own and r['method'] != 'HEAD' and spec['stream_on']:
            ctx.stat('sized+stream')
            ctx.stat('sized+stream:' + spec['kind'])
        if own and r['method'] != 'HEAD' and spec['kind'] == 'nobody' and spec['size']:
            ctx.stat('nobody+body')
            ctx.stat('nobody+body:%s' % (resp.status if resp.status >= 200 else '1xx'))
        if r['nth'] > 0:
            ctx.stat('keepalive-reuse')
            prev = c['hist'][r['nth'] - 1]
            if prev['resp'] is not None and 300 <= prev['resp'].status < 400:
                ctx.stat('further-request-after-redirect')
            if prev['noncanon']:
                ctx.stat('further-request-after-non-canonical')
        if r['noncanon']:
            ctx.stat('non-canonical-path')
        if r['marker'] in short_reads:
            ctx.stat('short-read-fileobj')
            ctx.stat('short-read-fileobj:' + spec['how'])
        if body and NET.sndbuf and len(body) > NET.sndbuf:
            ctx.stat('body>sndbuf')
        if spec['pieces'] and any(p[0] == 'empty' for p in spec['pieces']):
            ctx.stat('empty-chunk')
        if spec['nonascii'] and spec['size']:
            ctx.stat('nonascii')

    def client_round(r, rnd):
        """One scheduling round of the peer that issued r; returns True while it is (or may become) active."""
        c, p = r['conn'], r['conn']['p']
        busy = False
        if not r['sent']:
            if rnd < r['delay']:
                return True
            r['sent'] = True
            c['hist'].append(r)
            ctx.log('req', c['i'], r['marker'], r['method'], r['ver'], r['wish'] or '-', shape_of(r['spec']), r['spec']['size'], r['limit'], r['stall'])
            ctx.trace('c%d: -> %s   [peer reads: %s%s]' % (c['i'], describe(r), 'stalls %d rounds, then ' % r['stall'] if r['stall'] else '',
                                                           'at most %d bytes per round' % r['limit'] if r['limit'] < (1 << 20) else 'everything'))
            p.send(r['bytes'])
            if r['method'] == 'HEAD':
                ctx.stat('method:HEAD')
            if r['ver'] == 0:
                ctx.stat('http10')
            busy = True
        if p.out:
            p.pump()
            busy = True
        if r['stall'] > 0:
            r['stall'] -= 1
            return True
        if p.recv(r['limit']):
            busy = True
        if r['resp'] is None and not st['viol'] and (len(p.inp) > c['seen'] or p.eof):
            c['seen'] = len(p.inp)
            try:
                resp = parse_response(p.inp, c['pos'], r['method'], p.eof)
            except Malformed as e:
                # "every response the server writes can be parsed by an independent HTTP client"
                head = bytes(p.inp[c['pos']:c['pos'] + 160])
                failr(r, 'C15/malformed/%s/%s' % (e.clause, shape_of(r['spec'])), 'request %s: %s; bytes received for it begin %r' % (describe(r), e.detail, head))
                return False
            if resp is not None:
                r['resp'] = resp
                check_response(r, resp, bytes(p.inp))
        return busy

    def after(c):
        # pseudo request "whatever comes after the history of c" for the after-HEAD rule of fail()
        return dict(conn=c, nth=len(c['hist']))

    def idle_round(c):
        p = c['p']
        return bool(p.recv()) if not p.closed else False

    def phase_end(r):
        """Clauses that need quiescence: answered at all, nothing left over, closed iff announced."""
        c, p, resp = r['conn'], r['conn']['p'], r['resp']
        shape = shape_of(r['spec'])
        closed = p.eof
        if resp is None:
            got = bytes(p.inp[c['pos']:])
            diag = None
            try:
                diag = parse_response(p.inp, c['pos'], 'HEAD', True)    # header section only, for the diagnosis
            except Malformed:
                pass
            if diag is not None:
                xm = diag.header('X-Marker')
                fm = foreign_marker(r, diag.header('Location') or '')
                if fm and xm is None:
                    return failr(r, own_key(r, fm), 'request %s is answered with the header section of a redirect to %r, the answer to %s, and no complete body' % (
                        describe(r), diag.header('Location'), describe(markers[fm])))
                if xm is not None and xm != r['marker']:
                    return failr(r, own_key(r, xm), 'request %s is answered with the header section of the response to %s (X-Marker %r, status %d, %s) and no complete body' % (
                        describe(r), describe(markers[xm]) if xm in markers else '?', xm, diag.status, 'Content-Length %s' % diag.header('Content-Length')))
            return failr(r, 'C15/unanswered/%s/%s' % (shape, 'nothing-received' if not got else 'incomplete-response'),
                        'request %s: the server is quiescent, connection %s, but no complete response arrived; received %d bytes: %r' % (
                            describe(r), 'closed' if closed else 'open', len(got), got[:200]))
        c['pos'] = resp.end
        # "no bytes left over between responses"
        if len(p.inp) > resp.end:
            extra = bytes(p.inp[resp.end:])
            note = ''
            try:
                second = parse_response(p.inp, resp.end, r['method'], True)
                if second is not None:
                    note = ' (a second response: status %d, %d body bytes)' % (second.status, len(second.body))
            except Malformed:
                pass
            if resp.framing == 'none' and r['method'] != 'HEAD':
                # "HEAD, 1xx, 204 and 304 responses carry no body"
                note += ' (a %d response ends after its header section, whatever Content-Length says: this is a body it must not carry)' % resp.status
            cls = 'error-raised' if (r['spec']['sub'] or '').startswith('raise_') else shape
            return failr(r, 'C15/leftover/%s' % cls, 'request %s: %d bytes follow the end of its response %r%s: %r' % (describe(r), len(extra), resp, note, extra[:160]))
        # "the connection is closed iff the response announces it"
        fr = '%s-%s' % (r['method'], resp.framing) if r['method'] != 'HEAD' else 'HEAD'
        if resp.close_announced and not closed:
            return failr(r, 'C15/close/announced-but-open/%s' % fr, 'request %s: response %r announces that the connection will be closed (%s), but the server is quiescent and the connection is still open' % (
                describe(r), resp, 'Connection: ' + resp.header('Connection') if resp.header('Connection') else 'HTTP/1.0 without keep-alive'))
        if closed and not resp.close_announced:
            return failr(r, 'C15/close/closed-unannounced/%s' % fr, 'request %s: response %r announces a persistent connection (HTTP/1.%d, Connection: %s) but the server closed it' % (
                describe(r), resp, resp.version[1], resp.header('Connection')))
        ctx.stat('closed-by-server' if closed else 'kept-open')
        ctx.log('end', c['i'], r['marker'], closed)
        ctx.trace('c%d: quiescent, connection %s' % (c['i'], 'closed by the server' if closed else 'open'))
        ctx.state((shape, r['method'], r['ver'], r['wish'], resp.framing, closed, min(r['nth'], 2), c['hist'][r['nth'] - 1]['method'] if r['nth'] else None))
        if closed:
            c['usable'] = False
            p.close()

    def run_phase(active):
        quiet = 0
        rnd = 0
        idle = [c for c in conns if c['usable'] and all(r['conn'] is not c for r in active)]
        if len(active) > 1:
            ctx.stat('overlap')
        while quiet < 3 and not st['viol']:
            act = step(m)
            if len(m._queue) or m._tasks:
                act += 1
            busy = False
            for r in active:
                if client_round(r, rnd):
                    busy = True
            for c in idle:
                if idle_round(c):
                    busy = True
            if do_pushes():
                busy = True
            quiet = quiet + 1 if (act <= 0 and not busy) else 0
            rnd += 1
            st['rounds'] += 1
            if st['rounds'] > cfg['round_cap']:
                raise HarnessLimit('C15: no quiescence after %d rounds' % st['rounds'])
        for r in active:
            if st['viol']:
                break
            phase_end(r)
        for c in idle:
            if st['viol']:
                break
            p = c['p']
            if len(p.inp) > c['pos']:
                last = c['hist'][-1] if c['hist'] else None
                fail('C15/leftover/idle-connection', 'connection c%d (last request %s) received %d unsolicited bytes while idle: %r' % (
                    c['i'], describe(last) if last else 'none', len(p.inp) - c['pos'], bytes(p.inp[c['pos']:c['pos'] + 160])), after(c))
            elif p.eof and c['hist']:
                last = c['hist'][-1]
                fail('C15/close/closed-unannounced/idle', 'connection c%d was closed by the server while idle although its last response (to %s) announced keep-alive' % (c['i'], describe(last)), after(c))

    # ---- the history ----------------------------------------------------------------------------------------
    # quiesce the start-up events
    for _ in range(6):
        step(m)
    budget = ch.randint(1, cfg['max_requests'], 'requests')
    max_conns = ch.randint(1, 3, 'connections')
    while budget > 0 and not st['viol']:
        usable = [c for c in conns if c['usable']]
        if K_HEAD_STALE in avoid:
            usable = [c for c in usable if not any(q['method'] == 'HEAD' for q in c['hist'])]
        while len(conns) < max_conns and (not usable or ch.chance(1, 2, 'open-another')):
            usable.append(open_conn())
        if not usable:
            if len(conns) >= 6:
                break
            usable.append(open_conn())
        k = min(len(usable), budget)
        n = 1 + ch.draw(k, 'concurrent-requests')
        chosen = ch.permute(usable, 'which-connection')[:n] if len(usable) > 1 else usable[:1]
        active = [draw_request(c) for c in chosen]
        budget -= len(active)
        run_phase(active)
    for c in conns:
        c['p'].close()
    for _ in range(4):
        step(m)
    ctx.sim_time = W.now - T0
    ctx.nontrivial = st['checked'] >= 2
